"""C11 - Grid.filter selects exactly the rows the filter denotes.

Theorems: coq/theories/Props/C11.v (Model/Filter.v: the pyparsing grammar, the code
generator, _get_path / _follow_ref, _compare through an oracle, the row loop).
Tie: model vs implementation on (a) the AST, the generated Python source and the
literal tuple of every filter text, (b) the selected row indices on grids of
abstract valuations, with Python's comparison of values as the oracle.
Search on the implementation: an independent evaluator of Haystack filter
semantics over the generator's own AST (never the parser's) decides which rows
must come back - in order, truncated to limit, version / metadata / columns
carried over, source grid untouched."""
import datetime
import itertools
import operator
import random

import codec
from common import Sym

COMPONENTS = ['filter', 'escape', 'version', 'json']

OPS = {'==': operator.eq, '!=': operator.ne, '<=': operator.le, '>=': operator.ge, '<': operator.lt, '>': operator.gt}
OPNAMES = ['==', '!=', '<=', '>=', '<', '>']
TAGS = ['a', 'b', 'c', 'note', 'orb', 'andy', 'truex', 'n', 'siteRef', 'equipRef']


# ---------------------------------------------------------------- literals
def literals(h, modelled_only=False):
    """(text, value, in-the-model?)"""
    import pytz
    out = [('1', 1.0, True), ('2.5', 2.5, True), ('-3', -3.0, True), ('1e3', 1000.0, True), ('1_000', 1000.0, True), ('5kg', h.Quantity(5.0, 'kg'), True),
           ('10%', h.Quantity(10.0, '%'), True), ('7kW', h.Quantity(7.0, 'kW'), True), ('"x"', 'x', True), ('"a b"', 'a b', True), ('"q\\"\\n\\u00e9"', 'q"\né', True),
           ('""', '', True), ('`http://x/`', h.Uri('http://x/'), True), ('@r1', h.Ref('r1'), True), ('@r2 "dis two"', h.Ref('r2', 'dis two', True), True),
           ('@p:demo:r:1e85', h.Ref('p:demo:r:1e85'), True), ('true', True, True), ('false', False, True), ('M', h.MARKER, True), ('NA', h.NA, True),
           ('INF', float('inf'), True), ('-INF', float('-inf'), True),
           # blanks INSIDE a literal are data: runs of blanks, a trailing / leading blank, a no-break space
           ('"a  b"', 'a  b', True), ('" a b "', ' a b ', True), ('"a\u00a0b"', 'a\u00a0b', True), ('`http://x/a  b`', h.Uri('http://x/a  b'), True),
           ('@r2 "dis  two"', h.Ref('r2', 'dis  two', True), True), ('"and  or   not"', 'and  or   not', True)]
    if not modelled_only:
        out += [('2020-01-02', datetime.date(2020, 1, 2), False), ('12:30:00', datetime.time(12, 30), False),
                ('2020-01-02T03:04:05Z UTC', pytz.utc.localize(datetime.datetime(2020, 1, 2, 3, 4, 5)), False), ('Bin(text/plain)', h.Bin('text/plain'), False),
                ('C(1.5,-2.5)', h.Coordinate(1.5, -2.5), False), ('[1,2]', [1.0, 2.0], False), ('hex("00ff")', h.XStr('hex', '00ff'), False)]
    return out


# ---------------------------------------------------------------- ASTs and their texts
def gen_path(rng):
    r = rng.random()
    if r < 0.7:
        return (rng.choice(TAGS),)
    if r < 0.93:
        return (rng.choice(['siteRef', 'equipRef', 'id', 'a']), rng.choice(TAGS))
    return (rng.choice(['siteRef', 'equipRef']), rng.choice(['siteRef', 'equipRef', 'a']), rng.choice(TAGS))


def gen_atom(rng, lits):
    r = rng.random()
    if r < 0.3:
        return ('has', gen_path(rng))
    if r < 0.5:
        return ('missing', gen_path(rng))
    return ('cmp', rng.choice(OPNAMES), gen_path(rng), rng.randrange(len(lits)))


def gen_ast(rng, lits, depth):
    if depth == 0 or rng.random() < 0.3:
        return gen_atom(rng, lits)
    return (rng.choice(['and', 'or']), gen_ast(rng, lits, depth - 1), gen_ast(rng, lits, depth - 1))


def sp(rng, wide=True):
    return rng.choice([' ', ' ', '  ', '\t', ' \n '] if wide else ['', '', ' ', '  '])


def render(rng, ast, lits, parent=None, side=None):
    """a text denoting exactly this AST: parentheses where the grammar needs them (or / right-nested operands), sometimes redundant ones"""
    k = ast[0]
    if k == 'has':
        t = ('%s->%s' % (sp(rng, False), sp(rng, False))).join(ast[1])
    elif k == 'missing':
        t = 'not' + sp(rng) + ('%s->%s' % (sp(rng, False), sp(rng, False))).join(ast[1])
    elif k == 'cmp':
        t = ('%s->%s' % (sp(rng, False), sp(rng, False))).join(ast[2]) + sp(rng, False) + ast[1] + sp(rng, False) + lits[ast[3]][0]
    else:
        l = render(rng, ast[1], lits, k, 'l')
        r = render(rng, ast[2], lits, k, 'r')
        t = l + sp(rng) + k + sp(rng) + r
    need = False
    if k in ('and', 'or') and parent is not None:
        if parent == 'and' and k == 'or':
            need = True
        elif side == 'r' and parent == k:
            need = True          # a right-nested chain needs its parentheses: the fold is to the left
        elif side == 'r' and parent == 'or' and k == 'and':
            need = False
    if need or (rng.random() < 0.15):
        t = '(' + sp(rng, False) + t + sp(rng, False) + ')'
    return t


def ast_wire(ast, lits, h):
    """the AST in the form the model prints it"""
    k = ast[0]
    if k == 'has':
        return ['has', list(ast[1])]
    if k == 'missing':
        return ['missing', list(ast[1])]
    if k == 'cmp':
        return ['cmp', ast[1], list(ast[2]), codec.canon(lits[ast[3]][1])]
    return [k, ast_wire(ast[1], lits, h), ast_wire(ast[2], lits, h)]


def model_ast(a):
    k = str(a[0])
    if k in ('has', 'missing'):
        return [k, list(a[1])]
    if k == 'cmp':
        return ['cmp', a[1], list(a[2]), codec.canon_model(a[3])]
    return [k, model_ast(a[1]), model_ast(a[2])]


# ---------------------------------------------------------------- grids of valuations
def build_grid(rng, h, lits, n_rows):
    g = h.Grid(version='3.0')
    g.metadata['dis'] = 'universe'
    for t in ['id'] + TAGS:
        g.column[t] = {}
    g.column['a']['unit'] = 'x'
    ids = []
    for i in range(n_rows):
        kind = rng.choice(['ref', 'ref', 'str', 'refdis', 'none'])
        name = 'r%d' % i
        ids.append((kind, name))
    values = [v for _, v, _ in lits] + [0.0, 2.0, 1000.5, h.Quantity(4.0, 'kg'), h.Quantity(5.0, 'lb'), 'w', 'y', h.Uri('http://x/'), h.Uri('z'), 3, True]
    for i, (kind, name) in enumerate(ids):
        row = {}
        if kind == 'ref':
            row['id'] = h.Ref(name)
        elif kind == 'str':
            row['id'] = rng.choice([name, '@' + name])
        elif kind == 'refdis':
            row['id'] = h.Ref(name, 'Row %d' % i, True)
        for t in TAGS:
            r = rng.random()
            if t in ('siteRef', 'equipRef'):
                if r < 0.55:
                    row[t] = h.Ref(rng.choice(ids)[1] if r < 0.45 else 'nowhere')
                elif r < 0.65:
                    row[t] = rng.choice(['r1', 5.0, None, {'a': 1.0, 'b': 'x'}])
                continue
            if r < 0.3:
                continue
            if r < 0.4:
                row[t] = None
            elif r < 0.5:
                row[t] = h.MARKER
            else:
                row[t] = rng.choice(values)
        g.append(row)
    return g


# ---------------------------------------------------------------- the specification (independent of hszinc.grid_filter)
ABSENT = object()


def spec_follow(h, rows, name):
    """the row whose id matches the reference: a Ref of that name, or the name kept as a plain string (with or without @)"""
    for key in (name, '@' + name):
        hit = [r for r in rows if 'id' in r and isinstance(r['id'], (str, h.Ref)) and str(r['id']) == key]
        if hit:
            return hit[-1]
    for r in rows:
        if isinstance(r.get('id'), h.Ref) and r['id'].name == name:
            return r
    return None


def spec_path(h, rows, row, path):
    obj = row
    for i, p in enumerate(path):
        if not isinstance(obj, dict) or p not in obj:
            return ABSENT
        obj = obj[p]
        if i != len(path) - 1 and isinstance(obj, h.Ref):
            obj = spec_follow(h, rows, obj.name)
            if obj is None:
                return ABSENT
    return ABSENT if obj is None else obj


def spec_cmp(op, left, right):
    try:
        return bool(OPS[op](left, right))
    except TypeError:
        return False


def spec_eval(h, rows, row, ast, lits):
    k = ast[0]
    if k == 'has':
        return spec_path(h, rows, row, ast[1]) is not ABSENT
    if k == 'missing':
        return spec_path(h, rows, row, ast[1]) is ABSENT
    if k == 'cmp':
        v = spec_path(h, rows, row, ast[2])
        return False if v is ABSENT else spec_cmp(ast[1], v, lits[ast[3]][1])
    if k == 'and':
        return spec_eval(h, rows, row, ast[1], lits) and spec_eval(h, rows, row, ast[2], lits)
    return spec_eval(h, rows, row, ast[1], lits) or spec_eval(h, rows, row, ast[2], lits)


# ---------------------------------------------------------------- wire encoding of rows for the model
class Values:
    def __init__(self):
        self.objs = []

    def vid(self, v):
        self.objs.append(v)
        return len(self.objs) - 1


def enc_fval(h, v, vals):
    if v is None:
        return [Sym('null')]
    if isinstance(v, h.Ref):
        return [Sym('ref'), v.name, str(v), vals.vid(v)]
    if type(v) is str:
        return [Sym('str'), v, vals.vid(v)]
    if isinstance(v, dict):
        return [Sym('dict'), [[k, enc_fval(h, x, vals)] for k, x in v.items()], vals.vid(v)]
    return [Sym('other'), vals.vid(v)]


def run(ctx):
    h = codec.H()
    import warnings
    warnings.simplefilter('ignore')
    from hszinc import grid_filter
    rng = random.Random(ctx.seed + 11)
    thorough = ctx.tier == 'thorough' or ctx.escalate
    lits_all = literals(h)
    lits_m = literals(h, modelled_only=True)
    n_model = len(lits_m)
    ctx.coverage['rule'] = ('every filter AST with up to 2 connectives over 9 atoms (exhaustive: has / not / six comparisons, one- and two-step paths, tags whose names start with not / or / and / true) '
                            'plus random ASTs of depth <= 4 over %d literals of every kind, each rendered with spacing / parenthesis variation, on grids of 40 rows of valuations '
                            '(absent, null, marker, equal, below, above, other kind, valid / dangling / non-reference steps, ids kept as Ref, Ref with display name, plain string, @string, or missing) '
                            'x limit in {0, 1, 3, 1000}; distinct by (filter text, grid, limit)' % len(lits_all))
    grids = [build_grid(random.Random(ctx.seed * 100 + i), h, lits_all, 40) for i in range(6 if thorough else 2)]

    # ---- filters
    atoms = [('has', ('a',)), ('missing', ('note',)), ('has', ('orb',)), ('cmp', '==', ('a',), 0), ('cmp', '<', ('b',), 1), ('cmp', '!=', ('c',), 8),
             ('cmp', '>=', ('siteRef', 'a'), 0), ('has', ('siteRef', 'andy')), ('missing', ('equipRef', 'siteRef', 'truex'))]
    asts = list(atoms)
    for op in ('and', 'or'):
        for x, y in itertools.product(atoms, repeat=2):
            asts.append((op, x, y))
    small = atoms[:5]
    for o1, o2 in itertools.product(('and', 'or'), repeat=2):
        for x, y, z in itertools.product(small, repeat=3):
            asts.append((o1, (o2, x, y), z))
            asts.append((o1, x, (o2, y, z)))
    n_exh = len(asts)
    for _ in range(20000 if thorough else 1200):
        asts.append(gen_ast(rng, lits_all, rng.randint(1, 4)))
    filters = []
    for n, ast in enumerate(asts):
        for rep in range(2 if n < n_exh else 1):
            filters.append((ast, render(rng, ast, lits_all)))

    def uses_only_model(ast):
        if ast[0] == 'cmp':
            return ast[3] < n_model
        if ast[0] in ('and', 'or'):
            return uses_only_model(ast[1]) and uses_only_model(ast[2])
        return True

    # ---- search on the implementation
    snapshots = [(codec.canon(g), [id(r) for r in g]) for g in grids]
    for n, (ast, text) in enumerate(filters):
        gi = n % len(grids)
        g = grids[gi]
        rows = list(g)
        for limit in ((0, 1, 3, 1000) if n % 7 == 0 else (0, rng.choice([1, 3, 1000]))):
            ctx.coverage['evaluations'] += 1
            rep = {'filter': text, 'grid': gi, 'limit': limit, 'seed': ctx.seed}
            try:
                res = g.filter(text, limit) if limit else g.filter(text)
            except Exception as e:  # noqa
                ctx.violation('impl-counterexample', 'filter %r raised %s: %s' % (text, type(e).__name__, str(e)[:100]), rep)
                return
            want = [i for i, r in enumerate(rows) if spec_eval(h, rows, r, ast, lits_all)]
            if limit:
                want = want[:limit]
            got_ids = [id(r) for r in res]
            pos = {id(r): i for i, r in enumerate(rows)}
            got = [pos.get(x, -1) for x in got_ids]
            if got != want:
                ctx.violation('impl-counterexample', 'filter %r (limit %d) returned rows %r, it denotes rows %r (wrongly returned: %r, wrongly left out: %r)'
                              % (text, limit, got[:12], want[:12], [x for x in got if x not in want][:6], [x for x in want if x not in got][:6]), rep)
                return
            if str(res.version) != str(g.version) or codec.canon(dict(res.metadata)) != codec.canon(dict(g.metadata)) \
                    or [(c, codec.canon(dict(m))) for c, m in res.column.items()] != [(c, codec.canon(dict(m))) for c, m in g.column.items()]:
                ctx.violation('impl-counterexample', 'filter %r: version / metadata / columns are not carried over' % text, rep)
                return
        ctx.count('connectives:%d' % min(3, str(ast).count("'and'") + str(ast).count("'or'")))
    # ---- literals of DIFFERENT kinds that compare equal (5 and 5 kW, 1 and true, 0 and false ...) in one filter: each comparison is against
    # its own literal.  A grid with one row per (tag, value) over values of every such kind; every pair of literals, both connectives
    plits = [('5', 5.0, False), ('5kW', h.Quantity(5.0, 'kW'), False), ('5kg', h.Quantity(5.0, 'kg'), False), ('5.0', 5.0, False), ('true', True, False),
             ('1', 1.0, False), ('1kW', h.Quantity(1.0, 'kW'), False), ('false', False, False), ('0', 0.0, False), ('"x"', 'x', False), ('`x`', h.Uri('x'), False)]
    pg = h.Grid(version='3.0')
    for c in ('id', 'a', 'b'):
        pg.column[c] = {}
    for _, v, _ in plits:
        pg.append({'a': v})
        pg.append({'b': v})
        pg.append({'a': v, 'b': v})
    prows = list(pg)
    ppos = {id(r): i for i, r in enumerate(prows)}
    for i, j in itertools.product(range(len(plits)), repeat=2):
        for conn in ('or', 'and'):
            for opn in ('==', '!='):
                ast = (conn, ('cmp', opn, ('a',), i), ('cmp', '==', ('b',), j))
                text = render(rng, ast, plits)
                ctx.coverage['evaluations'] += 1
                ctx.count('literal-pairs')
                try:
                    got = [ppos.get(id(r), -1) for r in pg.filter(text)]
                except Exception as e:  # noqa
                    ctx.violation('impl-counterexample', 'filter %r raised %s: %s' % (text, type(e).__name__, str(e)[:100]), {'filter': text, 'grid': 'literal-pairs'})
                    return
                want = [n for n, r in enumerate(prows) if spec_eval(h, prows, r, ast, plits)]
                if got != want:
                    ctx.violation('impl-counterexample', 'filter %r on the grid of literal values returned rows %r, it denotes rows %r (each comparison is against its own literal)'
                                  % (text, got[:12], want[:12]), {'filter': text, 'grid': 'literal-pairs', 'rows': [repr(dict(r)) for r in prows][:40]})
                    return
    for g, (snap, ids) in zip(grids, snapshots):
        if codec.canon(g) != snap or [id(r) for r in g] != ids:
            ctx.violation('impl-counterexample', 'filtering modified the source grid', {'seed': ctx.seed})
            return
    # blank filter and limit
    for g in grids:
        for text, limit in (('', 0), ('  ', 0), ('', 3), (' \t', 1)):
            res = g.filter(text, limit) if limit else g.filter(text)
            want = list(range(len(g)))[:limit] if limit else list(range(len(g)))
            pos = {id(r): i for i, r in enumerate(g)}
            if [pos.get(id(r), -1) for r in res] != want:
                ctx.violation('impl-counterexample', 'the blank filter with limit %d returned the wrong rows' % limit, {'filter': text, 'limit': limit})
                return
    ctx.coverage['distinct_nontrivial'] = len(set(t for _, t in filters))

    # ---- tie 1: AST, generated source, literals
    tie = [(a, t) for a, t in filters if uses_only_model(a)]
    answers = ctx.model.ask_parallel([[Sym('fparse'), t] for _, t in tie])
    for (ast, text), a in zip(tie, answers):
        ctx.coverage['traces_validated_against_impl'] += 1
        consts = []
        try:
            head = grid_filter.parse_filter(text)._head
            src = ''.join(grid_filter._generate_filter_in_python(head, [], consts))
            impl = ('ok', src, [codec.canon(c) for c in consts])
        except Exception as e:  # noqa
            impl = ('error', type(e).__name__)
        if str(a) == 'error' or str(a[0]) != 'ok':
            model = ('error',)
        else:
            model = ('ok', a[2], [codec.canon_model(c) for c in a[3]])
        if model[0] != impl[0] or (model[0] == 'ok' and (model[1] != impl[1] or model[2] != impl[2])):
            ctx.coverage['disagreements_checked'] += 1
            ctx.violation('correspondence-broken', 'filter %r: model %r, implementation %r' % (text, repr(model)[:300], repr(impl)[:300]), {'filter': text, 'component': 'fparse'})
            break
        if model[0] == 'ok' and model_ast(a[1]) != ast_wire(ast, lits_all, h):
            ctx.violation('correspondence-broken', 'filter %r: the model reads the AST %r, the text was written for %r' % (text, model_ast(a[1]), ast_wire(ast, lits_all, h)),
                          {'filter': text, 'component': 'fparse-ast'})
            break
    # malformed texts: both must reject (or both accept)
    bad = ['', 'a ==', '== 1', 'a and', 'and a', 'a or or b', '(a', 'a)', 'a b', 'not', 'not not a', 'a->', '->a', 'a - > b', 'A', 'a == b', 'a === 1', 'a = 1', 'a <> 1', '1 == a',
           'a == "x', 'a == @', 'not(a)', 'a andb', 'a and(b)', '(a)and b', 'a==1and b', 'a == trueand b', 'nota', 'a == 1 2', 'a ==1kg kg', 'a == 1 kg', 'a==`u', 'a == M and not b->c or (d)',
           'a\tand\nb', ' a ', '((a))', '(a or b) and c', 'a == N', 'a == Nan', 'a == NaN', 'x == -INF', 'a == 1e', 'a == .5', 'a == 5.', 'a == -', 'a == 1e+3', 'a == 1E3kW', 'a==@r "d"', 'a == @ r']
    answers = ctx.model.ask([[Sym('fparse'), t] for t in bad])
    for text, a in zip(bad, answers):
        ctx.coverage['traces_validated_against_impl'] += 1
        consts = []
        try:
            head = grid_filter.parse_filter(text)._head
            src = ''.join(grid_filter._generate_filter_in_python(head, [], consts))
            impl = ('ok', src)
        except Exception as e:  # noqa
            impl = ('error',)
        model = ('error',) if (str(a) == 'error' or str(a[0]) != 'ok') else ('ok', a[2])
        if model != impl:
            ctx.coverage['disagreements_checked'] += 1
            ctx.violation('correspondence-broken', 'text %r: model %r, implementation %r' % (text, model, impl), {'filter': text, 'component': 'fparse'})
            break

    # ---- tie 2: selected rows, with Python's comparison as the oracle
    cmds, expect = [], []
    for n, (ast, text) in enumerate(tie[:(12000 if thorough else 900)]):
        gi = n % len(grids)
        g = grids[gi]
        limit = [0, 0, 1, 3][n % 4]
        try:
            fn = grid_filter.filter_function(text)
        except Exception:  # noqa
            continue
        consts = fn.__defaults__[0] if fn.__defaults__ else ()
        vals = Values()
        rows_w = [[[k, enc_fval(h, v, vals)] for k, v in r.items()] for r in g]
        table = []
        for vid, obj in enumerate(vals.objs):
            for ci, c in enumerate(consts):
                table.append([vid, ci, [spec_cmp(op, obj, c) for op in OPNAMES]])
        cmds.append([Sym('frun'), text, limit, rows_w, table])
        res = g.filter(text, limit) if limit else g.filter(text)
        pos = {id(r): i for i, r in enumerate(g)}
        expect.append((text, limit, [pos.get(id(r), -1) for r in res]))
    for a, (text, limit, got) in zip(ctx.model.ask_parallel(cmds), expect):
        ctx.coverage['traces_validated_against_impl'] += 1
        m = [int(x) for x in a[1:]] if (isinstance(a, list) and str(a[0]) == 'ok') else repr(a)[:100]
        if m != got:
            ctx.coverage['disagreements_checked'] += 1
            ctx.violation('correspondence-broken', 'filter %r (limit %d): the model selects rows %r, the implementation %r' % (text, limit, m, got), {'filter': text, 'limit': limit, 'component': 'frun'})
            break
    ctx.sample({'filter': filters[40][1], 'denotes': repr(filters[40][0])[:200]})


def replay(ctx, data):
    print('replay:', data)
    run(ctx)
