(* Times with a fraction of seconds of one to six digits, through the whole scalar alternation (property C03) *)
From Coq Require Import String.
From Coq Require Import List NArith Bool Lia Arith.
From HS Require Import Base.Prelude Model.Value Model.Escape Model.Version Model.Json Model.ZincParse.
From HS Require Import Proofs.VersionP Proofs.EscapeP Proofs.JsonP Proofs.ZincParseP Proofs.ZincNumP Proofs.ZincDateP.
Import ListNotations.
Open Scope N_scope.

Definition tfrac_text (h mi s : N) (fr : str) : str := (d2 h ++ [58] ++ d2 mi ++ [58] ++ d2 s ++ 46 :: fr)%list.
Definition tfrac_ok (h mi s : N) (fr : str) : Prop :=
  h <= 23 /\ mi <= 59 /\ s <= 59 /\ fr <> [] /\ (length fr <= 6)%nat /\ forallb ascii_digit fr = true.

Lemma p_time_str_frac h mi s fr rest : tfrac_ok h mi s fr -> delim rest ->
  p_time_str (tfrac_text h mi s fr ++ rest) = Some (Ok (d2 h, d2 mi, d2 s, Some fr), rest).
Proof.
  intros [Hh [Hm [Hs [Hne [Hl Hd]]]]] Hdl. unfold tfrac_text. rewrite <- !app_assoc. cbn [List.app]. unfold p_time_str.
  rewrite (two_digits_d2 h _ ltac:(lia)), hd_is_same, (two_digits_d2 mi _ ltac:(lia)), hd_is_same, (two_digits_d2 s _ ltac:(lia)).
  pose proof (delim_not_digit rest Hdl) as Hr. rewrite <- ?app_assoc. cbn [List.app].
  rewrite hd_is_same.
  assert (Sp : span is_digit (fr ++ rest) = (fr, rest)).
  { destruct rest as [|c r]; [rewrite app_nil_r; apply JsonP.span_all; apply forallb_ascii_digit; exact Hd|].
    apply JsonP.span_app; [apply forallb_ascii_digit; exact Hd|exact (proj1 Hr)]. }
  unfold str in *. rewrite Sp. destruct fr; [contradiction|reflexivity].
Qed.

Theorem scalar_time_frac f v3 h mi s fr rest : tfrac_ok h mi s fr -> delim rest ->
  p_scalar (S f) v3 (tfrac_text h mi s fr ++ rest) = Some (Ok (VTime h mi s (usec_of fr)), rest).
Proof.
  intros Hok Hd. pose proof (p_time_str_frac h mi s fr rest Hok Hd) as TS. destruct Hok as [Hh [Hm [Hs [Hne [Hl Hdg]]]]].
  assert (PT : p_time (tfrac_text h mi s fr ++ rest) = Some (Ok (VTime h mi s (usec_of fr)), rest)).
  { unfold p_time, pact. rewrite TS. rewrite (int_d2 h ltac:(lia)), (int_d2 mi ltac:(lia)), (int_d2 s ltac:(lia)).
    assert (B : (h <=? 23) && (mi <=? 59) && (s <=? 59) = true) by (rewrite !andb_true_iff; repeat split; apply N.leb_le; assumption).
    assert (L6 : Nat.ltb 6 (length fr) = false) by (apply Nat.ltb_ge; exact Hl).
    rewrite L6, B. reflexivity. }
  assert (PDS : p_date_str (tfrac_text h mi s fr ++ rest) = None).
  { unfold tfrac_text, d2. cbn [List.app]. apply two_digs_colon_no_date. }
  assert (PD : p_date (tfrac_text h mi s fr ++ rest) = None) by (unfold p_date, pact; rewrite PDS; reflexivity).
  assert (PDT : p_datetime (tfrac_text h mi s fr ++ rest) = None) by (unfold p_datetime, p_iso_datetime, pmap, pact, pand; rewrite PDS; reflexivity).
  set (nrest := (58 :: d2 mi ++ [58] ++ d2 s ++ (46 :: fr) ++ rest)%list).
  assert (PN : p_number (tfrac_text h mi s fr ++ rest) = Some (Ok (VNum NkFin (d2 h) (d2 h) None), nrest)).
  { unfold tfrac_text, nrest. rewrite <- !app_assoc. cbn [List.app]. apply p_number_digits; [apply d2_digs| |reflexivity]. cbn. repeat split; discriminate. }
  assert (PX : p_xstr (tfrac_text h mi s fr ++ rest) = None).
  { unfold tfrac_text. rewrite <- !app_assoc. cbn [List.app]. apply p_xstr_none; [apply digs_not40; exact (proj2 (d2_digs h))|]. split; [reflexivity|discriminate]. }
  assert (L : Nat.le (length rest) (length nrest)).
  { unfold nrest. cbn [length]. rewrite !app_length. cbn [length List.app]. rewrite ?app_length. cbn [length]. lia. }
  clearbody nrest.
  revert PT PD PDT PN PX. unfold tfrac_text, d2. cbn [List.app].
  pose proof (adig_mod (h / 10)) as Ha. set (a := 48 + (h / 10) mod 10) in *.
  set (tl := (48 + h mod 10 :: 58 :: (48 + (mi / 10) mod 10 :: 48 + mi mod 10 :: [58] ++ [48 + (s / 10) mod 10; 48 + s mod 10] ++ 46 :: fr) ++ rest)).
  clearbody tl. clearbody a.
  dcases Ha; intros PT PD PDT PN PX; cbn [p_scalar]; destruct v3; cbv zeta; unfold scalars_2_0, por.
  all: try (rewrite por_pick_skip by reflexivity; rewrite por_pick_skip by exact PX; do 3 rewrite por_pick_skip by reflexivity;
            rewrite por_pick_skip by exact PDT; rewrite por_pick_skip by exact PD; erewrite por_pick_start by exact PT;
            rewrite por_pick_skip by reflexivity;
            erewrite por_pick_keep by first [exact PN | exact L];
            apply por_pick_rest_none; repeat (apply Forall_cons; [reflexivity|]); apply Forall_nil).
  all: (do 4 rewrite por_pick_skip by reflexivity;
        rewrite por_pick_skip by exact PDT; rewrite por_pick_skip by exact PD; erewrite por_pick_start by exact PT;
        rewrite por_pick_skip by reflexivity;
        erewrite por_pick_keep by first [exact PN | exact L];
        apply por_pick_rest_none; repeat (apply Forall_cons; [reflexivity|]); apply Forall_nil).
Qed.

Example scalar_time_frac_ex :
  zparse_scalar true (s_ "07:08:09.25") = Ok (VTime 7 8 9 250000) /\ zparse_scalar false (s_ "23:59:59.000001") = Ok (VTime 23 59 59 1) /\
  zparse_scalar true (s_ "07:08:09.1234567") = Raise ValueError.
Proof. vm_compute. repeat split; reflexivity. Qed.
Print Assumptions scalar_time_frac.
