(* JSON writer: the object written for a grid, piece by piece *)
From Coq Require Import String.
From Coq Require Import List NArith Bool Lia Arith.
From HS Require Import Base.Prelude Model.Value Model.Escape Model.Version Model.Json.
From HS Require Import Proofs.PreludeP Proofs.VersionP Proofs.JsonP Proofs.JsonGridP.
Import ListNotations.
Open Scope N_scope.

Lemma dump_items_keys f p3 : forall l lj, dump_items f p3 l = Ok lj -> map fst lj = map fst l.
Proof.
  induction l as [|[k x] l IH]; intros lj H.
  - inversion H; reflexivity.
  - rewrite dump_items_cons in H. destruct (jdump f p3 x) as [j|]; [|discriminate]. cbn [bind] in H.
    destruct (dump_items f p3 l) as [r|] eqn:Er; [|discriminate]. cbn [bind] in H. inversion H; subst. cbn [map fst]. rewrite (IH r eq_refl). reflexivity.
Qed.

Lemma JsonP_ok_inj {A} (a b : A) : Ok a = Ok b -> a = b. Proof. congruence. Qed.

(* every row object has exactly one member per column, in column order *)
Lemma dump_rows_complete f p3 cols : NoDup (map fst cols) -> forall rows rs, dump_rows f p3 cols rows = Ok rs ->
  length rs = length rows /\ Forall (fun r => exists cells, r = JObj cells /\ map fst cells = map fst cols) rs.
Proof.
  intro Hnd. induction rows as [|row rows IH]; intros rs H.
  - inversion H; subst. split; [reflexivity|constructor].
  - rewrite dump_rows_cons in H.
    destruct (dump_items f p3 (map (fun c : str * list (str * hval) => (fst c, match assoc (fst c) row with Some x => x | None => VNull end)) cols)) as [cj|] eqn:Ec; [|discriminate].
    cbn [bind] in H. destruct (dump_rows f p3 cols rows) as [r|] eqn:Er; [|discriminate]. cbn [bind] in H. inversion H; subst.
    destruct (IH r eq_refl) as [L F]. split; [cbn [length]; rewrite L; reflexivity|]. constructor; [|exact F].
    pose proof (dump_items_keys f p3 _ cj Ec) as K. rewrite map_map in K. cbn [fst] in K.
    exists cj. split; [|exact K]. rewrite (dict_of_nodup cj); [reflexivity|]. rewrite K. exact Hnd.
Qed.

(* every column object carries the column's name under "name" *)
Lemma dump_cols_names f p3 : forall cols cs, dump_cols f p3 cols = Ok cs ->
  Forall2 (fun c j => exists m, j = JObj m /\ assoc NAME m = Some (JStr (fst c))) cols cs.
Proof.
  induction cols as [|[c cm] cols IH]; intros cs H.
  - inversion H; subst. constructor.
  - rewrite dump_cols_cons in H. destruct (dump_items f p3 cm) as [cmj|]; [|discriminate]. cbn [bind] in H.
    destruct (dump_cols f p3 cols) as [r|] eqn:Er; [|discriminate]. cbn [bind] in H. inversion H; subst. constructor; [|exact (IH r eq_refl)].
    eexists. split; [reflexivity|]. cbn [fst]. generalize (dict_of cmj). intro d. induction d as [|[k v] d IHd]; cbn [dict_set assoc].
    + rewrite str_eqb_refl. reflexivity.
    + destruct (str_eqb_spec k NAME) as [E|E]; cbn [assoc].
      * subst k. rewrite str_eqb_refl. reflexivity.
      * destruct (str_eqb_spec k NAME); [contradiction|exact IHd].
Qed.

Lemma assoc_dict_set {A} k (v : A) d : assoc k (dict_set k v d) = Some v.
Proof.
  induction d as [|[y w] d IH]; cbn [dict_set assoc].
  - rewrite str_eqb_refl. reflexivity.
  - destruct (str_eqb_spec y k) as [E|E]; cbn [assoc].
    + subst y. rewrite str_eqb_refl. reflexivity.
    + destruct (str_eqb_spec y k); [contradiction|exact IH].
Qed.

Theorem json_grid_pieces f ver meta cols rows j : cols <> [] -> NoDup (map fst cols) ->
  jdump_grid (S f) ver meta cols rows = Ok j ->
  exists m cs rs, j = JObj [(s_ "meta"%string, JObj m); (s_ "cols"%string, JArr cs); (s_ "rows"%string, JArr rs)] /\
    assoc VER m = Some (JStr ver) /\
    Forall2 (fun c cj => exists o, cj = JObj o /\ assoc NAME o = Some (JStr (fst c))) cols cs /\
    length rs = length rows /\ Forall (fun r => exists cells, r = JObj cells /\ map fst cells = map fst cols) rs.
Proof.
  intros Hne Hnd H.
  rewrite jdump_grid_unfold in H. destruct (pre3_of ver) as [p3|]; [|discriminate]. cbn [bind] in H.
  destruct (dump_items f p3 meta) as [mj|]; [|discriminate]. cbn [bind] in H. rewrite (match_ne cols _ _ Hne) in H.
  destruct (dump_cols f p3 cols) as [cs|] eqn:Ec; [|discriminate]. cbn [bind] in H.
  destruct (dump_rows f p3 cols rows) as [rs|] eqn:Er; [|discriminate]. cbn [bind] in H.
  apply JsonP_ok_inj in H. subst j. eexists _, cs, rs. split; [reflexivity|]. split; [apply assoc_dict_set|].
  split; [exact (dump_cols_names f p3 cols cs Ec)|]. exact (dump_rows_complete f p3 cols Hnd rows rs Er).
Qed.
