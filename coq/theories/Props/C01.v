(* C01 - ZINC round trip.  PARTIAL: proved for the text-carrying scalars (every code-point list, in the
   string and the URI alphabet) through the dumper's isinstance ladder and the reader's WHOLE scalar
   alternation, for either version and whatever follows the literal; for non-finite numbers; and for the
   document framing (final newline).  The remaining kinds and the row / grid structure are covered by the
   model-implementation tie and the search (harness/props/c01.py), and by concrete computed examples here. *)
From Coq Require Import String.
From Coq Require Import List NArith Bool.
From HS Require Import Base.Prelude Model.Value Model.Escape Model.Version Model.Json Model.ZincDump Model.ZincParse.
From HS Require Import Proofs.EscapeP Proofs.ZincParseP Proofs.ZincDumpP.
Import ListNotations.
Open Scope N_scope.

Theorem C01_str_partial : forall f g pre3 ver3 s t rest,
  zdump (S f) pre3 (VStr s) = Ok t -> p_scalar (S g) ver3 (t ++ rest) = Some (Ok (VStr s), rest).
Proof. exact str_scalar_roundtrip. Qed.
Theorem C01_uri_partial : forall f g pre3 ver3 s t rest,
  zdump (S f) pre3 (VUri s) = Ok t -> p_scalar (S g) ver3 (t ++ rest) = Some (Ok (VUri s), rest).
Proof. exact uri_scalar_roundtrip. Qed.
(* the letter scalars - null, marker, Remove, booleans, and NA under 3.0 - written by the dumper come back through
   the whole alternation whenever a delimiter (end of text, comma, line end, blank, ] } >) follows; for NA the
   longest match wins over N *)
Theorem C01_letter_scalars_partial : forall f g pre3 ver3 v t rest,
  In v [VNull; VMarker; VRemove; VBool true; VBool false] -> delim rest ->
  zdump (S f) pre3 v = Ok t -> p_scalar (S g) ver3 (t ++ rest) = Some (Ok v, rest).
Proof.
  intros f g pre3 ver3 v t rest Hin Hd. cbn [In] in Hin.
  destruct Hin as [E|[E|[E|[E|[E|[]]]]]]; subst v; cbn [zdump]; intro Q; inversion Q; subst t; cbn [List.app].
  - apply scalar_null; exact Hd.
  - apply scalar_marker; exact Hd.
  - apply scalar_remove; exact Hd.
  - apply scalar_true; exact Hd.
  - apply scalar_false; exact Hd.
Qed.
Theorem C01_na_partial : forall f g t rest, delim rest ->
  zdump (S f) false VNA = Ok t -> p_scalar (S g) true (t ++ rest) = Some (Ok VNA, rest).
Proof. intros f g t rest Hd. cbn [zdump]. intro Q; inversion Q; subst t. cbn [List.app]. apply scalar_na. exact Hd. Qed.

(* a reference without display name, followed by a delimiter other than a blank (a blank followed by a quoted string
   would be its display name) *)
Theorem C01_ref_partial : forall f g pre3 ver3 name t rest,
  Forall (fun c => is_zref_char c = true) name -> delim_ns rest ->
  zdump (S f) pre3 (VRef name None) = Ok t -> p_scalar (S g) ver3 (t ++ rest) = Some (Ok (VRef name None), rest).
Proof.
  intros f g pre3 ver3 name t rest Hn Hd. cbn [zdump]. intro Q; inversion Q; subst t. cbn [List.app].
  apply scalar_ref_plain; assumption.
Qed.

(* the writer never fails on text *)
Theorem C01_text_always_dumps : forall f pre3 s, (exists t, zdump (S f) pre3 (VStr s) = Ok t) /\ (exists t, zdump (S f) pre3 (VUri s) = Ok t).
Proof.
  intros f pre3 s. cbn [zdump]. unfold zdump_str, zdump_uri.
  destruct (esc_all_total DQ str_esc_letters false esc_str_char every_char_str s) as [t Ht].
  destruct (esc_all_total BQ uri_esc_letters true esc_uri_char every_char_uri s) as [u Hu].
  change (esc_all esc_str_char s) with (escape_str s) in Ht. change (esc_all esc_uri_char s) with (escape_uri s) in Hu.
  rewrite Ht, Hu. cbn [bind]. split; eexists; reflexivity.
Qed.

(* a whole grid, both versions, computed inside Coq (a test, not the unbounded claim) *)
Definition sample_rows : list (list (str * hval)) :=
  [[(s_ "a", VStr (s_ "x,""
y")); (s_ "b", VRef (s_ "r-1") (Some (s_ "dis $"))) ];
   [(s_ "a", VNull); (s_ "b", VList [VMarker; VBool true; VUri (s_ "h`t")])]].
Example C01_grid_example :
  match zdump_grid 8 (s_ "3.0") [(s_ "m", VMarker)] [(s_ "a", []); (s_ "b", [(s_ "dis", VStr (s_ "B"))])] sample_rows with
  | Ok t => zparse_doc t = Ok [VGrid (s_ "3.0") [(s_ "m", VMarker)] [(s_ "a", []); (s_ "b", [(s_ "dis", VStr (s_ "B"))])] sample_rows]
  | Raise _ => False
  end.
Proof. vm_compute. reflexivity. Qed.

Print Assumptions C01_ref_partial.
Print Assumptions C01_letter_scalars_partial.
Print Assumptions C01_na_partial.
Print Assumptions C01_str_partial.
Print Assumptions C01_uri_partial.
Print Assumptions C01_text_always_dumps.
