(* Model of Python's operator dispatch applied to hszinc's Quantity (class
   Qty), driven by the method table regenerated from the source
   (Gen/QtyData.v).  The result of an operation is the *expression over plain
   numbers* that ends up being evaluated - free syntax, so that any
   interpretation of the plain operators (CPython's numeric tower, exceptions
   included) gives the Quantity exactly the behaviour of that expression. *)
From Coq Require Import String.
From HS Require Import Base.Prelude Model.QtyOps Gen.QtyData.
Open Scope N_scope.
Open Scope string_scope.

(* expressions over plain numbers; NV n is the n-th plain number in play *)
Inductive nexpr :=
| NV (n : N)
| NBin (op : binop) (a b : nexpr)
| NPow3 (a b m : nexpr)
| NUn (op : unop) (a : nexpr)
| NCmp (op : cmpop) (a b : nexpr)
| NNone                                   (* the argument None (modulo of 2-argument pow) *)
| NHash (a : nexpr) (u : option str).     (* hash((value, unit)) *)

(* operands: a plain number, or a Quantity (value, unit) *)
Inductive operand := PNum (x : nexpr) | PQ (v : nexpr) (u : option str).

Definition dunder (op : binop) : str :=
  match op with
  | Add => s_ "__add__" | Sub => s_ "__sub__" | Mul => s_ "__mul__" | TrueDiv => s_ "__truediv__"
  | FloorDiv => s_ "__floordiv__" | Mod => s_ "__mod__" | DivMod => s_ "__divmod__" | Pow => s_ "__pow__"
  | LShift => s_ "__lshift__" | RShift => s_ "__rshift__" | BAnd => s_ "__and__" | BXor => s_ "__xor__"
  | BOr => s_ "__or__"
  end.
Definition rdunder (op : binop) : str :=
  match op with
  | Add => s_ "__radd__" | Sub => s_ "__rsub__" | Mul => s_ "__rmul__" | TrueDiv => s_ "__rtruediv__"
  | FloorDiv => s_ "__rfloordiv__" | Mod => s_ "__rmod__" | DivMod => s_ "__rdivmod__" | Pow => s_ "__rpow__"
  | LShift => s_ "__rlshift__" | RShift => s_ "__rrshift__" | BAnd => s_ "__rand__" | BXor => s_ "__rxor__"
  | BOr => s_ "__ror__"
  end.
Definition cmp_dunder (op : cmpop) : str :=
  match op with
  | Lt => s_ "__lt__" | Le => s_ "__le__" | Eq => s_ "__eq__" | Ne => s_ "__ne__"
  | Ge => s_ "__ge__" | Gt => s_ "__gt__"
  end.
Definition un_dunder (op : unop) : str :=
  match op with
  | Neg => s_ "__neg__" | Pos => s_ "__pos__" | Abs => s_ "__abs__" | Invert => s_ "__invert__"
  | ToInt => s_ "__int__" | ToFloat => s_ "__float__" | ToComplex => s_ "__complex__"
  | Index => s_ "__index__" | Oct => s_ "__oct__" | Hex => s_ "__hex__"
  end.
(* the reflected comparison: a < b  falls back on  b > a *)
Definition swap_cmp (op : cmpop) : cmpop :=
  match op with Lt => Gt | Le => Ge | Eq => Eq | Ne => Ne | Ge => Le | Gt => Lt end.

Fixpoint find_method (name : str) (t : list (str * qshape)) : option qshape :=
  match t with
  | [] => None
  | (n, sh) :: t' => if str_eqb n name then Some sh else find_method name t'
  end.

Section Dispatch.
  Variable table : list (str * qshape).

  (* `a OP b` for plain numbers a, b: the plain operation *)
  (* `a OP b` in general, CPython's binary_op1: try type(a).__op__, and if it
     is missing or returns NotImplemented and the types differ, type(b).__rop__.
     The builtin numeric types return NotImplemented for a Quantity operand. *)
  Definition py_binop (op : binop) (a b : operand) : res nexpr :=
    let operand_expr (unwrap : bool) (o : operand) (k : nexpr -> res nexpr) : res nexpr :=
      match o with
      | PNum x => k x
      | PQ w _ => if unwrap then k w else Raise RecursionError   (* never the case for this table *)
      end in
    match a, b with
    | PNum x, PNum y => Ok (NBin op x y)
    | PQ v _, _ =>
        match find_method (dunder op) table with
        | Some (QBin op' unwrap) => operand_expr unwrap b (fun y => Ok (NBin op' v y))
        | Some (QPow3 unwrap) => operand_expr unwrap b (fun y => Ok (NPow3 v y NNone))
        | Some (QRBin op' unwrap) => operand_expr unwrap b (fun y => Ok (NBin op' y v))
        | Some _ => Raise TypeError
        | None =>
            (* no forward method: same type => TypeError, a number on the right has no
               reflected method that accepts a Quantity *)
            Raise TypeError
        end
    | PNum x, PQ w _ =>
        match find_method (rdunder op) table with
        | Some (QRBin op' unwrap) => Ok (NBin op' x w)
        | Some (QBin op' unwrap) => Ok (NBin op' w x)
        | Some _ => Raise TypeError
        | None => Raise TypeError
        end
    end.

  (* pow(a, b, m) with a Quantity base *)
  Definition py_pow3 (a : operand) (b m : nexpr) : res nexpr :=
    match a with
    | PNum x => Ok (NPow3 x b m)
    | PQ v _ => match find_method (dunder Pow) table with
                | Some (QPow3 _) => Ok (NPow3 v b m)
                | _ => Raise TypeError
                end
    end.

  Definition py_unop (op : unop) (a : operand) : res nexpr :=
    match a with
    | PNum x => Ok (NUn op x)
    | PQ v _ => match find_method (un_dunder op) table with
                | Some (QUn op') => Ok (NUn op' v)
                | _ => Raise TypeError
                end
    end.

  (* Qty._cmp_op *)
  Definition cmp_op_body (op : cmpop) (v : nexpr) (u : option str) (other : operand) : res nexpr :=
    match other with
    | PQ w u' => if opt_str_eqb u' u then Ok (NCmp op v w) else Raise TypeError
    | PNum y => Ok (NCmp op v y)
    end.

  (* rich comparison: a OP b, falling back on the reflected b OP' a when a is a builtin number *)
  Definition py_cmp (op : cmpop) (a b : operand) : res nexpr :=
    match a, b with
    | PNum x, PNum y => Ok (NCmp op x y)
    | PQ v u, _ =>
        match find_method (cmp_dunder op) table with
        | Some (QCmp op') => cmp_op_body op' v u b
        | _ => Raise TypeError
        end
    | PNum x, PQ w u =>
        match find_method (cmp_dunder (swap_cmp op)) table with
        | Some (QCmp op') => cmp_op_body op' w u a
        | _ => Raise TypeError
        end
    end.

  Definition py_hash (a : operand) : res nexpr :=
    match a with
    | PNum x => Ok (NHash x None)
    | PQ v u => match find_method (s_ "__hash__") table with
                | Some QHash => Ok (NHash v u)
                | _ => Raise TypeError
                end
    end.
End Dispatch.


(* ---- wire ---- *)

Definition all_binops := [Add; Sub; Mul; TrueDiv; FloorDiv; Mod; DivMod; Pow; LShift; RShift; BAnd; BXor; BOr].
Definition all_unops := [Neg; Pos; Abs; Invert; ToInt; ToFloat; ToComplex; Index].
Definition all_cmpops := [Lt; Le; Eq; Ne; Ge; Gt].

Definition binop_name (op : binop) : string :=
  match op with
  | Add => "add" | Sub => "sub" | Mul => "mul" | TrueDiv => "truediv" | FloorDiv => "floordiv" | Mod => "mod"
  | DivMod => "divmod" | Pow => "pow" | LShift => "lshift" | RShift => "rshift" | BAnd => "and" | BXor => "xor" | BOr => "or"
  end.
Definition unop_name (op : unop) : string :=
  match op with
  | Neg => "neg" | Pos => "pos" | Abs => "abs" | Invert => "invert" | ToInt => "int" | ToFloat => "float"
  | ToComplex => "complex" | Index => "index" | Oct => "oct" | Hex => "hex"
  end.
Definition cmpop_name (op : cmpop) : string :=
  match op with Lt => "lt" | Le => "le" | Eq => "eq" | Ne => "ne" | Ge => "ge" | Gt => "gt" end.

Fixpoint snexpr (e : nexpr) : sexp :=
  match e with
  | NV n => SList [sym "v"; sN n]
  | NBin op a b => SList [sym "bin"; sym (binop_name op); snexpr a; snexpr b]
  | NPow3 a b m => SList [sym "pow3"; snexpr a; snexpr b; snexpr m]
  | NUn op a => SList [sym "un"; sym (unop_name op); snexpr a]
  | NCmp op a b => SList [sym "cmp"; sym (cmpop_name op); snexpr a; snexpr b]
  | NNone => sym "none"
  | NHash a u => SList [sym "hash"; snexpr a; sopt SStr u]
  end.

(* (qty-table u1 u2): for the operand shapes
     0: Q(v0,u1) . x1      1: x1 . Q(v0,u1)      2: Q(v0,u1) . Q(v1,u2)
   every binary operator, comparison, unary operator; plus pow3 and hash *)
Definition dec_unit (e : sexp) : option str :=
  match e with SList [SStr t] => Some t | _ => None end.

Definition cmd_qty_table (args : list sexp) : sexp :=
  match args with
  | [e1; e2] =>
      let u1 := dec_unit e1 in let u2 := dec_unit e2 in
      let shapes := [(PQ (NV 0) u1, PNum (NV 1)); (PNum (NV 1), PQ (NV 0) u1); (PQ (NV 0) u1, PQ (NV 1) u2)] in
      SList [
        SList (map (fun sh => SList (map (fun op =>
                 SList [sym (binop_name op); sres snexpr (py_binop qty_methods op (fst sh) (snd sh))]) all_binops)) shapes);
        SList (map (fun sh => SList (map (fun op =>
                 SList [sym (cmpop_name op); sres snexpr (py_cmp qty_methods op (fst sh) (snd sh))]) all_cmpops)) shapes);
        SList (map (fun op => SList [sym (unop_name op); sres snexpr (py_unop qty_methods op (PQ (NV 0) u1))]) all_unops);
        sres snexpr (py_pow3 qty_methods (PQ (NV 0) u1) (NV 1) (NV 2));
        sres snexpr (py_hash qty_methods (PQ (NV 0) u1))
      ]
  | _ => bad_request
  end.
