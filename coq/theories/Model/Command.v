(* Dispatcher of the extracted model: one S-expression in, one out. *)
From Coq Require Import String.
From HS Require Import Base.Prelude Model.Version Model.SortableDict Model.Grid Model.Qty Model.Eq Model.Escape Model.Value Model.Json Model.ZincDump Model.ZincParse Model.Gate Model.TZ Model.Filter Model.FilterCache.

Definition run_command (c : sexp) : sexp :=
  match c with
  | SList (SStr name :: args) =>
      if str_eqb name (s_ "ver-parse") then
        match args with [SStr t] => cmd_ver_parse t | _ => bad_request end
      else if str_eqb name (s_ "ver-info") then
        match args with [SStr t] => cmd_ver_info t | _ => bad_request end
      else if str_eqb name (s_ "ver-cmp") then
        match args with [SStr a; SStr b] => cmd_ver_cmp a b | _ => bad_request end
      else if str_eqb name (s_ "ver-matrix") then
        cmd_ver_matrix (flat_map (fun a => match a with SStr t => [t] | _ => [] end) args)
      else if str_eqb name (s_ "sd-run") then cmd_sd_run args
      else if str_eqb name (s_ "grid-run") then cmd_grid_run args
      else if str_eqb name (s_ "qty-table") then cmd_qty_table args
      else if str_eqb name (s_ "esc") then cmd_esc args
      else if str_eqb name (s_ "zdump") then cmd_zdump args
      else if str_eqb name (s_ "zparse") then cmd_zparse args
      else if str_eqb name (s_ "jdump") then cmd_jdump args
      else if str_eqb name (s_ "jparse") then cmd_jparse args
      else if str_eqb name (s_ "read-str") then cmd_read_quoted false args
      else if str_eqb name (s_ "read-uri") then cmd_read_quoted true args
      else if str_eqb name (s_ "eq-pairs") then cmd_eq_pairs args
      else if str_eqb name (s_ "eq-hash") then cmd_eq_hash args
      else if str_eqb name (s_ "grid-eq") then cmd_grid_eq args
      else if str_eqb name (s_ "gate-run") then cmd_gate_run args
      else if str_eqb name (s_ "gate-kinds") then cmd_gate_kinds args
      else if str_eqb name (s_ "tz-map") then cmd_tz_map args
      else if str_eqb name (s_ "tz-name") then cmd_tz_name args
      else if str_eqb name (s_ "fparse") then cmd_fparse args
      else if str_eqb name (s_ "frun") then cmd_frun args
      else if str_eqb name (s_ "cache-run") then cmd_cache_run args
      else bad_request
  | _ => bad_request
  end.
