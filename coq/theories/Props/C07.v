(* C07 - anything parsed can be re-dumped, transcoded and re-parsed unchanged.
   PARTIAL: proved for text (every code-point list as Str and as Uri): each format's writer followed by
   its reader is the identity, hence every chain of transcodings ZINC -> JSON -> ZINC ... returns the
   value it started from and re-dumping reproduces the same text (idempotent normalisation).
   Purity needs no theorem in a functional model: zdump / jdump are functions of the value, so two dumps
   of one value are identical and nothing is modified - that part is checked on the implementation
   (deep snapshot before / after, two dumps compared) by harness/props/c07.py, as are the other kinds. *)
From Coq Require Import String.
From Coq Require Import List NArith Bool.
From HS Require Import Base.Prelude Model.Value Model.Escape Model.Version Model.Json Model.ZincDump Model.ZincParse.
From HS Require Import Proofs.EscapeP Proofs.JsonP Proofs.ZincParseP Proofs.ZincDumpP.
Import ListNotations.
Open Scope N_scope.

Definition is_text (v : hval) : Prop := exists s, v = VStr s \/ v = VUri s.

(* ZINC: reader after writer is the identity on text, through the whole scalar alternation *)
Theorem C07_zinc_leg : forall v, is_text v -> forall f g pre3 ver3 t rest,
  zdump (S f) pre3 v = Ok t -> p_scalar (S g) ver3 (t ++ rest) = Some (Ok v, rest).
Proof.
  intros v [s [H|H]] f g pre3 ver3 t rest; subst v.
  - apply str_scalar_roundtrip.
  - apply uri_scalar_roundtrip.
Qed.
(* JSON: reader after writer is the identity on text *)
Theorem C07_json_leg : forall v, is_text v -> forall pre3 j,
  jdump_scalar pre3 v = Ok (JStr j) -> jparse_str pre3 j = Ok v.
Proof.
  intros v [s [H|H]] pre3 j; subst v; cbn; intro Q; inversion Q; subst j.
  - apply rt_str.
  - apply rt_uri.
Qed.
(* both writers accept every text, so every chain of transcodings is defined *)
Theorem C07_text_always_dumps : forall v, is_text v -> forall f pre3,
  (exists t, zdump (S f) pre3 v = Ok t) /\ (exists j, jdump_scalar pre3 v = Ok (JStr j)).
Proof.
  intros v [s [H|H]] f pre3; subst v; cbn [zdump]; unfold zdump_str, zdump_uri.
  - destruct (esc_all_total DQ str_esc_letters false esc_str_char every_char_str s) as [t Ht].
    change (esc_all esc_str_char s) with (escape_str s) in Ht. rewrite Ht. cbn [bind]. split; eexists; reflexivity.
  - destruct (esc_all_total BQ uri_esc_letters true esc_uri_char every_char_uri s) as [t Ht].
    change (esc_all esc_uri_char s) with (escape_uri s) in Ht. rewrite Ht. cbn [bind]. split; eexists; reflexivity.
Qed.
(* idempotent normalisation: dump (parse (dump v)) is character for character dump v *)
Theorem C07_zinc_normalisation_idempotent : forall v, is_text v -> forall f g pre3 ver3 t v',
  zdump (S f) pre3 v = Ok t -> p_scalar (S g) ver3 t = Some (Ok v', []) -> zdump (S f) pre3 v' = Ok t.
Proof.
  intros v Hv f g pre3 ver3 t v' Hd Hp.
  pose proof (C07_zinc_leg v Hv f g pre3 ver3 t [] Hd) as H. rewrite app_nil_r in H. rewrite H in Hp.
  inversion Hp; subst v'. exact Hd.
Qed.
Theorem C07_json_normalisation_idempotent : forall v, is_text v -> forall pre3 j v',
  jdump_scalar pre3 v = Ok (JStr j) -> jparse_str pre3 j = Ok v' -> jdump_scalar pre3 v' = Ok (JStr j).
Proof.
  intros v Hv pre3 j v' Hd Hp. rewrite (C07_json_leg v Hv pre3 j Hd) in Hp. inversion Hp; subst v'. exact Hd.
Qed.

(* JSON leg for whole trees: lists and dicts (distinct keys, not grid-like) to any depth over strings, URIs, Bins,
   markers, nulls, booleans, NA, Remove - reader after writer is the identity, hence re-dumping what was read
   reproduces the text *)
Theorem C07_json_leg_nested : forall n v fuel j, plain n v -> jdump fuel false v = Ok j -> jparse fuel false j = Ok v.
Proof. intros n v fuel j. exact (plain_roundtrip n v fuel j). Qed.
Theorem C07_json_normalisation_idempotent_nested : forall n v fuel j v',
  plain n v -> jdump fuel false v = Ok j -> jparse fuel false j = Ok v' -> jdump fuel false v' = Ok j.
Proof.
  intros n v fuel j v' Hp Hd Hr. rewrite (plain_roundtrip n v fuel j Hp Hd) in Hr. inversion Hr; subst v'. exact Hd.
Qed.

Print Assumptions C07_json_leg_nested.
Print Assumptions C07_json_normalisation_idempotent_nested.
Print Assumptions C07_zinc_leg.
Print Assumptions C07_json_leg.
Print Assumptions C07_text_always_dumps.
Print Assumptions C07_zinc_normalisation_idempotent.
Print Assumptions C07_json_normalisation_idempotent.
