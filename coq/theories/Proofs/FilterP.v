(* Proofs about Model/Filter.v: the generated code computes the denotation; the row loop is filter + firstn. *)
From Coq Require Import List NArith ZArith Bool Lia.
From HS Require Import Base.Prelude Model.Value Model.Filter.
Import ListNotations.
Open Scope N_scope.

Section Correct.
  Variable cmp : cmpop -> fval -> hval -> bool.
  Variable rows : list frow.
  Variable row : frow.

  (* compiler correctness: the expression generated for e, evaluated with the literal tuple the generator
     built (extended by anything), is the boolean e denotes - for every filter, every row, every grid and
     every comparison oracle *)
  Lemma fgen_correct : forall e consts x c',
    fgen e consts = (x, c') ->
    (exists ext, c' = consts ++ ext)%list /\
    forall tail, eval cmp rows row (c' ++ tail)%list x = PVBool (denote cmp rows row e).
  Proof.
    induction e as [p|p|op p v|a IHa b IHb|a IHa b IHb]; intros consts x c'; cbn [fgen].
    - intro Q; inversion Q; subst. split; [exists []; rewrite app_nil_r; reflexivity|]. intro tail. cbn [eval denote].
      destruct (get_path rows (ORow row) p); reflexivity.
    - intro Q; inversion Q; subst. split; [exists []; rewrite app_nil_r; reflexivity|]. intro tail. cbn [eval denote].
      destruct (get_path rows (ORow row) p); reflexivity.
    - intro Q; inversion Q; subst. split; [exists [v]; reflexivity|]. intro tail. cbn [eval denote].
      rewrite <- app_assoc. rewrite nth_error_app2 by lia. rewrite Nat.sub_diag. cbn [List.app nth_error].
      destruct (get_path rows (ORow row) p); reflexivity.
    - destruct (fgen a consts) as [xa c1] eqn:Ea. destruct (fgen b c1) as [xb c2] eqn:Eb.
      intro Q; inversion Q; subst. destruct (IHa _ _ _ Ea) as [[e1 H1] Ha]. destruct (IHb _ _ _ Eb) as [[e2 H2] Hb].
      split; [exists (e1 ++ e2)%list; rewrite H2, H1, app_assoc; reflexivity|]. intro tail. cbn [eval denote].
      rewrite H2. rewrite <- app_assoc. rewrite Ha. rewrite app_assoc, <- H2. rewrite Hb.
      cbn [truthy]. destruct (denote cmp rows row a); reflexivity.
    - destruct (fgen a consts) as [xa c1] eqn:Ea. destruct (fgen b c1) as [xb c2] eqn:Eb.
      intro Q; inversion Q; subst. destruct (IHa _ _ _ Ea) as [[e1 H1] Ha]. destruct (IHb _ _ _ Eb) as [[e2 H2] Hb].
      split; [exists (e1 ++ e2)%list; rewrite H2, H1, app_assoc; reflexivity|]. intro tail. cbn [eval denote].
      rewrite H2. rewrite <- app_assoc. rewrite Ha. rewrite app_assoc, <- H2. rewrite Hb.
      cbn [truthy]. destruct (denote cmp rows row a); reflexivity.
  Qed.

  Theorem compile_correct e : let '(x, consts) := fgen e [] in
    truthy (eval cmp rows row consts x) = denote cmp rows row e.
  Proof.
    destruct (fgen e []) as [x consts] eqn:E. destruct (fgen_correct e [] x consts E) as [_ H].
    specialize (H []). rewrite app_nil_r in H. rewrite H. reflexivity.
  Qed.
End Correct.

(* the row loop with its early exit: the matching rows, in order, at most `limit` of them *)
Lemma filter_loop_spec {A} (f : A -> bool) (limit : nat) : forall rows taken,
  (limit = 0 \/ taken < limit)%nat ->
  filter_loop f limit taken rows = if Nat.eqb limit 0 then filter f rows else firstn (limit - taken) (filter f rows).
Proof.
  induction rows as [|r rows IH]; intros taken H; cbn [filter_loop filter].
  - destruct (Nat.eqb limit 0); [reflexivity|]. rewrite firstn_nil. reflexivity.
  - destruct (f r) eqn:Ef.
    + destruct (Nat.eqb_spec limit 0) as [E0|E0]; cbn [negb andb].
      * rewrite IH by (left; exact E0). subst. reflexivity.
      * destruct (Nat.eqb_spec (S taken) limit) as [E1|E1].
        -- subst limit. replace (S taken - taken)%nat with 1%nat by lia. cbn [firstn List.app]. reflexivity.
        -- rewrite IH by (right; lia). destruct (Nat.eqb_spec limit 0); [contradiction|].
           replace (limit - taken)%nat with (S (limit - S taken)) by lia. cbn [firstn List.app]. reflexivity.
    + destruct (Nat.eqb_spec limit 0) as [E0|E0]; cbn [negb andb List.app].
      * apply IH. left; exact E0.
      * destruct (Nat.eqb_spec taken limit) as [E1|E1]; [lia|]. apply IH. right. lia.
Qed.

Theorem run_filter_spec {A} (f : A -> bool) (limit : Z) (rows : list A) :
  run_filter (Some f) limit rows = if (limit <=? 0)%Z then filter f rows else firstn (Z.to_nat limit) (filter f rows).
Proof.
  unfold run_filter. rewrite filter_loop_spec.
  - destruct (Z.leb_spec limit 0) as [H|H].
    + replace (Z.to_nat limit) with 0%nat by lia. reflexivity.
    + destruct (Nat.eqb_spec (Z.to_nat limit) 0); [lia|]. rewrite Nat.sub_0_r. reflexivity.
  - destruct (Z.to_nat limit); [left; reflexivity|right; lia].
Qed.

(* ---- _get_path: a null cell, an absent tag and a dangling reference are all "not found" ---- *)
Lemma get_path_absent rows row t p : assoc t row = None -> get_path rows (ORow row) (t :: p) = None.
Proof. intro H. cbn [get_path]. rewrite H. reflexivity. Qed.
Lemma get_path_null rows row t : assoc t row = Some FNull -> get_path rows (ORow row) [t] = None.
Proof. intro H. cbn [get_path]. rewrite H. reflexivity. Qed.
Lemma get_path_dangling rows row t n sf i t' p :
  assoc t row = Some (FRef n sf i) -> follow_ref rows n = None -> get_path rows (ORow row) (t :: t' :: p) = None.
Proof. intros H F. cbn [get_path]. rewrite H, F. reflexivity. Qed.
Lemma get_path_deref rows row t n sf i t' p r :
  assoc t row = Some (FRef n sf i) -> follow_ref rows n = Some r ->
  get_path rows (ORow row) (t :: t' :: p) = get_path rows (ORow r) (t' :: p).
Proof. intros H F. cbn [get_path]. rewrite H, F. reflexivity. Qed.
Lemma get_path_through_scalar rows row t v t' p :
  assoc t row = Some v -> (forall n sf i, v <> FRef n sf i) -> (forall d i, v <> FDict d i) ->
  get_path rows (ORow row) (t :: t' :: p) = None.
Proof.
  intros H Hr Hd. cbn [get_path]. rewrite H. destruct v as [|s i|n sf i|d i|i]; try reflexivity.
  - exfalso. exact (Hr n sf i eq_refl).
  - exfalso. exact (Hd d i eq_refl).
Qed.

(* ================================================================== C12: literals are data, never code *)
(* the shape of a filter: everything but the literal values *)
Fixpoint same_shape (a b : fexpr) : Prop :=
  match a, b with
  | FHas p, FHas q => p = q
  | FMissing p, FMissing q => p = q
  | FCmp o p _, FCmp o' q _ => o = o' /\ p = q
  | FAnd a1 a2, FAnd b1 b2 => same_shape a1 b1 /\ same_shape a2 b2
  | FOr a1 a2, FOr b1 b2 => same_shape a1 b1 /\ same_shape a2 b2
  | _, _ => False
  end.

(* the generated expression does not depend on the literal values at all *)
Lemma fgen_shape : forall a b ca cb, same_shape a b -> length ca = length cb ->
  fst (fgen a ca) = fst (fgen b cb) /\ length (snd (fgen a ca)) = length (snd (fgen b cb)).
Proof.
  induction a as [p|p|op p v|a1 IH1 a2 IH2|a1 IH1 a2 IH2]; intros b ca cb; destruct b as [q|q|op' q w|b1 b2|b1 b2];
    cbn [same_shape]; try tauto; intros H L; cbn [fgen].
  - subst. split; [reflexivity|exact L].
  - subst. split; [reflexivity|exact L].
  - destruct H; subst. cbn [fst snd]. rewrite !app_length, L. split; reflexivity.
  - destruct H as [H1 H2]. destruct (IH1 b1 ca cb H1 L) as [E1 L1].
    destruct (fgen a1 ca) as [x1 c1]. destruct (fgen b1 cb) as [y1 d1]. cbn [fst snd] in *.
    destruct (IH2 b2 c1 d1 H2 L1) as [E2 L2].
    destruct (fgen a2 c1) as [x2 c2]. destruct (fgen b2 d1) as [y2 d2]. cbn [fst snd] in *. subst. split; [reflexivity|exact L2].
  - destruct H as [H1 H2]. destruct (IH1 b1 ca cb H1 L) as [E1 L1].
    destruct (fgen a1 ca) as [x1 c1]. destruct (fgen b1 cb) as [y1 d1]. cbn [fst snd] in *.
    destruct (IH2 b2 c1 d1 H2 L1) as [E2 L2].
    destruct (fgen a2 c1) as [x2 c2]. destruct (fgen b2 d1) as [y2 d2]. cbn [fst snd] in *. subst. split; [reflexivity|exact L2].
Qed.

Theorem source_independent_of_literals a b : same_shape a b -> render (fst (fgen a [])) = render (fst (fgen b [])).
Proof. intro H. destruct (fgen_shape a b [] [] H eq_refl) as [E _]. rewrite E. reflexivity. Qed.

(* ---- the only text of the filter that reaches the source: tag names, and they are identifiers ---- *)
Definition name_ok (n : str) : Prop := Forall (fun c => is_id_rest c = true) n.
Fixpoint names_ok (e : fexpr) : Prop :=
  match e with
  | FHas p | FMissing p | FCmp _ p _ => Forall name_ok p
  | FAnd a b | FOr a b => names_ok a /\ names_ok b
  end.

Lemma run_all f : forall fuel i a j, run f i fuel = (a, j) -> Forall (fun c => f c = true) a.
Proof.
  induction fuel as [|n IH]; intros i a j; cbn [run].
  - intro Q; inversion Q; constructor.
  - destruct (rest i) as [|c r]; [intro Q; inversion Q; constructor|].
    destruct (f c) eqn:Ef; [|intro Q; inversion Q; constructor].
    destruct (run f (mkInp c r) n) as [a' j'] eqn:E. intro Q; inversion Q; subst. constructor; [exact Ef|eapply IH; eauto].
Qed.
Lemma is_lower_id c : is_lower c = true -> is_id_rest c = true.
Proof. intro H. unfold is_id_rest, is_alpha. rewrite H. rewrite orb_true_r. reflexivity. Qed.
Lemma p_name_ok i n j : p_name i = Some (n, j) -> name_ok n.
Proof.
  unfold p_name. destruct (rest (ws i)) as [|c r]; [discriminate|]. destruct (is_lower c) eqn:El; [|discriminate].
  unfold span_of. destruct (run is_id_rest (mkInp c r) _) as [a k] eqn:E. intro Q; inversion Q; subst.
  constructor; [apply is_lower_id; exact El|eapply run_all; eauto].
Qed.
Lemma p_path_rest_ok : forall fuel i l j, p_path_rest fuel i = (l, j) -> Forall name_ok l.
Proof.
  induction fuel as [|f IH]; intros i l j; cbn [p_path_rest]; [intro Q; inversion Q; constructor|].
  destruct (lit [45; 62] i) as [[u k]|]; [|intro Q; inversion Q; constructor].
  destruct (p_name k) as [[n k']|] eqn:En; [|intro Q; inversion Q; constructor].
  destruct (p_path_rest f k') as [l' e] eqn:E. intro Q; inversion Q; subst.
  constructor; [eapply p_name_ok; eauto|eapply IH; eauto].
Qed.
Lemma p_path_ok i p j : p_path i = Some (p, j) -> Forall name_ok p.
Proof.
  unfold p_path. destruct (p_name i) as [[n k]|] eqn:En; [|discriminate].
  destruct (p_path_rest _ k) as [l e] eqn:E. intro Q; inversion Q; subst.
  constructor; [eapply p_name_ok; eauto|eapply p_path_rest_ok; eauto].
Qed.

Lemma fold_more_ok k mk operand :
  (forall a b, names_ok a -> names_ok b -> names_ok (mk a b)) ->
  (forall i e j, operand i = Some (e, j) -> names_ok e) ->
  forall fuel acc i e j, names_ok acc -> fold_more fuel k mk operand acc i = (e, j) -> names_ok e.
Proof.
  intros Hmk Hop. induction fuel as [|f IH]; intros acc i e j Hacc; cbn [fold_more]; [intro Q; inversion Q; subst; exact Hacc|].
  destruct (keyword k i) as [[u i1]|]; [|intro Q; inversion Q; subst; exact Hacc].
  destruct (operand i1) as [[e1 i2]|] eqn:Eo; [|intro Q; inversion Q; subst; exact Hacc].
  apply IH. apply Hmk; [exact Hacc|eapply Hop; eauto].
Qed.

Lemma first_some {A} (a b : option A) x : match a with Some r => Some r | None => b end = Some x -> a = Some x \/ b = Some x.
Proof. destruct a; intro H; [left|right]; exact H. Qed.

Section Inner.
  Variable inner : fparser fexpr.
  Hypothesis Hinner : forall i e j, inner i = Some (e, j) -> names_ok e.
  Lemma p_term_with_ok i0 e0 j0 : p_term_with inner i0 = Some (e0, j0) -> names_ok e0.
  Proof.
    unfold p_term_with. intro Q.
    apply first_some in Q. destruct Q as [Q|Q].
    { destruct (lit [40] i0) as [[u a]|]; [|discriminate]. destruct (inner a) as [[e1 k]|] eqn:Ef; [|discriminate].
      destruct (lit [41] k) as [[u2 l]|]; [|discriminate]. inversion Q; subst. eapply Hinner; eauto. }
    apply first_some in Q. destruct Q as [Q|Q].
    { destruct (keyword KW_NOT i0) as [[u a]|]; [|discriminate]. destruct (p_path a) as [[p k]|] eqn:Ep; [|discriminate].
      inversion Q; subst. cbn [names_ok]. eapply p_path_ok; eauto. }
    apply first_some in Q. destruct Q as [Q|Q].
    { destruct (p_path i0) as [[p k]|] eqn:Ep; [|discriminate]. destruct (p_cmpop k) as [[op k2]|]; [|discriminate].
      destruct (p_val k2) as [[v l]|]; [|discriminate]. inversion Q; subst. cbn [names_ok]. eapply p_path_ok; eauto. }
    destruct (p_path i0) as [[p k]|] eqn:Ep; [|discriminate]. inversion Q; subst. cbn [names_ok]. eapply p_path_ok; eauto.
  Qed.
  Lemma p_and_with_ok i0 e0 j0 : p_and_with inner i0 = Some (e0, j0) -> names_ok e0.
  Proof.
    unfold p_and_with. destruct (p_term_with inner i0) as [[e1 j1]|] eqn:Et; [|discriminate].
    destruct (fold_more _ KW_AND FAnd (p_term_with inner) e1 j1) as [e2 j2] eqn:Ef. intro Q; inversion Q; subst.
    eapply (fold_more_ok KW_AND FAnd (p_term_with inner)); [intros; split; assumption|exact p_term_with_ok| |exact Ef].
    eapply p_term_with_ok; eauto.
  Qed.
  Lemma p_or_with_ok i0 e0 j0 : p_or_with inner i0 = Some (e0, j0) -> names_ok e0.
  Proof.
    unfold p_or_with. destruct (p_and_with inner i0) as [[e1 j1]|] eqn:Et; [|discriminate].
    destruct (fold_more _ KW_OR FOr (p_and_with inner) e1 j1) as [e2 j2] eqn:Ef. intro Q; inversion Q; subst.
    eapply (fold_more_ok KW_OR FOr (p_and_with inner)); [intros; split; assumption|exact p_and_with_ok| |exact Ef].
    eapply p_and_with_ok; eauto.
  Qed.
End Inner.

Lemma p_filter_ok : forall fuel i e j, p_filter fuel i = Some (e, j) -> names_ok e.
Proof.
  induction fuel as [|f IH]; intros i e j; cbn [p_filter]; [discriminate|].
  apply p_or_with_ok. intros i0 e0 j0. apply IH.
Qed.

Theorem fparse_names_ok t e : fparse t = Some e -> names_ok e.
Proof.
  unfold fparse. destruct (p_filter _ _) as [[e0 j]|] eqn:E; [|discriminate].
  destruct (rest (ws j)); [|discriminate]. intro Q; inversion Q; subst. eapply p_filter_ok; eauto.
Qed.

(* ---- the alphabet of the generated source ---- *)
Definition safe (c : N) : bool := is_id_rest c || memN c [39; 91; 93; 40; 41; 44; 32; 33; 61; 60; 62].
Definition all_safe (t : str) : Prop := Forall (fun c => safe c = true) t.
Lemma const_safe s : forallb safe s = true -> all_safe s.
Proof. intro H. apply Forall_forall. intros c Hc. rewrite forallb_forall in H. exact (H c Hc). Qed.
Lemma all_safe_app a b : all_safe a -> all_safe b -> all_safe (a ++ b)%list.
Proof. intros. apply Forall_app. split; assumption. Qed.
Lemma all_safe_cons c t : safe c = true -> all_safe t -> all_safe (c :: t).
Proof. intros. constructor; assumption. Qed.
Lemma name_safe n : name_ok n -> all_safe n.
Proof. intro H. eapply Forall_impl; [|exact H]. intros c Hc. unfold safe. rewrite Hc. reflexivity. Qed.
Lemma join_safe sep l : all_safe sep -> Forall all_safe l -> all_safe (join sep l).
Proof.
  intros Hs. induction 1 as [|x l Hx Hl IH]; cbn [join]; [constructor|].
  destruct l as [|y l']; [exact Hx|]. apply all_safe_app; [exact Hx|]. apply all_safe_app; [exact Hs|exact IH].
Qed.
Lemma digits_fuel_safe : forall fuel n acc, all_safe acc -> all_safe (digits_fuel fuel n acc).
Proof.
  assert (D : forall k, k < 10 -> safe (48 + k) = true).
  { intros k Hk. unfold safe, is_id_rest, is_dig. replace ((48 <=? 48 + k) && (48 + k <=? 57)) with true; [rewrite orb_true_r; reflexivity|].
    symmetry. apply andb_true_iff. split; apply N.leb_le; lia. }
  induction fuel as [|f IH]; intros n acc Ha; cbn [digits_fuel].
  - destruct (N.ltb_spec n 10); constructor; try exact Ha; apply D; [assumption|apply N.mod_lt; lia].
  - destruct (N.ltb_spec n 10); [constructor; [apply D; assumption|exact Ha]|].
    apply IH. constructor; [apply D; apply N.mod_lt; lia|exact Ha].
Qed.
Lemma str_of_N_safe n : all_safe (str_of_N n).
Proof. unfold str_of_N. apply digits_fuel_safe. constructor. Qed.

Fixpoint pnames_ok (x : pyexpr) : Prop :=
  match x with
  | PGetPath p => Forall name_ok p
  | PConst _ => True
  | PCompare _ l r => pnames_ok l /\ pnames_ok r
  | PAnd a b | POr a b => pnames_ok a /\ pnames_ok b
  | PIdNe a | PIdEq a => pnames_ok a
  end.
Lemma fgen_names : forall e c, names_ok e -> pnames_ok (fst (fgen e c)).
Proof.
  induction e as [p|p|op p v|a IHa b IHb|a IHa b IHb]; intros c H; cbn [fgen fst pnames_ok names_ok] in *; auto.
  - destruct H as [Ha Hb]. specialize (IHa c Ha). destruct (fgen a c) as [x c1]. specialize (IHb c1 Hb). destruct (fgen b c1) as [y c2].
    cbn [fst pnames_ok] in *. split; assumption.
  - destruct H as [Ha Hb]. specialize (IHa c Ha). destruct (fgen a c) as [x c1]. specialize (IHb c1 Hb). destruct (fgen b c1) as [y c2].
    cbn [fst pnames_ok] in *. split; assumption.
Qed.

Lemma render_safe : forall x, pnames_ok x -> all_safe (render x).
Proof.
  induction x as [p|i|op l IHl r IHr|a IHa b IHb|a IHa b IHb|a IHa|a IHa]; cbn [render pnames_ok]; intro H.
  - apply all_safe_app; [apply const_safe; reflexivity|]. apply all_safe_app; [|apply const_safe; reflexivity].
    unfold py_list_repr. apply all_safe_cons; [reflexivity|]. apply all_safe_app; [|apply const_safe; reflexivity].
    apply join_safe; [apply const_safe; reflexivity|]. apply Forall_forall. intros t Ht. apply in_map_iff in Ht. destruct Ht as [n [En Hn]]. subst t.
    apply all_safe_cons; [reflexivity|]. apply all_safe_app; [|apply const_safe; reflexivity]. apply name_safe. rewrite Forall_forall in H. exact (H n Hn).
  - apply all_safe_app; [apply const_safe; reflexivity|]. apply all_safe_app; [apply str_of_N_safe|apply const_safe; reflexivity].
  - destruct H as [Hl Hr]. apply all_safe_app; [apply const_safe; reflexivity|]. apply all_safe_app; [destruct op; apply const_safe; reflexivity|].
    apply all_safe_app; [apply const_safe; reflexivity|]. apply all_safe_app; [apply IHl; exact Hl|]. apply all_safe_app; [apply const_safe; reflexivity|].
    apply all_safe_app; [apply IHr; exact Hr|apply const_safe; reflexivity].
  - destruct H as [Ha Hb]. apply all_safe_cons; [reflexivity|]. apply all_safe_app; [apply IHa; exact Ha|]. apply all_safe_app; [apply const_safe; reflexivity|].
    apply all_safe_app; [apply IHb; exact Hb|apply const_safe; reflexivity].
  - destruct H as [Ha Hb]. apply all_safe_cons; [reflexivity|]. apply all_safe_app; [apply IHa; exact Ha|]. apply all_safe_app; [apply const_safe; reflexivity|].
    apply all_safe_app; [apply IHb; exact Hb|apply const_safe; reflexivity].
  - apply all_safe_app; [apply const_safe; reflexivity|]. apply all_safe_app; [apply IHa; exact H|apply const_safe; reflexivity].
  - apply all_safe_app; [apply const_safe; reflexivity|]. apply all_safe_app; [apply IHa; exact H|apply const_safe; reflexivity].
Qed.

Theorem source_alphabet t e : fparse t = Some e -> all_safe (render (fst (fgen e []))).
Proof. intro H. apply render_safe, fgen_names. eapply fparse_names_ok; eauto. Qed.
