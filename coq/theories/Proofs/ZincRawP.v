(* Whole 3.0 grids whose cells include date-times: the reader model hands a date-time on as its raw ISO text and zone name
   (their interpretation is the iso8601 / pytz oracle), so the grid read back has, cell for cell, the READ form of the
   written value - the value itself for every other kind. *)
From Coq Require Import String.
From Coq Require Import List NArith Bool Lia Arith Setoid.
From HS Require Import Base.Prelude Model.Value Model.Escape Model.Version Model.Json Model.ZincParse Model.ZincDump.
From HS Require Import Proofs.PreludeP Proofs.VersionP Proofs.EscapeP Proofs.JsonP Proofs.ZincParseP Proofs.ZincDumpP Proofs.ZincNumP Proofs.ZincDateP Proofs.ZincListP Proofs.ZincGridP Proofs.ZincDictP Proofs.ZincMetaP Proofs.ZincNestP Proofs.ZincDateTimeP.
Import ListNotations.
Open Scope N_scope.

(* written value, read value, text *)
Definition cellwr (n : nat) (p : hval * hval) (t : str) : Prop :=
  (forall f, zdump (S (2 * n + f)) false (fst p) = Ok t) /\ (forall k, reads (2 * n + k) (snd p) t).

Lemma cellwr_same n v t : cellv n v t -> cellwr n (v, v) t.
Proof. intro H. destruct (cellv_gcell n v t H) as [D R]. split; [exact D|exact R]. Qed.

Lemma cellwr_datetime n y m d h mi s us off zn sg hh mm :
  iso_offset off = off_text sg hh mm -> dt_ok y m d h mi s us sg hh mm -> tzname_ok zn ->
  cellwr n (VDateTime y m d h mi s us off (ZName zn), VDateTimeRaw (iso_datetime y m d h mi s us off) (Some zn))
           (iso_datetime y m d h mi s us off ++ 32 :: zn).
Proof.
  intros Eo Hok Hz. split; [intro f; reflexivity|]. intros k rest Hd. cbn [fst snd].
  apply (datetime_written_read 0 (2 * n + k) true y m d h mi s us off zn sg hh mm _ rest Eo Hok Hz (delim_ns_delim rest Hd)). reflexivity.
Qed.

Definition names_of (cols : list (str * list (str * hval * str))) : list str := map fst cols.

Theorem full_grid_datetimes n mps cols (rows : list (list (hval * hval))) rts :
  Forall (mv (zv n)) mps -> NoDup (mkeys mps) -> ~ In VERK (mkeys mps) ->
  cols <> [] -> Forall (mc (zv n)) cols -> NoDup (map fst cols) ->
  Forall2 (fun cells ts => length cells = length (map fst cols) /\ Forall2 (cellwr n) cells ts) rows rts ->
  (forall f, zdump_grid (S (S (2 * n + f))) V30 (map pkv mps) (map (fun c => (fst c, map pkv (snd c))) cols)
                        (map (fun cells => combine (map fst cols) (map fst cells)) rows) = Ok (meta_text mps cols rts)) /\
  ((2 * n <= length (meta_text mps cols rts))%nat ->
   zparse_grid (meta_text mps cols rts) = Ok (meta_grid mps cols (map (map snd) rows))).
Proof.
  intros Hm Hmn Hmv Hne Hc Hcn Hrows.
  assert (Ms : forall l, Forall (mv (zv n)) l -> Forall (msem (2 * n)) l).
  { intros l Hl. eapply Forall_impl; [|exact Hl]. intros [[k0 v0] t0] [Hk [E|Hz]]; (split; [exact Hk|]); [left; exact E|right; apply zv_sem; exact Hz]. }
  split.
  - intro f.
    replace (map (fun cells : list (hval * hval) => combine (map fst cols) (map fst cells)) rows)
      with (map (fun cells => combine (map fst cols) cells) (map (map fst) rows)) by (rewrite map_map; reflexivity).
    apply grid_meta_dumps; [| exact Hne | | exact Hcn |].
    + eapply Forall_impl; [|exact (Ms mps Hm)]. intros p Hp. apply msem_dump. exact Hp.
    + eapply Forall_impl; [|exact Hc]. intros c [_ [B _]]. unfold col_dump_ok. eapply Forall_impl; [|exact (Ms _ B)]. intros p Hp. apply msem_dump. exact Hp.
    + clear -Hrows. induction Hrows as [|cells ts rows rts [Hl Hcs] _ IH]; cbn [map]; constructor; [|exact IH]. split; [rewrite map_length; exact Hl|].
      clear -Hcs. induction Hcs as [|v t vs ts Hvt _ IH]; cbn [map]; constructor; [exact (proj1 Hvt f)|exact IH].
  - intro Hn. unfold zparse_grid.
    assert (SV : sniff_version (meta_text mps cols rts) = Some V30) by reflexivity. rewrite SV.
    assert (P3 : pre3_of V30 = Ok false) by (vm_compute; reflexivity). rewrite P3. cbn [negb].
    assert (R : forall k, p_grid (S (S (2 * n + k))) true (meta_text mps cols rts) = Some (Ok (meta_grid mps cols (map (map snd) rows)), [])).
    { intro k. apply grid_meta_reads; [|exact Hmn|exact Hmv| |].
      - eapply Forall_impl; [|exact (Ms mps Hm)]. intros p Hp. apply msem_ok. exact Hp.
      - split; [exact Hne|]. split; [|split; [exact Hcn|]].
        + eapply Forall_impl; [|exact Hc]. intros c [A [B _]]. split; [exact A|]. eapply Forall_impl; [|exact (Ms _ B)]. intros p Hp. apply msem_ok. exact Hp.
        + eapply Forall_impl; [|exact Hc]. intros c [_ [_ C]]. exact C.
      - clear -Hrows. induction Hrows as [|cells ts rows rts [Hl Hcs] _ IH]; cbn [map]; constructor; [|exact IH]. split; [rewrite map_length; exact Hl|].
        clear -Hcs. induction Hcs as [|v t vs ts Hvt _ IH]; cbn [map]; constructor; [exact (proj2 Hvt k)|exact IH]. }
    specialize (R (length (meta_text mps cols rts) - 2 * n)%nat).
    replace (2 * n + (length (meta_text mps cols rts) - 2 * n))%nat with (length (meta_text mps cols rts)) in R by lia.
    rewrite R. reflexivity.
Qed.
Print Assumptions full_grid_datetimes.
