#!/venv/bin/python
"""Confirm and keep seeded changes made by sub-agents, and run the checks on them.

  seed.py confirm C16           verify /tmp/wt_C16/mutant{1,2}.diff (tests pass, demo fails with / passes
                                without the change) in that scratch worktree and store them as
                                /verif/seeded/C16-1/, C16-2/ (patch.diff, demo.py, notes.txt, meta.json)
  seed.py run C16-1 [tier]      apply seeded/C16-1/patch.diff to /repo, run ./check C16, undo, record
                                the outcome in meta.json
  seed.py runall [tier]         the same for every seeded change
"""
import json
import os
import shutil
import subprocess
import sys
import time

V = os.path.dirname(os.path.dirname(os.path.abspath(__file__)))
SEEDED = os.path.join(V, 'seeded')


def sh(cmd, cwd=None, env=None, timeout=3600):
    p = subprocess.run(cmd, shell=True, cwd=cwd, env=env, stdout=subprocess.PIPE, stderr=subprocess.STDOUT,
                       text=True, timeout=timeout)
    return p.returncode, p.stdout


def confirm(prop):
    wt = '/tmp/wt_' + prop
    env = dict(os.environ, PYTHONPATH=wt, PYTHONDONTWRITEBYTECODE='1', PYTHONHASHSEED='0')
    for n in range(1, 10):
        diff = os.path.join(wt, 'mutant%d.diff' % n)
        demo = os.path.join(wt, 'demo%d.py' % n)
        if not os.path.exists(diff):
            continue
        sh('git checkout -- hszinc', cwd=wt)
        rc0, out0 = sh('/venv/bin/python demo%d.py' % n, cwd=wt, env=env, timeout=600)
        rc, out = sh('git apply %s' % diff, cwd=wt)
        if rc != 0:
            print(prop, n, 'patch does not apply:', out[-300:])
            continue
        rct, outt = sh('/venv/bin/python %s/tools/baseline.py %s' % (V, wt), env=env)
        rc1, out1 = sh('/venv/bin/python demo%d.py' % n, cwd=wt, env=env, timeout=600)
        sh('git checkout -- hszinc', cwd=wt)
        ok = (rc0 == 0 and rct == 0 and rc1 != 0)
        print('%s-%d: demo clean rc=%d, tests with change rc=%d (%s), demo with change rc=%d -> %s'
              % (prop, n, rc0, rct, outt.split('\n')[0], rc1, 'KEEP' if ok else 'REJECT'))
        if not ok:
            continue
        d = os.path.join(SEEDED, '%s-%d' % (prop, n))
        os.makedirs(d, exist_ok=True)
        shutil.copy(diff, os.path.join(d, 'patch.diff'))
        shutil.copy(demo, os.path.join(d, 'demo.py'))
        notes = os.path.join(wt, 'notes%d.txt' % n)
        if os.path.exists(notes):
            shutil.copy(notes, os.path.join(d, 'notes.txt'))
        meta = {'property': prop, 'needs': open(notes).read() if os.path.exists(notes) else '',
                'confirmed': {'when': time.strftime('%Y-%m-%d %H:%M:%S'),
                              'pinned_suite_with_change': outt.split('\n')[0],
                              'demo_clean_rc': rc0, 'demo_with_change_rc': rc1,
                              'demo_with_change_tail': out1[-600:],
                              'commands': ['git apply patch.diff (scratch worktree of /repo HEAD)',
                                           '/venv/bin/python tools/baseline.py <worktree>',
                                           'PYTHONPATH=<worktree> /venv/bin/python demo.py']},
                'checks': {}}
        mp = os.path.join(d, 'meta.json')
        if os.path.exists(mp):
            old = json.load(open(mp))
            meta['checks'] = old.get('checks', {})
        json.dump(meta, open(mp, 'w'), indent=1)


def run(name, tier='quick', props=None):
    d = os.path.join(SEEDED, name)
    meta = json.load(open(os.path.join(d, 'meta.json')))
    props = props or [meta['property']]
    rc, out = sh('git -C /repo status --porcelain')
    if out.strip():
        print('refusing: /repo is not clean'); return
    rc, out = sh('git -C /repo apply %s' % os.path.join(d, 'patch.diff'))
    if rc != 0:
        print(name, 'patch no longer applies:', out[-300:]); return
    try:
        for prop in props:
            t0 = time.time()
            rc, out = sh('./check %s --tier %s' % (prop, tier), cwd=V, timeout=7200)
            lines = [l for l in out.split('\n') if l.startswith('VIOLATION') or l.startswith('KNOWN')]
            caught = rc == 1 and any(l.startswith('VIOLATION property=%s ' % prop) for l in lines)
            replay = None
            for l in lines:
                if 'replay=' in l:
                    rp = l.split('replay=')[1].split()[0]
                    try:
                        replay = json.load(open(rp)).get('what')
                    except Exception:
                        pass
            meta['checks']['%s/%s' % (prop, tier)] = {'rc': rc, 'caught': caught, 'lines': lines[:3],
                                                      'what': replay, 'wall_s': round(time.time() - t0, 1)}
            print('%s  check %s/%s rc=%d caught=%s  %s' % (name, prop, tier, rc, caught, (replay or '')[:160]))
    finally:
        sh('git -C /repo checkout -- .')
    json.dump(meta, open(os.path.join(d, 'meta.json'), 'w'), indent=1)


if __name__ == '__main__':
    cmd = sys.argv[1]
    if cmd == 'confirm':
        for p in sys.argv[2:]:
            confirm(p)
    elif cmd == 'run':
        run(sys.argv[2], sys.argv[3] if len(sys.argv) > 3 else 'quick')
    elif cmd == 'runall':
        tier = sys.argv[2] if len(sys.argv) > 2 else 'quick'
        only = sys.argv[3] if len(sys.argv) > 3 else ''
        for name in sorted(os.listdir(SEEDED)):
            if os.path.isdir(os.path.join(SEEDED, name)) and name.startswith(only):
                run(name, tier)
    elif cmd == 'summary':
        lines = ['# Seeded changes and the checks that catch them', '',
                 'Regenerated by `tools/seed.py summary` from `seeded/*/meta.json` (outcomes recorded by `tools/seed.py runall`).', '',
                 '| change | file(s) touched | what the change does (first line of the author\'s notes) | check | caught | failing input reported |',
                 '|---|---|---|---|---|---|']
        for name in sorted(os.listdir(SEEDED)):
            d = os.path.join(SEEDED, name)
            if not os.path.isdir(d):
                continue
            meta = json.load(open(os.path.join(d, 'meta.json')))
            patch = open(os.path.join(d, 'patch.diff')).read()
            files = sorted(set(l.split(' b/')[-1] for l in patch.split('\n') if l.startswith('diff --git')))
            notes = (meta.get('needs') or '').strip().split('\n')
            first = ' '.join(x.strip() for x in notes[:2])[:220].replace('|', '/')
            for chk, res in sorted(meta.get('checks', {}).items()):
                lines.append('| %s | %s | %s | %s | %s | %s |' % (name, ', '.join(files), first, chk, 'yes' if res.get('caught') else 'NO',
                                                                (res.get('what') or '')[:160].replace('|', '/').replace('\n', ' ')))
        open(os.path.join(SEEDED, 'SUMMARY.md'), 'w').write('\n'.join(lines) + '\n')
        print('written', os.path.join(SEEDED, 'SUMMARY.md'))
