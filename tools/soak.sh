#!/bin/bash
# multi-seed soak of every quick check on the unchanged tree: prints one line per run, alarms are what to look for
cd /verif
for seed in "$@"; do
  for i in $(seq -w 1 20); do
    VERIF_SEED=$seed ./check C$i --tier quick 2>&1 | grep -E "^(VIOLATION|C[0-9][0-9] tier)" | tr '\n' ' '; echo
  done
done
