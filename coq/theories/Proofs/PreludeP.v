(* Lemmas about Base/Prelude.v *)
From Coq Require Import Lia.
From HS Require Import Base.Prelude.
Open Scope N_scope.

Lemma str_eqb_refl a : str_eqb a a = true.
Proof. induction a as [|x a IH]; simpl; [reflexivity|]. now rewrite N.eqb_refl, IH. Qed.

Lemma str_eqb_eq a b : str_eqb a b = true <-> a = b.
Proof.
  revert b; induction a as [|x a IH]; intros [|y b]; simpl; split; intro H;
    try reflexivity; try discriminate.
  - apply andb_true_iff in H as [H1 H2]. apply N.eqb_eq in H1. apply IH in H2. now subst.
  - inversion H; subst. now rewrite N.eqb_refl, str_eqb_refl.
Qed.

Lemma str_eqb_neq a b : str_eqb a b = false <-> a <> b.
Proof.
  split; intro H.
  - intro E. apply str_eqb_eq in E. congruence.
  - destruct (str_eqb a b) eqn:E; auto. apply str_eqb_eq in E. contradiction.
Qed.

Lemma str_eqb_sym a b : str_eqb a b = str_eqb b a.
Proof.
  destruct (str_eqb a b) eqn:E.
  - apply str_eqb_eq in E. subst. now rewrite str_eqb_refl.
  - symmetry. apply str_eqb_neq. apply str_eqb_neq in E. congruence.
Qed.

Lemma str_eqb_spec a b : reflect (a = b) (str_eqb a b).
Proof. destruct (str_eqb a b) eqn:E; constructor; [now apply str_eqb_eq | now apply str_eqb_neq]. Qed.
