(* C15 - lookup by id always reflects the rows currently in the grid.
   Statements only; proofs in Proofs/GridP.v.  The model keeps the index the
   way the code does: None until first needed, rebuilt by reindex() on
   replace / delete / extend, updated in place by insert. *)
From HS Require Import Base.Prelude Model.PyList Model.Grid Proofs.GridP.
Open Scope Z_scope.

(* after ANY history (mutations and lookups interleaved, on the grid, on slices
   of it, on filtered grids), get(key) returns a row that is in the grid now
   and whose id has that string form, and returns the default exactly when no
   current row has it; the lookup does not change the rows *)
Theorem C15_get : forall ops p gv k,
  let g := grun (grid_new p gv) ops in
  let '(g1, r) := g_get g k in
  rows g1 = rows g /\
  match r with
  | Some x => In x (rows g) /\ has_id_key k x = true
  | None => forall x, In x (rows g) -> has_id_key k x = false
  end.
Proof.
  intros ops p gv k g.
  pose proof (lookup_correct g k (grun_inv ops _ (new_inv p gv))) as H.
  destruct (g_get g k) as [g1 r]. destruct H as [_ [H1 H2]]. auto.
Qed.

(* grid[key] is the same lookup, and the only exception it raises is KeyError *)
Theorem C15_lookup : forall g k,
  g_lookup g k = (fst (g_get g k),
                  match snd (g_get g k) with Some r => Ok r | None => Raise KeyError end).
Proof. reflexivity. Qed.

Theorem C15_no_internal_error : forall g k g' e, gstep g (GLookup k) = (g', Raise e) -> e = KeyError.
Proof. exact lookup_only_keyerror. Qed.

(* the invariant behind it holds in every reachable state: whenever the index
   exists it is sound and complete for the current rows *)
Theorem C15_index_invariant : forall ops p gv, IdxInv (grun (grid_new p gv) ops).
Proof. intros. apply grun_inv, new_inv. Qed.

(* freshly rebuilt, the index is exactly the scan (last row with that id wins) *)
Theorem C15_reindex_is_scan : forall l k, idx_lookup k (build_index l) = scan_lookup l k.
Proof. intros l k. apply build_index_scan. Qed.

(* non-vacuity: ids of three kinds with colliding string forms, replace, delete *)
Example C15_nonvacuous :
  let r k i := mkRow k (Some i) 0 false in
  let ops := [GAppend (VRow (r 1%N (IdInt 5))); GAppend (VRow (r 2%N (IdStr [53%N])));
              GGet [53%N]; GInsert 0 (VRow (r 3%N (IdRef [120%N] None)));
              GSetItem 1 (VRow (r 4%N (IdStr [64%N; 120%N]))); GDelItem 0] in
  let g := grun (grid_new true false) ops in
  option_map tag (snd (g_get g [53%N])) = Some 2%N /\
  option_map tag (snd (g_get g [64%N; 120%N])) = Some 4%N /\
  map tag (rows g) = [4%N; 2%N].
Proof. vm_compute. repeat split. Qed.
