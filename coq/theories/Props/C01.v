From HS Require Import Base.Prelude Model.ZincParse.
Theorem C01_placeholder : True. Proof. exact I. Qed.
