(* Dicts through the scalar rule of the ZINC reader model *)
From Coq Require Import String.
From Coq Require Import List NArith Bool Lia Arith Setoid.
From HS Require Import Base.Prelude Model.Value Model.Escape Model.Version Model.Json Model.ZincParse.
From HS Require Import Proofs.VersionP Proofs.EscapeP Proofs.JsonP Proofs.ZincParseP Proofs.ZincNumP Proofs.ZincListP Proofs.ZincGridP.
Import ListNotations.
Open Scope N_scope.

(* a value text that is read back whenever ANY delimiter follows, a blank included (dict values are followed by a blank) *)
Definition readsd (g : nat) (v : hval) (txt : str) : Prop :=
  forall rest, delim rest -> p_scalar (S g) true (txt ++ rest) = Some (Ok v, rest).
Lemma readsd_reads g v t : readsd g v t -> reads g v t.
Proof. intros H rest Hd. apply H. apply delim_ns_delim. exact Hd. Qed.

(* a tag: name, colon, value *)
Definition tag_text (k t : str) : str := (k ++ 58 :: t)%list.
Definition delim_sp r : delim (32 :: r). Proof. right. eexists. eexists. split; [reflexivity|]. cbn; tauto. Qed.
Definition delim_brace r : delim (125 :: r). Proof. right. eexists. eexists. split; [reflexivity|]. cbn; tauto. Qed.

Lemma p_id_colon k rest : colname k -> p_id (k ++ 58 :: rest) = Some (Ok k, 58 :: rest).
Proof.
  intro Hn. destruct k as [|c r]; [contradiction|]. destruct Hn as [Hc Hr]. cbn [List.app]. unfold p_id. rewrite Hc.
  rewrite (span_all is_id_rest r (58 :: rest) Hr); reflexivity.
Qed.

Lemma tag_reads g k v t rest : colname k -> readsd g v t -> delim rest ->
  hs_tag (p_scalar (S g) true) (tag_text k t ++ rest) = Some (Ok (Some (k, v)), rest).
Proof.
  intros Hk Hv Hd. unfold tag_text. rewrite <- app_assoc. cbn [List.app].
  destruct (reads_hd g v t (readsd_reads g v t Hv)) as [c [t' [E Hc]]]. destruct (nosp_hd c Hc) as [Hs _].
  assert (A1 : pmap (fun k0 => Some (k0, VMarker)) p_id (k ++ 58 :: t ++ rest) = Some (Ok (Some (k, VMarker)), 58 :: t ++ rest)).
  { exact (pmap_ok (fun k0 => Some (k0, VMarker)) p_id _ k _ (p_id_colon k _ Hk)). }
  assert (SP : spaces (t ++ rest) = Some (Ok tt, t ++ rest)).
  { subst t. unfold spaces, pmap, pspan. cbn [List.app span]. rewrite Hs. reflexivity. }
  assert (A2 : pmap Some (hs_tagpair (p_scalar (S g) true)) (k ++ 58 :: t ++ rest) = Some (Ok (Some (k, v)), rest)).
  { assert (TP : hs_tagpair (p_scalar (S g) true) (k ++ 58 :: t ++ rest) = Some (Ok (k, v), rest)).
    { unfold hs_tagpair. eapply pand_ok; [apply p_id_colon; exact Hk|].
      assert (I2 : pthen spaces (p_scalar (S g) true) (t ++ rest) = Some (Ok v, rest)).
      { unfold pthen, pmap, pand. rewrite SP, (Hv rest Hd). reflexivity. }
      unfold pthen at 1. unfold pmap, pand.
      assert (L0 : plit [58] (58 :: t ++ rest) = Some (Ok tt, t ++ rest)) by reflexivity. rewrite L0, I2. reflexivity. }
    exact (pmap_ok Some _ _ (k, v) _ TP). }
  unfold hs_tag, por. rewrite (por_pick_start _ _ _ _ _ A1).
  cbn [por_pick]. rewrite A2.
  assert (L : Nat.ltb (length rest) (length (58 :: t ++ rest)) = true) by (apply Nat.ltb_lt; cbn [length]; rewrite app_length; lia).
  rewrite L. reflexivity.
Qed.

(* the elements of hs_tags: a tag, or a run of blanks *)
Definition telt (scalar : parser hval) : parser (option (str * hval)) := por [hs_tag scalar; pmap (fun _ => None) (pspan1 is_sp)].

Lemma colname_hd k : colname k -> exists c r, k = c :: r /\ is_sp c = false /\ (97 <=? c) && (c <=? 122) = true.
Proof.
  intro H. destruct k as [|c r]; [contradiction|]. destruct H as [Hc _]. exists c, r. split; [reflexivity|]. split; [|exact Hc].
  apply andb_true_iff in Hc. destruct Hc as [H1 _]. apply N.leb_le in H1. unfold is_sp. destruct (N.eqb_spec c 32); [lia|reflexivity].
Qed.

Lemma telt_tag g k v t rest : colname k -> readsd g v t -> delim rest ->
  telt (p_scalar (S g) true) (tag_text k t ++ rest) = Some (Ok (Some (k, v)), rest).
Proof.
  intros Hk Hv Hd. pose proof (tag_reads g k v t rest Hk Hv Hd) as T. unfold telt, por.
  rewrite (por_pick_start _ _ _ _ _ T). rewrite por_pick_skip; [reflexivity|].
  destruct (colname_hd k Hk) as [c [r [E [Hs _]]]]. subst k. unfold tag_text. cbn [List.app]. unfold pmap, pspan1. cbn [span]. rewrite Hs. reflexivity.
Qed.
Lemma p_id_blank t : p_id (32 :: t) = None. Proof. reflexivity. Qed.
Lemma telt_blank scalar c t : is_sp c = false -> telt scalar (32 :: c :: t) = Some (Ok None, c :: t).
Proof.
  intro Hs. unfold telt, por. rewrite por_pick_skip.
  - cbn [por_pick]. unfold pmap, pspan1. cbn [span]. assert (E : is_sp 32 = true) by reflexivity. rewrite E, Hs. reflexivity.
  - unfold hs_tag. apply por_none. repeat apply Forall_cons; try apply Forall_nil; reflexivity.
Qed.
Lemma telt_close scalar r : telt scalar (125 :: r) = None.
Proof. unfold telt. apply por_none. repeat apply Forall_cons; try apply Forall_nil; [|reflexivity]. unfold hs_tag. apply por_none. repeat apply Forall_cons; try apply Forall_nil; reflexivity. Qed.

(* pairs: (key, value, value text) *)
Definition pair_ok (g : nat) (p : str * hval * str) : Prop := let '(k, v, t) := p in colname k /\ readsd g v t.
Definition ptext (p : str * hval * str) : str := let '(k, v, t) := p in tag_text k t.
Definition pkv (p : str * hval * str) : str * hval := let '(k, v, t) := p in (k, v).
Definition more_text (ps : list (str * hval * str)) : str := concat (map (fun p => 32 :: ptext p) ps).
Definition flat (l : list (option (str * hval))) : list (str * hval) := flat_map (fun o => match o with Some kv => [kv] | None => [] end) l.

Lemma more_delim ps r : delim (more_text ps ++ 125 :: r).
Proof. destruct ps as [|p ps]; cbn [more_text map concat List.app]; [apply delim_brace|apply delim_sp]. Qed.

Lemma tags_more g r : forall ps, Forall (pair_ok g) ps -> forall fuel, (2 * length ps < fuel)%nat ->
  exists l, pmany_fuel fuel (telt (p_scalar (S g) true)) (more_text ps ++ 125 :: r) = (Ok l, 125 :: r) /\ flat l = map pkv ps.
Proof.
  induction 1 as [|[[k v] t] ps [Hk Hv] _ IH]; intros fuel Hf.
  - exists []. cbn [more_text map concat List.app]. destruct fuel as [|f]; [cbn in Hf; lia|]. cbn [pmany_fuel]. rewrite telt_close. split; reflexivity.
  - destruct fuel as [|f1]; [cbn in Hf; lia|].
    cbn [more_text map concat ptext]. fold (more_text ps). rewrite <- !app_assoc. cbn [List.app].
    destruct (colname_hd k Hk) as [c [kr [E [Hs _]]]].
    assert (TT : tag_text k t = (c :: kr ++ 58 :: t)%list) by (unfold tag_text; rewrite E; reflexivity).
    cbn [pmany_fuel]. rewrite TT. cbn [List.app]. rewrite (telt_blank _ c _ Hs).
    assert (L1 : forall x : str, Nat.ltb (length (c :: x)) (length (32 :: c :: x)) = true) by (intro x; apply Nat.ltb_lt; cbn [length]; lia).
    rewrite L1.
    change (c :: (kr ++ 58 :: t) ++ more_text ps ++ 125 :: r)%list with ((c :: kr ++ 58 :: t) ++ more_text ps ++ 125 :: r)%list.
    rewrite <- TT.
    destruct f1 as [|f]; [cbn in Hf; lia|]. cbn [pmany_fuel].
    rewrite (telt_tag g k v t _ Hk Hv (more_delim ps r)).
    assert (L2 : Nat.ltb (length (more_text ps ++ 125 :: r)) (length (tag_text k t ++ more_text ps ++ 125 :: r)) = true).
    { apply Nat.ltb_lt. unfold tag_text. rewrite !app_length. cbn [length]. lia. }
    rewrite L2. destruct (IH f) as [l [Hl Hfl]]; [cbn in Hf; lia|]. rewrite Hl.
    exists (None :: Some (k, v) :: l). split; [reflexivity|]. cbn [flat flat_map List.app map pkv]. unfold flat in Hfl. rewrite Hfl. reflexivity.
Qed.

Definition body_text (ps : list (str * hval * str)) : str :=
  match ps with [] => [] | p :: ps' => (ptext p ++ more_text ps')%list end.

Lemma more_len ps : (2 * length ps <= length (more_text ps))%nat.
Proof.
  induction ps as [|[[k v] t] ps IH]; cbn [more_text map concat length]; [lia|]. fold (more_text ps).
  rewrite app_length. cbn [ptext length]. unfold tag_text. rewrite app_length. cbn [length]. lia.
Qed.

Lemma tags_body g r p ps : Forall (pair_ok g) (p :: ps) ->
  hs_tags (p_scalar (S g) true) (body_text (p :: ps) ++ 125 :: r) = Some (Ok (map pkv (p :: ps)), 125 :: r).
Proof.
  intro H. inversion H as [|? ? Hp Hps]; subst. destruct p as [[k v] t]. destruct Hp as [Hk Hv].
  cbn [body_text ptext]. rewrite <- app_assoc.
  unfold hs_tags. unfold pmap at 1. unfold pmany. fold (telt (p_scalar (S g) true)).
  remember (length (tag_text k t ++ more_text ps ++ 125 :: r)) as n0 eqn:EL.
  assert (EL2 : n0 = (length k + S (length t) + (length (more_text ps) + S (length r)))%nat).
  { subst n0. unfold tag_text. rewrite !app_length. cbn [length]. lia. }
  clear EL.
  cbn [pmany_fuel]. rewrite (telt_tag g k v t _ Hk Hv (more_delim ps r)).
  assert (L2 : Nat.ltb (length (more_text ps ++ 125 :: r)) (length (tag_text k t ++ more_text ps ++ 125 :: r)) = true).
  { apply Nat.ltb_lt. unfold tag_text. rewrite !app_length. cbn [length]. lia. }
  rewrite L2.
  destruct (tags_more g r ps Hps n0) as [l [Hl Hfl]].
  { pose proof (more_len ps). lia. }
  rewrite Hl. cbn [flat_map List.app map pkv]. fold (flat l). rewrite Hfl. reflexivity.
Qed.

Lemma tags_empty scalar r : hs_tags scalar (125 :: r) = Some (Ok [], 125 :: r).
Proof. unfold hs_tags. unfold pmap at 1. unfold pmany. fold (telt scalar). cbn [length pmany_fuel]. rewrite telt_close. reflexivity. Qed.

Definition dict_alt1 : parser hval := pmap (fun _ => VDict []) (pthen (plit [123]) (pthen spaces (plit [125]))).
Definition dict_alt2 (scalar : parser hval) : parser hval :=
  pmap (fun l => VDict (dict_of l)) (pthen (plit [123]) (pthen spaces (pbefore (hs_tags scalar) (pthen spaces (plit [125]))))).

Lemma dict_alt2_body scalar body kvs r : (match body with c :: _ => is_sp c = false | [] => True end) ->
  hs_tags scalar (body ++ 125 :: r) = Some (Ok kvs, 125 :: r) ->
  dict_alt2 scalar (123 :: body ++ 125 :: r) = Some (Ok (VDict (dict_of kvs)), r).
Proof.
  intros Hb H. unfold dict_alt2.
  assert (T : pthen spaces (plit [125]) (125 :: r) = Some (Ok tt, r)) by reflexivity.
  assert (B : pbefore (hs_tags scalar) (pthen spaces (plit [125])) (body ++ 125 :: r) = Some (Ok kvs, r)).
  { unfold pbefore, pmap, pand. rewrite H, T. reflexivity. }
  assert (S1 : spaces (body ++ 125 :: r) = Some (Ok tt, body ++ 125 :: r)).
  { destruct body as [|c b]; [reflexivity|]. unfold spaces, pmap, pspan. cbn [List.app span]. rewrite Hb. reflexivity. }
  assert (L : plit [123] (123 :: body ++ 125 :: r) = Some (Ok tt, body ++ 125 :: r)) by reflexivity.
  unfold pthen at 1 2. unfold pmap, pand. rewrite L, S1, B. reflexivity.
Qed.
Lemma dict_alt1_none body r : (match body with c :: _ => is_sp c = false /\ c <> 125 | [] => False end) ->
  dict_alt1 (123 :: body ++ 125 :: r) = None.
Proof.
  intro Hb. destruct body as [|c b]; [contradiction|]. destruct Hb as [Hs Hc]. unfold dict_alt1.
  assert (S1 : spaces ((c :: b) ++ 125 :: r) = Some (Ok tt, (c :: b) ++ 125 :: r)).
  { unfold spaces, pmap, pspan. cbn [List.app span]. rewrite Hs. reflexivity. }
  assert (L : plit [123] (123 :: (c :: b) ++ 125 :: r) = Some (Ok tt, (c :: b) ++ 125 :: r)) by reflexivity.
  unfold pthen at 1 2. unfold pmap at 1 2. unfold pand at 1. rewrite L. unfold pmap, pand. rewrite S1.
  cbn [List.app]. unfold plit. cbn [strip_prefix]. destruct (N.eqb_spec 125 c); [subst; contradiction|reflexivity].
Qed.

Theorem scalar_dict g ps rest : Forall (pair_ok g) ps -> NoDup (map fst (map pkv ps)) -> delim rest ->
  p_scalar (S (S g)) true (123 :: body_text ps ++ 125 :: rest) = Some (Ok (VDict (map pkv ps)), rest).
Proof.
  intros Hall Hnd Hd.
  assert (PD : hs_dict (p_scalar (S g) true) (123 :: body_text ps ++ 125 :: rest) = Some (Ok (VDict (map pkv ps)), rest)).
  { unfold hs_dict. fold dict_alt1. fold (dict_alt2 (p_scalar (S g) true)). destruct ps as [|p ps].
    - cbn [body_text List.app map]. unfold por.
      assert (A1 : dict_alt1 (123 :: 125 :: rest) = Some (Ok (VDict []), rest)) by reflexivity.
      rewrite (por_pick_start _ _ _ _ _ A1).
      assert (A2 : dict_alt2 (p_scalar (S g) true) (123 :: 125 :: rest) = Some (Ok (VDict []), rest)).
      { apply (dict_alt2_body _ [] [] rest I). apply tags_empty. }
      rewrite (por_pick_keep _ _ _ _ _ _ _ A2 (Nat.le_refl _)). reflexivity.
    - assert (Hk : colname (fst (fst p))) by (inversion Hall as [|? ? Hp _]; subst; destruct p as [[k v] t]; exact (proj1 Hp)).
      destruct (colname_hd _ Hk) as [c [kr [E [Hs Hlow]]]].
      assert (Hb : match body_text (p :: ps) with c0 :: _ => is_sp c0 = false /\ c0 <> 125 | [] => False end).
      { destruct p as [[k v] t]. cbn [fst] in E. cbn [body_text ptext]. unfold tag_text. rewrite E. cbn [List.app]. split; [exact Hs|].
        intro E2. subst c. discriminate. }
      unfold por. rewrite por_pick_skip by (apply dict_alt1_none; exact Hb).
      apply por_pick_take; [|apply Forall_nil].
      rewrite <- (dict_of_nodup (map pkv (p :: ps)) Hnd).
      apply dict_alt2_body; [destruct (body_text (p :: ps)); tauto|]. apply tags_body. exact Hall. }
  destruct (date_letters 123 (body_text ps ++ 125 :: rest) eq_refl) as [D1 [D2 D3]].
  rewrite p_scalar_3_0. set (T := (body_text ps ++ 125 :: rest)%list) in *. clearbody T.
  unfold por.
  do 5 rewrite por_pick_skip by reflexivity.
  rewrite por_pick_skip by exact D1. rewrite por_pick_skip by exact D2. rewrite por_pick_skip by exact D3.
  do 8 rewrite por_pick_skip by reflexivity.
  apply por_pick_take; [exact PD|].
  repeat (apply Forall_cons; [reflexivity|]); apply Forall_nil.
Qed.

(* ---------- values: leaves, lists and dicts to any depth ---------- *)
From HS Require Import Model.ZincDump Proofs.PreludeP Proofs.ZincDumpP Proofs.ZincDateP.

Definition leafd (v : hval) (t : str) : Prop := (forall f, zdump (S f) false v = Ok t) /\ (forall g, readsd g v t).
Definition pair_val (P : hval -> str -> Prop) (p : str * hval * str) : Prop := colname (fst (fst p)) /\ P (snd (fst p)) (snd p).
Fixpoint zval (n : nat) (v : hval) (t : str) : Prop :=
  match n with
  | O => leafd v t
  | S n' => leafd v t
            \/ (exists vs ts, v = VList vs /\ t = (91 :: join [44] ts ++ [93])%list /\ Forall2 (zval n') vs ts)
            \/ (exists ps, v = VDict (map pkv ps) /\ t = (123 :: body_text ps ++ [125])%list /\
                           NoDup (map fst (map pkv ps)) /\ Forall (pair_val (zval n')) ps)
  end.

Theorem zval_readsd : forall n v t, zval n v t -> forall k, readsd (n + k) v t.
Proof.
  induction n as [|n IH]; intros v t H k; [exact (proj2 H _)|].
  destruct H as [H|[[vs [ts [Ev [Et H]]]]|[ps [Ev [Et [Hnd H]]]]]]; [exact (proj2 H _)| |]; subst v t; intros rest Hd;
    cbn [List.app Nat.add]; rewrite <- app_assoc; cbn [List.app].
  - apply scalar_list; [|exact Hd]. clear Hd. induction H as [|v t vs ts Hvt _ IH2]; constructor; [apply readsd_reads; apply IH; exact Hvt|exact IH2].
  - apply scalar_dict; [|exact Hnd|exact Hd]. clear -H IH. induction H as [|[[k0 v0] t0] ps [Hk Hv] _ IH2]; constructor; [|exact IH2].
    split; [exact Hk|apply IH; exact Hv].
Qed.

Lemma join_ptext ps : join [32] (map ptext ps) = body_text ps.
Proof.
  destruct ps as [|p ps]; [reflexivity|]. cbn [body_text]. revert p. induction ps as [|q ps IH]; intro p.
  - cbn [map join more_text concat]. rewrite app_nil_r. reflexivity.
  - cbn [map]. rewrite join_cons_cons. specialize (IH q). cbn [map] in IH. rewrite IH.
    cbn [more_text map concat]. fold (more_text ps). cbn [List.app]. reflexivity.
Qed.

Theorem zval_dump : forall n v t, zval n v t -> forall f, zdump (S (n + f)) false v = Ok t.
Proof.
  induction n as [|n IH]; intros v t H f; [exact (proj1 H _)|].
  destruct H as [H|[[vs [ts [Ev [Et H]]]]|[ps [Ev [Et [Hnd H]]]]]]; [exact (proj1 H _)| |]; subst v t; cbn [Nat.add].
  - assert (E : res_map (zdump (S (n + f)) false) vs = Ok ts).
    { apply res_map_forall2. clear -H IH. induction H; constructor; [apply IH; assumption|assumption]. }
    remember (S (n + f)) as f1. cbn [zdump]. subst f1. rewrite E. reflexivity.
  - assert (E : res_map (fun kv : str * hval => do t <- zdump (S (n + f)) false (snd kv); Ok (fst kv ++ 58 :: t)) (map pkv ps) = Ok (map ptext ps)).
    { apply res_map_forall2. clear -H IH. induction H as [|[[k0 v0] t0] ps [Hk Hv] _ IH2]; cbn [map]; constructor; [|exact IH2].
      cbn [pkv ptext snd fst]. cbn [fst snd] in Hv. rewrite (IH v0 t0 Hv f). reflexivity. }
    remember (S (n + f)) as f1. cbn [zdump]. subst f1. rewrite (dict_of_nodup (map pkv ps) Hnd).
    match goal with |- context [res_map ?F (map pkv ps)] => replace (res_map F (map pkv ps)) with (Ok (map ptext ps) : res (list str)) by (symmetry; exact E) end.
    cbn [bind]. rewrite join_ptext. reflexivity.
Qed.

(* ---------- whole grids over such values ---------- *)
(* a cell: written as t at every sufficient fuel, read back from t at every sufficient fuel when a non-blank delimiter follows *)
Definition gcell (n : nat) (v : hval) (t : str) : Prop :=
  (forall f, zdump (S (n + f)) false v = Ok t) /\ (forall k, reads (n + k) v t).
Lemma gcell_zval n v t : zval n v t -> gcell n v t.
Proof. intro H. split; [apply zval_dump; exact H|]. intro k. apply readsd_reads. apply zval_readsd. exact H. Qed.
Lemma gcell_zcell n v t : zcell n v t -> gcell n v t.
Proof. intro H. split; [apply zcell_dump; exact H|apply zcell_reads; exact H]. Qed.
Definition grid_gcells_ok (n : nat) (names : list str) (cells : list hval) (ts : list str) : Prop :=
  length cells = length names /\ Forall2 (gcell n) cells ts.

Theorem grid_roundtrip_values n names rows rts :
  names <> [] -> Forall colname names -> NoDup names -> Forall2 (grid_gcells_ok n names) rows rts ->
  (forall f, zdump_grid (S (S (n + f))) V30 [] (map (fun x => (x, [])) names) (map (fun cells => combine names cells) rows) = Ok (plain_text names rts)) /\
  (forall k, p_grid (S (S (n + k))) true (plain_text names rts) = Some (Ok (plain_grid names rows), [])) /\
  ((n <= length (plain_text names rts))%nat -> zparse_grid (plain_text names rts) = Ok (plain_grid names rows)).
Proof.
  intros Hne Hcn Hnd Hrows.
  assert (R : forall k, p_grid (S (S (n + k))) true (plain_text names rts) = Some (Ok (plain_grid names rows), [])).
  { intro k. apply grid_reads; [exact Hne|exact Hcn|exact Hnd|].
    clear -Hrows. induction Hrows as [|cells ts rows rts [Hl Hc] _ IH]; constructor; [|exact IH]. split; [exact Hl|].
    clear -Hc. induction Hc as [|v t vs ts Hvt _ IH]; constructor; [exact (proj2 Hvt k)|exact IH]. }
  split; [|split; [exact R|]].
  - intro f. apply grid_dumps; [exact Hne|exact Hnd|].
    clear -Hrows. induction Hrows as [|cells ts rows rts [Hl Hc] _ IH]; constructor; [|exact IH]. split; [exact Hl|].
    clear -Hc. induction Hc as [|v t vs ts Hvt _ IH]; constructor; [exact (proj1 Hvt f)|exact IH].
  - intro Hn. unfold zparse_grid.
    assert (SV : sniff_version (plain_text names rts) = Some V30) by reflexivity. rewrite SV.
    assert (P3 : pre3_of V30 = Ok false) by (vm_compute; reflexivity). rewrite P3. cbn [negb].
    specialize (R (length (plain_text names rts) - n)%nat).
    replace (n + (length (plain_text names rts) - n))%nat with (length (plain_text names rts)) in R by lia.
    rewrite R. reflexivity.
Qed.

(* the leaves that may also stand inside dicts (read back before a blank too) *)
Lemma leafd_str s e : escape_str s = Ok e -> leafd (VStr s) (DQ :: e ++ [DQ]).
Proof. intro He. split; [exact (proj1 (leafc_str s e He))|]. intros g rest _. cbn [List.app]. rewrite <- app_assoc. cbn [List.app]. apply scalar_str. exact He. Qed.
Lemma leafd_uri s e : escape_uri s = Ok e -> leafd (VUri s) (BQ :: e ++ [BQ]).
Proof. intro He. split; [exact (proj1 (leafc_uri s e He))|]. intros g rest _. cbn [List.app]. rewrite <- app_assoc. cbn [List.app]. apply scalar_uri. exact He. Qed.
Lemma leafd_number sg ip fp ex u : ntok_ok sg ip fp ex u -> leafd (nval sg ip fp ex u) (mant sg ip fp ex ++ upt u).
Proof. intro Hok. split; [exact (proj1 (leafc_number sg ip fp ex u Hok))|]. intros g rest Hd. rewrite <- app_assoc. apply scalar_number; assumption. Qed.
Lemma leafd_date y m d : valid_date y m d = true -> leafd (VDate y m d) (iso_date y m d).
Proof. intro Hv. split; [intro f; reflexivity|]. intros g rest Hd. apply scalar_date; assumption. Qed.
Lemma leafd_time h mi s us : time_ok h mi s us -> leafd (VTime h mi s us) (iso_time h mi s us).
Proof. intro Hv. split; [intro f; reflexivity|]. intros g rest Hd. apply scalar_time; assumption. Qed.
Lemma leafd_null : leafd VNull [78]. Proof. split; [intro f; reflexivity|]. intros g rest Hd. apply scalar_null. exact Hd. Qed.
Lemma leafd_marker : leafd VMarker [77]. Proof. split; [intro f; reflexivity|]. intros g rest Hd. apply scalar_marker. exact Hd. Qed.
Lemma leafd_remove : leafd VRemove [82]. Proof. split; [intro f; reflexivity|]. intros g rest Hd. apply scalar_remove. exact Hd. Qed.
Lemma leafd_na : leafd VNA [78; 65]. Proof. split; [intro f; reflexivity|]. intros g rest Hd. apply scalar_na. exact Hd. Qed.
Lemma leafd_bool b : leafd (VBool b) [if b then 84 else 70].
Proof. split; [intro f; reflexivity|]. intros g rest Hd. destruct b; [apply scalar_true|apply scalar_false]; exact Hd. Qed.
