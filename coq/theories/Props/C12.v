(* C12 - filter literals are data, never code.
   Statements about Model/Filter.v: what reaches the Python source handed to exec() is a function of the
   SHAPE of the filter and of its tag names only; tag names are identifiers; the source is written over a
   fixed alphabet without quote, backslash, dot, colon, semicolon or newline.  Literal values travel in the
   tuple bound to the generated function's default argument and are only ever passed to the comparison. *)
From Coq Require Import String.
From Coq Require Import List NArith ZArith Bool.
From HS Require Import Base.Prelude Model.Value Model.Filter.
From HS Require Import Proofs.FilterP.
Import ListNotations.
Open Scope N_scope.

(* two filters that differ only in their literal VALUES generate the same source, character for character *)
Theorem C12_source_independent_of_literals : forall a b, same_shape a b ->
  render (fst (fgen a [])) = render (fst (fgen b [])).
Proof. exact source_independent_of_literals. Qed.

(* every tag name the parser lets through is made of letters, digits and underscores *)
Theorem C12_names_are_identifiers : forall t e, fparse t = Some e -> names_ok e.
Proof. exact fparse_names_ok. Qed.

(* the source of ANY accepted filter is written over letters, digits, _ and ' [ ] ( ) , blank ! = < > *)
Theorem C12_source_alphabet : forall t e, fparse t = Some e ->
  Forall (fun c => safe c = true) (render (fst (fgen e []))).
Proof. exact source_alphabet. Qed.
(* ... so it holds no double quote, backslash, dot (attribute access), colon, semicolon, newline, #, @, {, } or + *)
Theorem C12_excluded_characters : forall c, safe c = true ->
  c <> 34 /\ c <> 92 /\ c <> 46 /\ c <> 58 /\ c <> 59 /\ c <> 10 /\ c <> 13 /\ c <> 35 /\ c <> 64 /\ c <> 123 /\ c <> 125 /\ c <> 43 /\ c <> 96 /\ c <> 36.
Proof. intros c H. repeat split; intro E; subst c; vm_compute in H; discriminate. Qed.
(* inside the quotes of a path list there is a name, and a name holds no quote *)
Theorem C12_names_hold_no_quote : forall n, name_ok n -> ~ In 39 n.
Proof. intros n H Hin. unfold name_ok in H. rewrite Forall_forall in H. specialize (H 39 Hin). vm_compute in H. discriminate. Qed.

(* evaluation returns rows of the source grid, nothing else (the model is functional: the grid is not modified) *)
Theorem C12_rows_come_from_the_grid : forall (f : frow -> bool) limit rows r, In r (run_filter (Some f) limit rows) -> In r rows.
Proof.
  intros f limit rows r. rewrite run_filter_spec. destruct (limit <=? 0)%Z; intro H.
  - apply filter_In in H. tauto.
  - assert (S : forall n (l : list frow) x, In x (firstn n l) -> In x l).
    { induction n as [|n IH]; intros [|y l] x Hx; cbn [firstn] in Hx; try contradiction. destruct Hx as [E|Hx]; [left; exact E|right; apply IH; exact Hx]. }
    apply S in H. apply filter_In in H. tauto.
Qed.

(* tokens that are not filters are rejected (computed) *)
Example C12_rejects :
  fparse (s_ "__import__('os')") = None /\ fparse (s_ "a == __import__('os')") = None /\ fparse (s_ "a;b") = None /\
  fparse (s_ "a.b") = None /\ fparse (s_ "a == 1); import os; (") = None /\ fparse (s_ "A") = None /\ fparse (s_ "a == eval") = None.
Proof. vm_compute. repeat split. Qed.
(* a payload inside a string literal stays in the literal tuple *)
Example C12_payload_is_data :
  match fparse (s_ "a == ""__import__('os').system('x')""") with
  | Some e => render (fst (fgen e [])) = s_ "_compare('==', _get_path(_grid, _entity, ['a']), _c[0])"
  | None => False
  end.
Proof. vm_compute. reflexivity. Qed.

Print Assumptions C12_source_independent_of_literals.
Print Assumptions C12_names_are_identifiers.
Print Assumptions C12_source_alphabet.
Print Assumptions C12_excluded_characters.
Print Assumptions C12_names_hold_no_quote.
Print Assumptions C12_rows_come_from_the_grid.
