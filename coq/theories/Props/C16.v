(* C16 - ordered metadata maps keep dict content and documented order under
   every history.  Statements only; proofs in Proofs/SortableDictP.v.
   `step` is the model of the code (SortableDict._values/_order, add_item with
   its index arithmetic, MutableMapping mixins); `om_step` is the reference
   ordered map of the documented semantics (one association list; "before /
   after key K" defined without indices).  Both are in Model/SortableDict.v. *)
From HS Require Import Base.Prelude Model.SortableDict Proofs.SortableDictP.
Open Scope Z_scope.

(* keys are unique and order and content describe the same key set, after any history *)
Theorem C16_inv : forall ops,
  let s := run sd_empty ops in
  NoDup (order s) /\ NoDup (map fst (vals s)) /\
  (forall k, In k (order s) <-> In k (map fst (vals s))) /\
  length (items s) = length (order s) /\ map fst (items s) = order s.
Proof.
  intros ops s. destruct (run_refines ops sd_empty inv_empty) as [HI _].
  destruct HI as [A [B C]]. repeat split; auto; try apply C.
  - apply inv_lengths. repeat split; auto; apply C.
  - apply items_keys. repeat split; auto; apply C.
Qed.

(* the map equals the reference ordered map under every history: same items in
   the same order, and the same result / exception class for every operation *)
Theorem C16_refines : forall ops,
  items (run sd_empty ops) = om_run [] ops /\ outs sd_empty ops = om_outs [] ops.
Proof. intros ops. destruct (run_refines ops sd_empty inv_empty) as [_ [A B]]. auto. Qed.

(* one step, from any reachable state *)
Theorem C16_step : forall s o s' r,
  Inv s -> step s o = (s', r) -> om_step (items s) o = (items s', r) /\ Inv s'.
Proof. exact step_refines. Qed.

(* a rejected single-item operation (unknown position key, duplicate with
   replace=False, both index and key given, refused value, missing key, bad
   index) changes nothing *)
Theorem C16_rejected_unchanged : forall s o s' e,
  single_item o = true -> step s o = (s', Raise e) -> s' = s.
Proof. exact rejected_unchanged. Qed.

(* the documented positions, as instances of the reference semantics *)
Definition ka : key := [97%N]. Definition kb : key := [98%N].
Definition kc : key := [99%N]. Definition kd : key := [100%N]. Definition kz : key := [122%N].
Example C16_before_after :
  let m := [(ka, 1); (kb, 2); (kc, 3); (kd, 4)] in   (* a b c d *)
  fst (om_add m ka 9 false None (Some kc) true) = [(kb, 2); (ka, 9); (kc, 3); (kd, 4)] /\
  fst (om_add m ka 9 true  None (Some kc) true) = [(kb, 2); (kc, 3); (ka, 9); (kd, 4)] /\
  fst (om_add m kd 9 false None (Some kb) true) = [(ka, 1); (kd, 9); (kb, 2); (kc, 3)] /\
  fst (om_add m kb 9 true None (Some kb) true) = [(ka, 1); (kb, 9); (kc, 3); (kd, 4)] /\
  fst (om_add m kb 9 false None None true) = [(ka, 1); (kb, 9); (kc, 3); (kd, 4)] /\
  om_add m kb 9 false None None false = (m, Raise KeyError) /\
  om_add m kb 9 false None (Some kz) true = (m, Raise KeyError) /\
  om_add m kb 9 false (Some 0) (Some ka) true = (m, Raise ValueError).
Proof. vm_compute. repeat split. Qed.

(* non-vacuity: a reachable state with a relocation in its history *)
Example C16_nonvacuous :
  let ops := [OSet ka 1; OSet kb 2; OSet kc 3; OAdd ka 9 false None (Some kc) true; OPopAt (-1)] in
  items (run sd_empty ops) = [(kb, 2); (ka, 9)] /\ Inv (run sd_empty ops).
Proof.
  split; [vm_compute; reflexivity|].
  apply (run_refines _ sd_empty inv_empty).
Qed.
