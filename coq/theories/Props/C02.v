(* C02 - JSON round trip.  Statements only; proofs in Proofs/JsonP.v.
   For every scalar kind: what the writer model emits is read back by the
   reader model (the cascade of parse_embedded_scalar, one matcher per regex,
   in the order of the source) as the same kind with the same content.
   Numbers travel as the exact '%f' text: the six-decimal statement about
   floats is CPython's ('%f' % x has the shape f6_shape, float() inverts it up
   to six decimals) and is sampled by the harness.
   The induction through lists, dicts, nested grids and whole grids of either
   version family (jparse_grid of jdump_grid) is C02_values / C02_full_grid /
   C02_grid_any_version / C02_grid_2_0.
   PARTIAL: what a number token and a date-time text denote (float(), iso8601,
   pytz) are oracles of the tie. *)
From Coq Require Import String List.
Import ListNotations.
From HS Require Import Base.Prelude Gen.JsonData Model.Value Model.Version Model.Json Proofs.PreludeP Proofs.JsonP Proofs.JsonGridP Proofs.JsonNestP Proofs.JsonReadP Proofs.JsonVerP.
Open Scope N_scope.

(* text kinds: ANY payload, no hypothesis *)
Theorem C02_str : forall pre3 s, jparse_str pre3 (115 :: 58 :: s) = Ok (VStr s).
Proof. exact rt_str. Qed.
Theorem C02_uri : forall pre3 s, jparse_str pre3 (117 :: 58 :: s) = Ok (VUri s).
Proof. exact rt_uri. Qed.
Theorem C02_bin : forall pre3 s, jparse_str pre3 (98 :: 58 :: s) = Ok (VBin s).
Proof. exact rt_bin. Qed.

(* references: a non-empty name of reference characters; the display name is ANY text *)
Theorem C02_ref : forall pre3 n, n <> [] -> forallb is_ref_char n = true ->
  jparse_str pre3 (114 :: 58 :: n) = Ok (VRef n None).
Proof. exact rt_ref_plain. Qed.
Theorem C02_ref_dis : forall pre3 n d, n <> [] -> forallb is_ref_char n = true ->
  jparse_str pre3 (114 :: 58 :: n ++ 32 :: d) = Ok (VRef n (Some d)).
Proof. exact rt_ref_dis. Qed.

(* XStr: a type name without colon; the payload is ANY text (colons included) *)
Theorem C02_xstr : forall en tx, mem_colon en = false ->
  jparse_str false (120 :: 58 :: en ++ 58 :: tx) = Ok (VXStr en tx).
Proof. exact rt_xstr. Qed.

(* numbers and quantities: exactly the token written, and the unit (ANY text) *)
Theorem C02_num : forall pre3 tok u, f6_shape tok ->
  jparse_str pre3 (110 :: 58 :: tok ++ match u with Some x => 32 :: x | None => [] end)
  = Ok (VNum NkFin tok tok u).
Proof. exact rt_num. Qed.
Theorem C02_nonfinite : forall pre3,
  jparse_str pre3 (s_ "n:INF") = Ok (VNum NkInf [] [] None) /\
  jparse_str pre3 (s_ "n:-INF") = Ok (VNum NkNegInf [] [] None) /\
  jparse_str pre3 (s_ "n:NaN") = Ok (VNum NkNaN [] [] None).
Proof. exact rt_nonfinite. Qed.

Theorem C02_coord : forall pre3 la lo, f6_shape la -> f6_shape lo ->
  jparse_str pre3 (99 :: 58 :: la ++ 44 :: lo) = Ok (VCoord la lo).
Proof. exact rt_coord. Qed.

(* dates, times: exact *)
Theorem C02_date : forall pre3 y m d, valid_date y m d = true ->
  jparse_str pre3 (100 :: 58 :: iso_date y m d) = Ok (VDate y m d).
Proof. exact rt_date. Qed.
Theorem C02_time : forall pre3 h mi s us, h <= 23 -> mi <= 59 -> s <= 59 -> us < 1000000 ->
  jparse_str pre3 (104 :: 58 :: iso_time h mi s us) = Ok (VTime h mi s us).
Proof. exact rt_time. Qed.

(* date-times: the reader hands iso8601.parse_date exactly the text isoformat() produced,
   and the zone name written *)
Theorem C02_datetime : forall pre3 y m d h mi s us off name,
  y < 10000 -> m < 100 -> d < 100 -> h < 100 -> mi < 100 -> s < 100 -> us < 1000000 ->
  whole_minutes off -> name <> [] -> forallb is_tzname_char name = true ->
  jparse_str pre3 (116 :: 58 :: iso_datetime y m d h mi s us off ++ 32 :: name)
  = Ok (VDateTimeRaw (iso_datetime y m d h mi s us off) (Some name)).
Proof. exact rt_datetime. Qed.

(* singletons; Remove: 2.0 grids use x:, 3.0 grids -:, both read back as Remove *)
Theorem C02_marker : forall pre3, jparse_str pre3 marker_str = Ok VMarker.
Proof. exact rt_marker. Qed.
Theorem C02_na : jparse_str false na_str = Ok VNA /\ jparse_str true na_str = Raise ValueError.
Proof. exact rt_na. Qed.
Theorem C02_remove_spelling : forall pre3,
  jdump_scalar pre3 VRemove = Ok (JStr (if pre3 then remove2_str else remove3_str)) /\
  jparse_str pre3 remove2_str = Ok VRemove /\ jparse_str pre3 remove3_str = Ok VRemove.
Proof. intros. split; [reflexivity | apply rt_remove]. Qed.

(* non-vacuity: a value whose '%f' token satisfies the shape *)
Example C02_f6_example : f6_shape [45; 49; 50; 46; 53; 48; 48; 48; 48; 48].   (* -12.500000 *)
Proof. exists true, [49; 50], [53; 48; 48; 48; 48; 48]. repeat split; try reflexivity; discriminate. Qed.

(* NESTING: lists and dicts (pairwise distinct keys, not all three of meta / cols / rows) to any depth over leaves
   that round-trip, round-trip - `rtn n v v'` says v' is what v reads back as: leaves by the per-kind theorems
   above, lists element-wise, dicts value-wise with the same keys *)
Theorem C02_nested : forall n v v', rtn n v v' -> forall fuel j, jdump fuel false v = Ok j -> jparse fuel false j = Ok v'.
Proof. exact nested_roundtrip. Qed.
(* in particular every tree of lists and dicts over strings, URIs, Bins, markers, nulls, booleans, NA, Remove
   comes back as itself *)
Theorem C02_nested_plain : forall n v fuel j, plain n v -> jdump fuel false v = Ok j -> jparse fuel false j = Ok v.
Proof. intros n v fuel j. exact (plain_roundtrip n v fuel j). Qed.
(* WHOLE GRIDS: for every grid of a 3.0-family version (ver_ok), with distinct metadata tags (none called ver), distinct
   column names, per column distinct metadata tags (none called name), rows holding one cell per column in column order -
   if every metadata value and every cell round-trips on its own (item_rt: what the writer makes of it, the reader turns
   back into it), then the JSON object written for the grid is read back as exactly that grid.  By induction over
   metadata, columns, rows and cells. *)
Theorem C02_grid : forall f g ver meta cols rows j,
  ver_ok ver -> cols <> [] ->
  NoDup (map fst meta) -> ~ In VER (map fst meta) -> Forall (fun kv => item_rt f g false (snd kv)) meta ->
  NoDup (map fst cols) -> Forall (col_ok f g false) cols -> Forall (row_ok f g false cols) rows ->
  jdump_grid (S f) ver meta cols rows = Ok j ->
  exists m, j = JObj m /\ jparse_grid (S g) m = Ok (VGrid ver meta cols rows).
Proof. exact json_grid_roundtrip. Qed.
(* in particular for grids all of whose values are trees of lists and dicts over strings, URIs, Bins, markers, nulls,
   booleans, NA, Remove (plain n), to any depth n *)
Theorem C02_plain_grid : forall n f ver meta cols rows j,
  ver_ok ver -> cols <> [] ->
  NoDup (map fst meta) -> ~ In VER (map fst meta) -> plain_items n meta ->
  NoDup (map fst cols) -> Forall (plain_col n) cols -> Forall (plain_row n cols) rows ->
  jdump_grid (S f) ver meta cols rows = Ok j ->
  exists m, j = JObj m /\ jparse_grid (S f) m = Ok (VGrid ver meta cols rows).
Proof. exact json_plain_grid_roundtrip. Qed.
(* THE GENERAL THEOREM: jv n v - v is a leaf of any kind that round-trips on its own (the per-kind theorems above), a
   list, a dict, or a NESTED GRID (with metadata and column metadata) of jv (n-1) values.  Every such value, and every
   grid over such values, is read back from what the writer makes of it - to any depth. *)
Theorem C02_values : forall n v, jv n v -> forall f j, jdump f false v = Ok j -> jparse f false j = Ok v.
Proof. intros n v H f j. exact (jv_roundtrip n v H f j). Qed.
Theorem C02_full_grid : forall n f ver meta cols rows j,
  ver_ok ver -> cols <> [] ->
  NoDup (map fst meta) -> ~ In VER (map fst meta) -> Forall (fun kv => jv n (snd kv)) meta ->
  NoDup (map fst cols) -> Forall (jcolv (jv n)) cols -> Forall (jrowv (jv n) cols) rows ->
  jdump_grid (S f) ver meta cols rows = Ok j ->
  exists m, j = JObj m /\ jparse_grid (S f) m = Ok (VGrid ver meta cols rows).
Proof. exact json_full_grid. Qed.
Example C02_nested_grid_nonvacuous :
  let inner := VGrid (s_ "3.0") [] [(s_ "x", [])] [[(s_ "x", VMarker)]] in
  jv 3 (VGrid (s_ "3.0") [] [(s_ "a", [])] [[(s_ "a", inner)]]).
Proof.
  intro inner.
  assert (V : ver_ok (s_ "3.0")) by (eexists; split; [vm_compute; reflexivity|]; split; vm_compute; reflexivity).
  assert (G : forall n nm x, jv n x -> jv (S n) (VGrid (s_ "3.0") [] [(nm, [])] [[(nm, x)]])).
  { intros n nm x Hx. right. right. right. exists (s_ "3.0"), [], [(nm, [])], [[(nm, x)]].
    split; [reflexivity|]. split; [exact V|]. split; [discriminate|]. split; [constructor|]. split; [intros []|]. split; [constructor|].
    split; [repeat constructor; intros []|]. split.
    - constructor; [split; [constructor|split; [intros []|constructor]]|constructor].
    - constructor; [|constructor]. split; [|constructor; [exact Hx|constructor]].
      unfold canon_row. cbn [map fst assoc]. rewrite PreludeP.str_eqb_refl. reflexivity. }
  apply G. apply G. left. split; [reflexivity|apply leaf_marker].
Qed.

(* ANY VERSION FAMILY: the writer and the reader judge every value by the grid's own version (pre-3.0 or not); the
   whole-grid theorem holds for both, and under 2.0 for all grids over strings, URIs, Bins, markers, nulls, booleans, Remove *)
Theorem C02_grid_any_version : forall f g ver p3 meta cols rows j,
  ver_any ver p3 -> cols <> [] ->
  NoDup (map fst meta) -> ~ In VER (map fst meta) -> Forall (fun kv => item_rt f g p3 (snd kv)) meta ->
  NoDup (map fst cols) -> Forall (col_ok f g p3) cols -> Forall (row_ok f g p3 cols) rows ->
  jdump_grid (S f) ver meta cols rows = Ok j ->
  exists m, j = JObj m /\ jparse_grid (S g) m = Ok (VGrid ver meta cols rows).
Proof. exact json_grid_roundtrip_any. Qed.
Theorem C02_grid_2_0 : forall f g ver meta cols rows j,
  ver_any ver true -> cols <> [] ->
  NoDup (map fst meta) -> ~ In VER (map fst meta) -> Forall (fun kv => leaf2 (snd kv)) meta ->
  NoDup (map fst cols) ->
  Forall (fun c => NoDup (map fst (snd c)) /\ ~ In NAME (map fst (snd c)) /\ Forall (fun kv => leaf2 (snd kv)) (snd c)) cols ->
  Forall (fun row => canon_row cols row /\ Forall (fun kv => leaf2 (snd kv)) row) rows ->
  jdump_grid (S (S f)) ver meta cols rows = Ok j ->
  exists m, j = JObj m /\ jparse_grid (S (S g)) m = Ok (VGrid ver meta cols rows).
Proof. exact json_grid_roundtrip_2_0. Qed.
Example C02_version_2_0_exists : ver_any (s_ "2.0") true.
Proof. exact ver_any_2_0. Qed.

(* rows given as one value per column are canonical *)
Theorem C02_rows_canonical : forall (cols : list (str * list (str * hval))) cells,
  NoDup (map fst cols) -> length cells = length cols -> canon_row cols (combine (map fst cols) cells).
Proof. exact canon_combine. Qed.
(* non-vacuity: a concrete grid with metadata, column metadata and nested cells meets the hypotheses and round-trips *)
Example C02_grid_nonvacuous :
  let meta := [(s_ "dis", VStr (s_ "site")); (s_ "tags", VList [VMarker; VNA])] in
  let cols := [(s_ "a", [(s_ "unit", VStr (s_ "kW"))]); (s_ "b", [])] in
  let rows := [[(s_ "a", VStr (s_ "x")); (s_ "b", VDict [(s_ "k", VUri (s_ "u"))])]; [(s_ "a", VNull); (s_ "b", VBool true)]] in
  exists m, jdump_grid 9 (s_ "3.0") meta cols rows = Ok (JObj m) /\ jparse_grid 9 m = Ok (VGrid (s_ "3.0") meta cols rows).
Proof.
  intros meta cols rows.
  assert (Ex : exists j, jdump_grid 9 (s_ "3.0") meta cols rows = Ok j) by (eexists; vm_compute; reflexivity).
  destruct Ex as [j E].
  destruct (C02_plain_grid 4 8 (s_ "3.0") meta cols rows j) as [m [Ej Hm]]; try exact E.
  - eexists. split; [vm_compute; reflexivity|]. split; vm_compute; reflexivity.
  - discriminate.
  - repeat constructor; vm_compute; intuition discriminate.
  - vm_compute. intuition discriminate.
  - repeat constructor.
  - repeat constructor; vm_compute; intuition discriminate.
  - repeat constructor; try (vm_compute; intuition discriminate).
  - repeat constructor; try (vm_compute; intuition discriminate).
  - subst j. exists m. split; [exact E|exact Hm].
Qed.

Example C02_nested_applies :
  plain 4 (VList [VStr (s_ "a"); VDict [(s_ "k", VList [VMarker; VUri (s_ "u")]); (s_ "meta", VNA)]; VList []]).
Proof.
  cbn [plain]. repeat constructor.
  - intros [E|[]]. vm_compute in E. discriminate E.
  - intros [].
Qed.
Print Assumptions C02_grid.
Print Assumptions C02_plain_grid.
Print Assumptions C02_rows_canonical.
Print Assumptions C02_values.
Print Assumptions C02_full_grid.
Print Assumptions C02_grid_any_version.
Print Assumptions C02_grid_2_0.
