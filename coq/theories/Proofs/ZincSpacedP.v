(* Rows whose commas carry optional blanks, and blanks before the line end *)
From Coq Require Import String.
From Coq Require Import List NArith Bool Lia Arith.
From HS Require Import Base.Prelude Model.Value Model.Escape Model.Version Model.Json Model.ZincParse.
From HS Require Import Proofs.VersionP Proofs.EscapeP Proofs.JsonP Proofs.ZincParseP Proofs.ZincNumP Proofs.ZincListP Proofs.ZincGridP Proofs.ZincDictP.
Import ListNotations.
Open Scope N_scope.

(* a cell in a spaced row: a blanks, a comma, b blanks, the cell text *)
Definition sp_item := (nat * nat * str)%type.
Definition sp_text (i : sp_item) : str := let '(a, b, t) := i in (blanks a ++ 44 :: blanks b ++ t)%list.
Definition sp_more (its : list sp_item) : str := concat (map sp_text its).
Definition sp_cell (g : nat) (v : hval) (i : sp_item) : Prop := let '(a, b, t) := i in readsd g v t.

Lemma blanks_delim n r : delim (blanks n ++ 10 :: r).
Proof. destruct n; cbn [blanks repeat List.app]; right; eexists; eexists; (split; [reflexivity|cbn; tauto]). Qed.
Lemma sp_more_delim its k r : delim (sp_more its ++ blanks k ++ 10 :: r).
Proof.
  destruct its as [|[[a b] t] its]; cbn [sp_more map concat List.app]; [apply blanks_delim|].
  cbn [sp_text]. destruct a; cbn [blanks repeat List.app]; right; eexists; eexists; (split; [reflexivity|cbn; tauto]).
Qed.

Lemma cell_readsd g v t : readsd g v t -> forall rest, delim rest -> hs_cell (p_scalar (S g) true) (t ++ rest) = Some (Ok v, rest).
Proof.
  intros Hr rest Hd. destruct (reads_hd g v t (readsd_reads g v t Hr)) as [c [t' [E _]]]. unfold hs_cell, por. cbn [por_pick].
  rewrite (Hr rest Hd).
  assert (L : Nat.ltb (length rest) (length (t ++ rest)) = true) by (apply Nat.ltb_lt; subst t; rewrite app_length; cbn [length]; lia).
  rewrite L. reflexivity.
Qed.

Lemma sp_sep_item g v a b t rest : readsd g v t -> delim rest ->
  pthen value_sep (hs_cell (p_scalar (S g) true)) (blanks a ++ 44 :: blanks b ++ t ++ rest) = Some (Ok v, rest).
Proof.
  intros Hr Hd. destruct (reads_hd g v t (readsd_reads g v t Hr)) as [c [t' [E Hc]]]. destruct (nosp_hd c Hc) as [Hs _].
  unfold pthen, pmap, pand. rewrite (comma_with_blanks a b (t ++ rest)) by (subst t; exact Hs).
  rewrite (cell_readsd g v t Hr rest Hd). reflexivity.
Qed.

Lemma sp_stop {A} (p : parser A) k r : pthen value_sep p (blanks k ++ 10 :: r) = None.
Proof.
  unfold pthen, pmap, pand, value_sep, pthen, pmap, pand.
  assert (S1 : spaces (blanks k ++ 10 :: r) = Some (Ok tt, 10 :: r)).
  { unfold spaces, pmap, pspan. rewrite (span_all is_sp (blanks k) (10 :: r) (blanks_sp k) eq_refl). reflexivity. }
  rewrite S1. reflexivity.
Qed.

Lemma sp_len (its : list sp_item) : (length its <= length (sp_more its))%nat.
Proof.
  induction its as [|[[a b] t] its IH]; cbn [sp_more map concat length]; [lia|]. fold (sp_more its).
  rewrite app_length. cbn [sp_text]. rewrite app_length. cbn [length]. lia.
Qed.

Lemma sp_many g k r : forall vs its, Forall2 (sp_cell g) vs its -> forall fuel, (length its < fuel)%nat ->
  pmany_fuel fuel (pthen value_sep (hs_cell (p_scalar (S g) true))) (sp_more its ++ blanks k ++ 10 :: r) = (Ok vs, blanks k ++ 10 :: r).
Proof.
  induction 1 as [|v [[a b] t] vs its Hv _ IH]; intros fuel Hf.
  - cbn [sp_more map concat List.app]. destruct fuel as [|f]; [cbn in Hf; lia|]. cbn [pmany_fuel]. rewrite sp_stop. reflexivity.
  - destruct fuel as [|f]; [cbn in Hf; lia|]. cbn [sp_more map concat sp_text]. fold (sp_more its).
    rewrite <- !app_assoc. cbn [List.app]. rewrite <- !app_assoc. cbn [pmany_fuel].
    rewrite (sp_sep_item g v a b t (sp_more its ++ blanks k ++ 10 :: r) Hv (sp_more_delim its k r)).
    assert (L : Nat.ltb (length (sp_more its ++ blanks k ++ 10 :: r)) (length (blanks a ++ 44 :: blanks b ++ t ++ sp_more its ++ blanks k ++ 10 :: r)) = true).
    { apply Nat.ltb_lt. rewrite (app_length (blanks a)). cbn [length]. rewrite (app_length (blanks b)). rewrite (app_length t). lia. }
    rewrite L, (IH f) by (cbn in Hf; lia). reflexivity.
Qed.

(* a spaced row: first cell, further cells each after a comma with blanks around it, blanks, line feed *)
Definition sp_row_text (t : str) (its : list sp_item) (k : nat) : str := (t ++ sp_more its ++ blanks k ++ [10])%list.

Lemma sp_row_reads g v t vs its k r : readsd g v t -> Forall2 (sp_cell g) vs its ->
  hs_row (p_scalar (S g) true) (sp_row_text t its k ++ r) = Some (Ok (v :: vs), r).
Proof.
  intros Hv Hvs. unfold sp_row_text. rewrite <- !app_assoc. cbn [List.app].
  unfold hs_row, pbefore, pmap, pand, pdelimited, pmap, pand.
  rewrite (cell_readsd g v t Hv _ (sp_more_delim its k r)). unfold pmany.
  rewrite (sp_many g k r vs its Hvs) by (rewrite app_length; pose proof (sp_len its); lia).
  assert (E : pthen spaces nl (blanks k ++ 10 :: r) = Some (Ok tt, r)).
  { unfold pthen, pmap, pand.
    assert (S1 : spaces (blanks k ++ 10 :: r) = Some (Ok tt, 10 :: r)).
    { unfold spaces, pmap, pspan. rewrite (span_all is_sp (blanks k) (10 :: r) (blanks_sp k) eq_refl). reflexivity. }
    rewrite S1. reflexivity. }
  rewrite E. reflexivity.
Qed.

(* ---------- rows in any spelling the row rule reads ---------- *)
Definition row_spelled (g : nat) (cells : list hval) (rt : str) : Prop :=
  rt <> [] /\ forall r, hs_row (p_scalar (S g) true) (rt ++ r) = Some (Ok cells, r).

Lemma rows_any g : forall rows rts, Forall2 (row_spelled g) rows rts -> forall fuel, (length rts < fuel)%nat ->
  pmany_fuel fuel (hs_row (p_scalar (S g) true)) (concat rts) = (Ok rows, []).
Proof.
  induction 1 as [|cells rt rows rts [Hne Hr] _ IH]; intros fuel Hf.
  - destruct fuel as [|f]; [cbn in Hf; lia|]. cbn [concat pmany_fuel]. rewrite row_none_nil. reflexivity.
  - destruct fuel as [|f]; [cbn in Hf; lia|]. cbn [concat pmany_fuel]. rewrite (Hr (concat rts)).
    assert (L : Nat.ltb (length (concat rts)) (length (rt ++ concat rts)) = true).
    { apply Nat.ltb_lt. rewrite app_length. destruct rt; [contradiction|cbn [length]; lia]. }
    rewrite L, (IH f) by (cbn in Hf; lia). reflexivity.
Qed.

Lemma concat_len (rts : list str) : Forall (fun t => t <> []) rts -> (length rts <= length (concat rts))%nat.
Proof. induction 1 as [|t rts Ht _ IH]; cbn [concat length]; [lia|]. rewrite app_length. destruct t; [contradiction|cbn [length]; lia]. Qed.

(* plain and spaced rows are such spellings *)
Lemma row_spelled_plain g v t vs ts : reads g v t -> Forall2 (reads g) vs ts -> row_spelled g (v :: vs) (join [44] (t :: ts) ++ [10]).
Proof.
  intros Hv Hvs. split; [destruct (join [44] (t :: ts)); discriminate|]. intro r. rewrite <- app_assoc. cbn [List.app]. apply row_reads; assumption.
Qed.
Lemma row_spelled_spaced g v t vs its k : readsd g v t -> Forall2 (sp_cell g) vs its -> row_spelled g (v :: vs) (sp_row_text t its k).
Proof.
  intros Hv Hvs. split.
  - unfold sp_row_text. destruct (reads_hd g v t (readsd_reads g v t Hv)) as [c [t' [E _]]]. subst t. discriminate.
  - intro r. apply sp_row_reads; assumption.
Qed.

Theorem grid_reads_any_rows g names rows rts :
  names <> [] -> Forall colname names -> NoDup names ->
  Forall2 (fun cells rt => length cells = length names /\ row_spelled g cells rt) rows rts ->
  p_grid (S (S g)) true (header30 ++ join [44] names ++ 10 :: concat rts)
  = Some (Ok (VGrid V30 [] (map (fun n => (n, [])) names) (map (fun cells => combine names cells) rows)), []).
Proof.
  intros Hne Hnames Hnd Hrows. rewrite p_grid_unfold.
  set (sc := p_scalar (S g) true).
  destruct names as [|n ns]; [contradiction|]. inversion Hnames as [|? ? Hn Hns]; subst.
  assert (HC : g_cols sc (join [44] (n :: ns) ++ 10 :: concat rts) = Some (Ok (dict_of (map (fun x => (x, [])) (n :: ns))), concat rts)).
  { unfold g_cols. cbn [map].
    apply (cols_read (g_meta sc) (n, []) n (map (fun x => (x, [])) ns) ns (concat rts)); [split; [exact Hn|reflexivity]|].
    clear -Hns. induction Hns as [|x l Hx _ IH]; cbn [map]; constructor; [split; [exact Hx|reflexivity]|exact IH]. }
  assert (HR : pmany (hs_row sc) (concat rts) = Some (Ok rows, [])).
  { unfold pmany. rewrite (rows_any g rows rts); [reflexivity| |].
    - clear -Hrows. induction Hrows as [|cells rt rows rts [_ Hs] _ IH]; constructor; [exact Hs|exact IH].
    - assert (NE : Forall (fun t : str => t <> []) rts) by (clear -Hrows; induction Hrows as [|cells rt rows rts [_ [Hn _]] _ IH]; constructor; assumption).
      pose proof (concat_len rts NE). lia. }
  unfold pact. unfold pand at 1. rewrite header_reads. unfold pand. rewrite HC, HR.
  destruct ver30_facts as [pv [PV [P3 VS]]].
  unfold g_action. rewrite PV, P3. cbn [bind andb]. rewrite VS.
  assert (DC : dict_of (map (fun x : str => (x, @nil (str * hval))) (n :: ns)) = map (fun x => (x, [])) (n :: ns)).
  { apply dict_of_nodup. rewrite map_map. cbn [fst]. rewrite map_id. exact Hnd. }
  rewrite DC.
  assert (MF : map fst (map (fun x : str => (x, @nil (str * hval))) (n :: ns)) = n :: ns) by (rewrite map_map; cbn [fst]; apply map_id).
  rewrite MF.
  assert (RW : map (fun cells => dict_of (combine (n :: ns) cells)) rows = map (fun cells => combine (n :: ns) cells) rows).
  { clear -Hrows Hnd. induction Hrows as [|cells ts rows rts [Hl _] _ IH]; [reflexivity|]. cbn [map]. rewrite IH. f_equal.
    apply dict_of_nodup. rewrite map_fst_combine by (symmetry; exact Hl). exact Hnd. }
  rewrite RW. reflexivity.
Qed.

(* ---------- empty cells are nulls ---------- *)
Definition celle (g : nat) (v : hval) (t : str) : Prop := (t = [] /\ v = VNull) \/ reads g v t.

Lemma scalar_none_ns g rest : delim_ns rest -> p_scalar (S g) true rest = None.
Proof.
  intros [E|[c [r [E Hc]]]]; subst; [apply scalar_none_nil|]. apply scalar_none_delim. cbn [In] in *. tauto.
Qed.

Lemma celle_reads g v t : celle g v t -> forall rest, delim_ns rest -> hs_cell (p_scalar (S g) true) (t ++ rest) = Some (Ok v, rest).
Proof.
  intros [[Et Ev]|Hr] rest Hd; [|apply cell_reads; assumption]. subst t v. cbn [List.app]. unfold hs_cell, por. cbn [por_pick].
  rewrite (scalar_none_ns g rest Hd). reflexivity.
Qed.

Lemma e_sep_item g v t rest : celle g v t -> delim_ns rest ->
  pthen value_sep (hs_cell (p_scalar (S g) true)) (44 :: t ++ rest) = Some (Ok v, rest).
Proof.
  intros Hc Hd. pose proof (comma_with_blanks 0 0 (t ++ rest)) as V. cbn [blanks repeat List.app] in V.
  unfold pthen, pmap, pand. rewrite V.
  - rewrite (celle_reads g v t Hc rest Hd). reflexivity.
  - destruct Hc as [[Et _]|Hr].
    + subst t. cbn [List.app]. pose proof (ns_hd rest Hd) as Q. destruct rest as [|c r]; [exact I|]. destruct Q as [_ Q]. unfold is_sp. destruct (N.eqb_spec c 32); [contradiction|reflexivity].
    + destruct (reads_hd g v t Hr) as [c [t' [E Hc]]]. subst t. exact (proj1 (nosp_hd c Hc)).
Qed.

Lemma e_items_delim ts r : delim_ns (items_text ts ++ 10 :: r).
Proof. destruct ts as [|t ts]; cbn [items_text map concat List.app]; [apply lf_ns|apply delim_comma]. Qed.

Lemma e_many g r : forall vs ts, Forall2 (celle g) vs ts -> forall fuel, (length ts < fuel)%nat ->
  pmany_fuel fuel (pthen value_sep (hs_cell (p_scalar (S g) true))) (items_text ts ++ 10 :: r) = (Ok vs, 10 :: r).
Proof.
  induction 1 as [|v t vs ts Hvt _ IH]; intros fuel Hf.
  - cbn [items_text map concat List.app]. destruct fuel as [|f]; [cbn in Hf; lia|]. cbn [pmany_fuel]. rewrite sep_stop_lf. reflexivity.
  - destruct fuel as [|f]; [cbn in Hf; lia|]. cbn [items_text map concat List.app]. fold (items_text ts).
    rewrite <- app_assoc. cbn [pmany_fuel]. rewrite (e_sep_item g v t (items_text ts ++ 10 :: r) Hvt (e_items_delim ts r)).
    assert (L : Nat.ltb (length (items_text ts ++ 10 :: r)) (length (44 :: t ++ items_text ts ++ 10 :: r)) = true).
    { apply Nat.ltb_lt. cbn [length]. rewrite !app_length. cbn [length]. lia. }
    rewrite L, (IH f) by (cbn in Hf; lia). reflexivity.
Qed.

(* a row whose cells may be empty (a row of one empty cell would be an empty line: at least one cell is written) *)
Lemma row_spelled_empty_cells g v t vs ts : celle g v t -> Forall2 (celle g) vs ts -> join [44] (t :: ts) <> [] ->
  row_spelled g (v :: vs) (join [44] (t :: ts) ++ [10]).
Proof.
  intros Hv Hvs Hne. split; [destruct (join [44] (t :: ts)); [contradiction|discriminate]|]. intro r.
  rewrite <- app_assoc. cbn [List.app]. rewrite join_items, <- app_assoc.
  unfold hs_row, pbefore, pmap, pand, pdelimited, pmap, pand.
  rewrite (celle_reads g v t Hv _ (e_items_delim ts r)). unfold pmany.
  rewrite (e_many g r vs ts Hvs) by (rewrite app_length; pose proof (items_len ts); lia).
  assert (E : pthen spaces nl (10 :: r) = Some (Ok tt, r)) by reflexivity. rewrite E. reflexivity.
Qed.

(* rows ended by CR LF *)
Lemma cr_ns r : delim_ns (13 :: r).
Proof. right. eexists. eexists. split; [reflexivity|]. cbn; tauto. Qed.
Lemma sep_stop_cr {A} (p : parser A) r : pthen value_sep p (13 :: r) = None.
Proof. reflexivity. Qed.

Lemma row_spelled_crlf g v t vs ts : reads g v t -> Forall2 (reads g) vs ts -> row_spelled g (v :: vs) (join [44] (t :: ts) ++ [13; 10]).
Proof.
  intros Hv Hvs. split; [destruct (join [44] (t :: ts)); discriminate|]. intro r. rewrite <- app_assoc. cbn [List.app].
  unfold hs_row, pbefore, pmap, pand.
  rewrite (g_delimited (hs_cell (p_scalar (S g) true)) 13 (reads g) (cell_reads g) (cell_hd g) cr_ns (sep_stop_cr _) v t vs ts (10 :: r) Hv Hvs).
  assert (E : pthen spaces nl (13 :: 10 :: r) = Some (Ok tt, r)) by reflexivity. rewrite E. reflexivity.
Qed.
