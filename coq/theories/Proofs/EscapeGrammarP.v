(* The string and URI literals of the Haystack grammar as an inductive relation, written from the grammar description:
   a string is a double quote, any number of string characters, a double quote; a string character is a Unicode character
   (not a control character, not the quote, not a backslash) or one of the escapes backslash-b, -f, -n, -r, -t,
   backslash-quote, backslash-backslash, backslash-dollar, or backslash-u and four hexadecimal digits; a URI likewise
   between back quotes with its own escape letters.  The relation shares nothing with the reader model.  Every literal
   the writer model emits is in the relation. *)
From Coq Require Import Lia List NArith Bool.
From HS Require Import Base.Prelude Gen.EscapeData Model.Escape Proofs.PreludeP Proofs.EscapeP.
Import ListNotations.
Open Scope N_scope.

Inductive lit_body (quote : N) (letters : list N) : str -> Prop :=
| lb_nil : lit_body quote letters []
| lb_raw c r : 32 <= c -> c <> quote -> c <> BSL -> lit_body quote letters r -> lit_body quote letters (c :: r)
| lb_esc l r : In l letters -> lit_body quote letters r -> lit_body quote letters (BSL :: l :: r)
| lb_u a b c d r : is_hex a = true -> is_hex b = true -> is_hex c = true -> is_hex d = true ->
                   lit_body quote letters r -> lit_body quote letters (BSL :: 117 :: a :: b :: c :: d :: r).
Definition literal (quote : N) (letters : list N) (t : str) : Prop := exists e, t = quote :: e ++ [quote] /\ lit_body quote letters e.

Lemma memN_In c l : memN c l = true -> In c l.
Proof.
  induction l as [|x l IH]; cbn [memN]; [discriminate|]. intro H. apply orb_true_iff in H. destruct H as [H|H]; [left; apply N.eqb_eq in H; congruence|right; exact (IH H)].
Qed.

Lemma shape_body quote letters uri c e r : shape_ok quote letters uri c e = true -> lit_body quote letters r -> lit_body quote letters (e ++ r).
Proof.
  intros H Hr. unfold shape_ok in H.
  destruct e as [|x1 [|x2 [|x3 [|x4 [|x5 [|x6 [|x7 e]]]]]]]; try discriminate.
  - apply andb_true_iff in H as [H1 H2]. apply N.eqb_eq in H1. subst x1. apply negb_true_iff in H2.
    apply orb_false_iff in H2 as [H2 H3]. apply orb_false_iff in H2 as [H2 H4].
    cbn [app]. apply lb_raw; [apply N.ltb_ge; exact H2|apply N.eqb_neq; exact H3|apply N.eqb_neq; exact H4|exact Hr].
  - repeat (apply andb_true_iff in H as [H ?]). apply N.eqb_eq in H. subst x1.
    cbn [app]. apply lb_esc; [apply memN_In; assumption|exact Hr].
  - repeat (apply andb_true_iff in H as [H ?]). apply N.eqb_eq in H. subst x1.
    match goal with Hu : (x2 =? 117) = true |- _ => apply N.eqb_eq in Hu; subst x2 end.
    cbn [app]. apply lb_u; assumption.
Qed.

Lemma esc_all_body quote letters uri f :
  (forall c, exists e, f c = Ok e /\ shape_ok quote letters uri c e = true) ->
  forall s e, esc_all f s = Ok e -> lit_body quote letters e.
Proof.
  intros Hf. induction s as [|c s IH]; intros e H; cbn [esc_all] in H.
  - inversion H. constructor.
  - destruct (Hf c) as [ec [Ec Sc]]. rewrite Ec in H. cbn [bind] in H.
    destruct (esc_all f s) as [r|x] eqn:Er; cbn [bind] in H; [|discriminate]. inversion H; subst e.
    apply (shape_body quote letters uri c ec r Sc). apply IH. reflexivity.
Qed.

Theorem written_string_in_grammar s t : zdump_str s = Ok t -> literal DQ str_esc_letters t.
Proof.
  unfold zdump_str. destruct (escape_str s) as [e|x] eqn:E; cbn [bind]; [|discriminate]. intro H. inversion H; subst t.
  exists e. split; [reflexivity|]. exact (esc_all_body DQ str_esc_letters false esc_str_char every_char_str s e E).
Qed.
Theorem written_uri_in_grammar s t : zdump_uri s = Ok t -> literal BQ uri_esc_letters t.
Proof.
  unfold zdump_uri. destruct (escape_uri s) as [e|x] eqn:E; cbn [bind]; [|discriminate]. intro H. inversion H; subst t.
  exists e. split; [reflexivity|]. exact (esc_all_body BQ uri_esc_letters true esc_uri_char every_char_uri s e E).
Qed.

(* the relation is not trivially satisfied: a raw quote, a raw control character, a dangling backslash are outside it *)
Example grammar_excludes :
  ~ lit_body DQ str_esc_letters [34] /\ ~ lit_body DQ str_esc_letters [10] /\ ~ lit_body DQ str_esc_letters [92] /\
  ~ lit_body DQ str_esc_letters [92; 120] /\ lit_body DQ str_esc_letters [92; 110; 97; 92; 117; 48; 48; 101; 57].
Proof.
  repeat split.
  - intro H. inversion H; subst; unfold DQ, BSL in *; try congruence; try lia.
  - intro H. inversion H; subst; unfold DQ, BSL in *; try congruence; try lia.
  - intro H. inversion H; subst; unfold DQ, BSL in *; try congruence; try lia.
  - intro H. inversion H; subst; unfold DQ, BSL in *; try congruence; try lia.
    match goal with Hi : In _ str_esc_letters |- _ => cbn in Hi; intuition discriminate end.
  - apply lb_esc; [cbn; tauto|]. apply lb_raw; [lia|discriminate|discriminate|]. apply lb_u; try reflexivity. constructor.
Qed.
Print Assumptions written_string_in_grammar.
Print Assumptions written_uri_in_grammar.
