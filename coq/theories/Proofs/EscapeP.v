(* Proofs about Model/Escape.v: escaping is inverted by the reader, escaped
   text is contained in its quotes and holds no structural character
   (properties C08, C01, C04). *)
From Coq Require Import Lia ZifyBool.
From HS Require Import Base.Prelude Gen.EscapeData Model.Escape Proofs.PreludeP.
Open Scope N_scope.

(* ------------------------------------------------------------------ *)
(* checking a predicate for every code point below 2^bits, by binary splitting *)

Fixpoint all_below (bits : nat) (base : N) (f : N -> bool) : bool :=
  match bits with
  | O => f base
  | S b => all_below b (2 * base) f && all_below b (2 * base + 1) f
  end.

Lemma all_below_sound bits : forall base f,
  all_below bits base f = true ->
  forall c, base * 2 ^ N.of_nat bits <= c < (base + 1) * 2 ^ N.of_nat bits -> f c = true.
Proof.
  induction bits as [|b IH]; intros base f H c Hc.
  - simpl in *. assert (c = base) by lia. now subst.
  - simpl in H. apply andb_true_iff in H as [H1 H2].
    rewrite Nat2N.inj_succ, N.pow_succ_r' in Hc.
    destruct (N.lt_ge_cases c ((2 * base + 1) * 2 ^ N.of_nat b)) as [Hlt|Hge].
    + apply (IH (2 * base) f H1). lia.
    + apply (IH (2 * base + 1) f H2). lia.
Qed.

Lemma all_below_16 f : all_below 16 0 f = true -> forall c, c < 65536 -> f c = true.
Proof.
  intros H c Hc. apply (all_below_sound 16 0 f H). simpl. lia.
Qed.

(* ------------------------------------------------------------------ *)
(* the three shapes an escaped character can take *)

Definition shape_ok (quote : N) (letters : list N) (uri : bool) (c : N) (e : str) : bool :=
  match e with
  | [x] => (x =? c) && negb ((c <? 32) || (c =? BSL) || (c =? quote))
  | [b; l] =>
      (b =? BSL) && memN l letters && negb ((l =? 117) || (l =? 85)) && (32 <=? l)
      && list_eqb N.eqb (unesc_letter uri l) [c]
  | [b; u; a; b'; x; d] =>
      (b =? BSL) && (u =? 117) && negb (memN u letters)
      && is_hex a && is_hex b' && is_hex x && is_hex d
      && (hexval a * 4096 + hexval b' * 256 + hexval x * 16 + hexval d =? c)
  | _ => false
  end.

Lemma list_eqb_N_eq a b : list_eqb N.eqb a b = true -> a = b.
Proof.
  revert b; induction a as [|x a IH]; intros [|y b]; simpl; intros H; try discriminate; auto.
  apply andb_true_iff in H as [H1 H2]. apply N.eqb_eq in H1. subst. f_equal. auto.
Qed.

Lemma is_hex_ge a : is_hex a = true -> 32 <= a.
Proof. unfold is_hex. intros H. repeat (apply orb_true_iff in H as [H|H]); apply andb_true_iff in H as [H1 H2]; lia. Qed.

Lemma shape_sound quote letters uri c e :
  quote <> BSL -> 32 <= quote ->
  shape_ok quote letters uri c e = true ->
  (forall t, esc_char_match quote letters (e ++ t) = Some (e, t)) /\
  (forall t, unescape uri (e ++ t) = do r <- unescape uri t; Ok (c :: r)) /\
  e <> [] /\ (forall x, In x e -> 32 <= x).
Proof.
  intros Hq Hq32 H. unfold shape_ok in H.
  destruct e as [|x1 [|x2 [|x3 [|x4 [|x5 [|x6 [|x7 e]]]]]]]; try discriminate.
  - (* raw *)
    apply andb_true_iff in H as [H1 H2]. apply N.eqb_eq in H1. subst x1.
    apply negb_true_iff in H2. repeat split.
    + intros t. simpl. now rewrite H2.
    + intros t. simpl. apply orb_false_iff in H2 as [H2 _]. apply orb_false_iff in H2 as [_ H2]. now rewrite H2.
    + discriminate.
    + intros x [<-|[]]. apply orb_false_iff in H2 as [H2 _]. apply orb_false_iff in H2 as [H2 _]. lia.
  - (* backslash + letter *)
    repeat (apply andb_true_iff in H as [H ?]).
    apply N.eqb_eq in H. subst x1.
    match goal with Hl : list_eqb _ _ _ = true |- _ => apply list_eqb_N_eq in Hl; rename Hl into Hu end.
    match goal with Hn : negb _ = true |- _ => apply negb_true_iff in Hn; rename Hn into Hnu end.
    repeat split.
    + intros t. simpl. match goal with Hm : memN _ _ = true |- _ => now rewrite Hm end.
    + intros t. simpl. rewrite Hnu, Hu. reflexivity.
    + discriminate.
    + intros x [<-|[<-|[]]]; [unfold BSL; lia | lia].
  - (* backslash u hhhh *)
    repeat (apply andb_true_iff in H as [H ?]).
    apply N.eqb_eq in H. subst x1.
    match goal with Hu : (x2 =? 117) = true |- _ => apply N.eqb_eq in Hu; subst x2 end.
    match goal with Hv : (_ =? c) = true |- _ => apply N.eqb_eq in Hv; rename Hv into Hval end.
    match goal with Hn : negb _ = true |- _ => apply negb_true_iff in Hn; rename Hn into Hnl end.
    repeat split.
    + intros t. simpl. rewrite Hnl.
      repeat match goal with Hh : is_hex _ = true |- _ => rewrite Hh; clear Hh end. reflexivity.
    + intros t. simpl.
      repeat match goal with Hh : is_hex _ = true |- _ => rewrite Hh; clear Hh end. simpl. now rewrite Hval.
    + discriminate.
    + intros x [<-|[<-|[<-|[<-|[<-|[<-|[]]]]]]]; try (unfold BSL; lia); now apply is_hex_ge.
Qed.

(* ------------------------------------------------------------------ *)
(* every code point is escaped into one of the three shapes *)

Definition chk (quote : N) (letters : list N) (uri : bool) (f : N -> res str) (c : N) : bool :=
  match f c with Ok e => shape_ok quote letters uri c e | Raise _ => false end.

(* below 2^16: by evaluating the (regenerated) tables on every code point *)
Lemma sweep_str : all_below 16 0 (chk DQ str_esc_letters false esc_str_char) = true.
Proof. vm_compute. reflexivity. Qed.
Lemma sweep_uri : all_below 16 0 (chk BQ uri_esc_letters true esc_uri_char) = true.
Proof. vm_compute. reflexivity. Qed.

(* from 2^16 up: the tables do not reach that far, the character is written raw *)
Lemma in_ranges_bound B rs c :
  forallb (fun r => snd r <? B) rs = true -> B <= c -> in_ranges c rs = false.
Proof.
  induction rs as [|[lo hi] rs IH]; simpl; intros H Hc; auto.
  apply andb_true_iff in H as [H1 H2]. rewrite (IH H2 Hc), orb_false_r.
  apply andb_false_iff. right. lia.
Qed.

Lemma table_lookup_bound B t c :
  forallb (fun oe => fst oe <? B) t = true -> B <= c -> table_lookup c t = None.
Proof.
  induction t as [|[o e] t IH]; simpl; intros H Hc; auto.
  apply andb_true_iff in H as [H1 H2]. rewrite (IH H2 Hc).
  destruct (N.eqb_spec o c); [lia | reflexivity].
Qed.

Lemma high_str c : 65536 <= c -> esc_str_char c = Ok [c].
Proof.
  intros H. unfold esc_str_char, esc_char.
  rewrite (in_ranges_bound 65536 str_meta c) by (auto; vm_compute; reflexivity).
  now rewrite (table_lookup_bound 65536 str_sub_table c) by (auto; vm_compute; reflexivity).
Qed.
Lemma high_uri c : 65536 <= c -> esc_uri_char c = Ok [c].
Proof.
  intros H. unfold esc_uri_char, esc_char.
  rewrite (in_ranges_bound 65536 uri_meta c) by (auto; vm_compute; reflexivity).
  now rewrite (table_lookup_bound 65536 str_sub_table c) by (auto; vm_compute; reflexivity).
Qed.

Lemma every_char_str c : exists e, esc_str_char c = Ok e /\ shape_ok DQ str_esc_letters false c e = true.
Proof.
  destruct (N.lt_ge_cases c 65536) as [H|H].
  - pose proof (all_below_16 _ sweep_str c H) as Hc. unfold chk in Hc.
    destruct (esc_str_char c) as [e|]; [eauto | discriminate].
  - exists [c]. split; [now apply high_str|]. simpl. rewrite N.eqb_refl. simpl.
    apply negb_true_iff. unfold BSL, DQ. lia.
Qed.
Lemma every_char_uri c : exists e, esc_uri_char c = Ok e /\ shape_ok BQ uri_esc_letters true c e = true.
Proof.
  destruct (N.lt_ge_cases c 65536) as [H|H].
  - pose proof (all_below_16 _ sweep_uri c H) as Hc. unfold chk in Hc.
    destruct (esc_uri_char c) as [e|]; [eauto | discriminate].
  - exists [c]. split; [now apply high_uri|]. simpl. rewrite N.eqb_refl. simpl.
    apply negb_true_iff. unfold BSL, BQ. lia.
Qed.

(* ------------------------------------------------------------------ *)
(* whole strings, generic in the quote / letter set / character escaper *)

Section Whole.
  Variables (quote : N) (letters : list N) (uri : bool) (f : N -> res str).
  Hypothesis Hq : quote <> BSL.
  Hypothesis Hq32 : 32 <= quote.
  Hypothesis every : forall c, exists e, f c = Ok e /\ shape_ok quote letters uri c e = true.

  Lemma esc_all_total s : exists t, esc_all f s = Ok t.
  Proof.
    induction s as [|c s [t IH]]; simpl; eauto.
    destruct (every c) as [e [He _]]. rewrite He, IH. simpl. eauto.
  Qed.

  Lemma unescape_esc_all s : forall t, esc_all f s = Ok t -> unescape uri t = Ok s.
  Proof.
    induction s as [|c s IH]; simpl; intros t H.
    - inversion H; subst. reflexivity.
    - destruct (every c) as [e [He Hs]]. rewrite He in H. simpl in H.
      destruct (esc_all f s) as [r|] eqn:Er; [|discriminate]. simpl in H. inversion H; subst.
      destruct (shape_sound quote letters uri c e Hq Hq32 Hs) as [_ [Hu _]].
      rewrite Hu, (IH r eq_refl). reflexivity.
  Qed.

  Lemma stop_at_quote rest : esc_char_match quote letters (quote :: rest) = None.
  Proof.
    simpl. rewrite N.eqb_refl. rewrite !orb_true_r. simpl.
    destruct (N.eqb_spec quote BSL); [contradiction | reflexivity].
  Qed.

  Lemma loop_esc_all s : forall t, esc_all f s = Ok t ->
    forall rest fuel, (length t < fuel)%nat ->
    chars_loop fuel quote letters (t ++ quote :: rest) = (t, quote :: rest).
  Proof.
    induction s as [|c s IH]; simpl; intros t H rest fuel Hf.
    - inversion H; subst. destruct fuel; [lia|]. simpl app. cbn [chars_loop].
      now rewrite stop_at_quote.
    - destruct (every c) as [e [He Hs]]. rewrite He in H. simpl in H.
      destruct (esc_all f s) as [r|] eqn:Er; [|discriminate]. simpl in H. inversion H; subst.
      destruct (shape_sound quote letters uri c e Hq Hq32 Hs) as [Hm [_ [Hne _]]].
      destruct fuel; [lia|]. cbn [chars_loop]. rewrite <- app_assoc, Hm.
      rewrite app_length in Hf. assert (0 < length e)%nat by (destruct e; [contradiction | simpl; lia]).
      rewrite (IH r eq_refl rest fuel) by lia. reflexivity.
  Qed.

  Lemma all_ge32 s : forall t, esc_all f s = Ok t -> forall x, In x t -> 32 <= x.
  Proof.
    induction s as [|c s IH]; simpl; intros t H x Hx.
    - inversion H; subst. destruct Hx.
    - destruct (every c) as [e [He Hs]]. rewrite He in H. simpl in H.
      destruct (esc_all f s) as [r|] eqn:Er; [|discriminate]. simpl in H. inversion H; subst.
      destruct (shape_sound quote letters uri c e Hq Hq32 Hs) as [_ [_ [_ Hge]]].
      apply in_app_iff in Hx as [Hx|Hx]; [now apply Hge | eapply IH; eauto].
  Qed.

  (* quote ++ escaped ++ quote ++ rest is read back as exactly the string, leaving exactly rest *)
  Lemma quoted_roundtrip s t rest :
    esc_all f s = Ok t -> quoted quote letters uri (quote :: t ++ quote :: rest) = Some (Ok s, rest).
  Proof.
    intros H. unfold quoted. rewrite N.eqb_refl. unfold match_chars.
    rewrite (loop_esc_all s t H rest) by (rewrite app_length; simpl; lia).
    rewrite N.eqb_refl. now rewrite (unescape_esc_all s t H).
  Qed.
End Whole.

Lemma dq_ne : DQ <> BSL. Proof. discriminate. Qed.
Lemma bq_ne : BQ <> BSL. Proof. discriminate. Qed.
Lemma dq_32 : 32 <= DQ. Proof. unfold DQ; lia. Qed.
Lemma bq_32 : 32 <= BQ. Proof. unfold BQ; lia. Qed.
