(* Timestamp spellings: T or t, Z or z or a numeric offset, with or without a zone name *)
From Coq Require Import String.
From Coq Require Import List NArith Bool Lia Arith ZifyBool.
From HS Require Import Base.Prelude Model.Value Model.Escape Model.Version Model.Json Model.ZincParse.
From HS Require Import Proofs.VersionP Proofs.EscapeP Proofs.JsonP Proofs.ZincParseP Proofs.ZincNumP Proofs.ZincDateP Proofs.ZincDateTimeP.
Import ListNotations.
Open Scope N_scope.

(* the offset as spelled, and as the reader hands it on *)
Inductive ospell := OZ (c : N) | ONum (sg hh mm : N).
Definition ospell_ok (o : ospell) : Prop := match o with OZ c => c = 90 \/ c = 122 | ONum sg hh mm => off_ok sg hh mm end.
Definition ospell_text (o : ospell) : str := match o with OZ c => [c] | ONum sg hh mm => off_text sg hh mm end.
Definition ospell_val (o : ospell) : str := match o with OZ _ => [90] | ONum sg hh mm => off_text sg hh mm end.

Lemma p_offset_spelled o rest : ospell_ok o -> p_offset (ospell_text o ++ rest) = Some (Ok (ospell_val o), rest).
Proof.
  destruct o as [c|sg hh mm]; cbn [ospell_ok ospell_text ospell_val].
  - intros [E|E]; subst c; reflexivity.
  - apply p_offset_num.
Qed.
Lemma ospell_tstop o rest : ospell_ok o -> tstop (ospell_text o ++ rest).
Proof.
  destruct o as [c|sg hh mm]; cbn [ospell_ok ospell_text].
  - intros [E|E]; subst c; cbn; split; try reflexivity; discriminate.
  - apply off_tstop.
Qed.

Definition dts_text (y m d : N) (sep : N) (h mi s us : N) (o : ospell) : str := (iso_date y m d ++ sep :: iso_time h mi s us ++ ospell_text o)%list.
Definition dts_val (y m d h mi s us : N) (o : ospell) : str := (iso_date y m d ++ 84 :: iso_time h mi s us ++ ospell_val o)%list.
Definition dts_ok (y m d sep h mi s us : N) (o : ospell) : Prop :=
  valid_date y m d = true /\ (sep = 84 \/ sep = 116) /\ time_ok h mi s us /\ ospell_ok o.

Lemma ok_off_val o : ospell_ok o ->
  match Some (ospell_val o) with
  | Some (_ :: a :: b :: _ :: c :: e :: _) => int_of_digits [a; b] * 60 + int_of_digits [c; e] <? 1440
  | _ => true
  end = true.
Proof.
  destruct o as [c|sg hh mm]; cbn [ospell_ok ospell_val]; [reflexivity|]. intros [Hs [Hh [Hm Hlt]]].
  unfold off_text, d2. cbn [List.app].
  change [48 + (hh / 10) mod 10; 48 + hh mod 10] with (d2 hh). change [48 + (mm / 10) mod 10; 48 + mm mod 10] with (d2 mm).
  rewrite (int_d2 hh Hh), (int_d2 mm Hm). apply N.ltb_lt. exact Hlt.
Qed.

Lemma p_iso_datetime_spelled y m d sep h mi s us o rest : dts_ok y m d sep h mi s us o ->
  p_iso_datetime (dts_text y m d sep h mi s us o ++ rest) = Some (Ok (dts_val y m d h mi s us o), rest).
Proof.
  intros [Hv [Hsep [Ht Ho]]]. destruct (date_bounds y m d Hv) as [By [Bm Bd]].
  unfold dts_text. rewrite <- !app_assoc. cbn [List.app]. rewrite <- !app_assoc.
  set (P := pand p_date_str (pand (pchar (fun c => (c =? 84) || (c =? 116))) (pand p_time_str (popt p_offset)))).
  assert (Q : P (iso_date y m d ++ sep :: iso_time h mi s us ++ ospell_text o ++ rest)
            = Some (Ok ((d4 y, d2 m, d2 d), (sep, ((d2 h, d2 mi, d2 s, if us =? 0 then None else Some (d6 us)), Some (ospell_val o)))), rest)).
  { eapply pand_ok; [apply p_date_str_iso; assumption|]. eapply pand_ok.
    - unfold pchar. destruct Hsep; subst sep; reflexivity.
    - eapply pand_ok; [apply p_time_str_gen; [exact Ht|apply ospell_tstop; exact Ho]|].
      apply popt_ok. apply p_offset_spelled. exact Ho. }
  unfold p_iso_datetime. fold P. unfold pact. rewrite Q. cbv beta iota zeta. rewrite time_text_iso.
  destruct Ht as [Hh [Hm [Hs Hu]]].
  rewrite (int_d4 y By), (int_d2 m Bm), (int_d2 d Bd), (int_d2 h ltac:(lia)), (int_d2 mi ltac:(lia)), (int_d2 s ltac:(lia)), Hv.
  assert (B : (h <=? 23) && (mi <=? 59) && (s <=? 59) = true) by (rewrite !andb_true_iff; repeat split; apply N.leb_le; assumption).
  cbn [andb]. apply andb_true_iff in B. destruct B as [B B3]. apply andb_true_iff in B. destruct B as [B1 B2]. rewrite B1, B2, B3. cbn [andb].
  rewrite (ok_off_val o Ho). unfold dts_val, date_text. rewrite <- !app_assoc. cbn [List.app]. reflexivity.
Qed.

(* with or without a zone name *)
Definition ztext (zn : option str) : str := match zn with Some n => 32 :: n | None => [] end.
Definition zone_ok (zn : option str) (rest : str) : Prop := match zn with Some n => tzname_ok n /\ delim rest | None => delim_ns rest end.

Lemma delim_ns_delim rest : delim_ns rest -> delim rest.
Proof. intros [E|[c [r [E H]]]]; [left; exact E|right; exists c, r; split; [exact E|]]. cbn [In] in *. tauto. Qed.

Lemma p_datetime_spelled y m d sep h mi s us o zn rest : dts_ok y m d sep h mi s us o -> zone_ok zn rest ->
  p_datetime (dts_text y m d sep h mi s us o ++ ztext zn ++ rest) = Some (Ok (VDateTimeRaw (dts_val y m d h mi s us o) zn), rest).
Proof.
  intros Hok Hz. unfold p_datetime.
  assert (A : p_iso_datetime (dts_text y m d sep h mi s us o ++ ztext zn ++ rest) = Some (Ok (dts_val y m d h mi s us o), ztext zn ++ rest))
    by (apply p_iso_datetime_spelled; exact Hok).
  assert (B : popt (pthen (plit [32]) p_timezone_name) (ztext zn ++ rest) = Some (Ok zn, rest)).
  { destruct zn as [n|]; cbn [ztext zone_ok List.app] in *.
    - destruct Hz as [Hn Hd]. apply popt_ok. unfold pthen, pmap, pand.
      assert (L : plit [32] (32 :: n ++ rest) = Some (Ok tt, n ++ rest)) by reflexivity.
      rewrite L, (p_tzname_reads n rest Hn (delim_zstop rest Hd)). reflexivity.
    - unfold popt, pthen, pmap, pand. destruct Hz as [E|[c [r [E Hc]]]]; subst rest; [reflexivity|].
      dl Hc; reflexivity. }
  unfold pmap, pand. rewrite A, B. reflexivity.
Qed.

Theorem scalar_datetime_spelled f v3 y m d sep h mi s us o zn rest : dts_ok y m d sep h mi s us o -> zone_ok zn rest ->
  p_scalar (S f) v3 (dts_text y m d sep h mi s us o ++ ztext zn ++ rest) = Some (Ok (VDateTimeRaw (dts_val y m d h mi s us o) zn), rest).
Proof.
  intros Hok Hz. pose proof (p_datetime_spelled y m d sep h mi s us o zn rest Hok Hz) as PDT.
  destruct Hok as [Hv [Hsep [Ht Ho]]]. destruct (date_bounds y m d Hv) as [By [Bm Bd]].
  set (tail := (sep :: iso_time h mi s us ++ ospell_text o ++ ztext zn ++ rest)%list).
  assert (TX : (dts_text y m d sep h mi s us o ++ ztext zn ++ rest)%list = (iso_date y m d ++ tail)%list).
  { unfold dts_text, tail. rewrite <- !app_assoc. cbn [List.app]. rewrite <- !app_assoc. reflexivity. }
  rewrite TX in *.
  assert (PD : p_date (iso_date y m d ++ tail) = Some (Ok (VDate y m d), tail)) by (apply date_p_date; exact Hv).
  assert (PN : p_number (iso_date y m d ++ tail) = Some (Ok (VNum NkFin (d4 y) (d4 y) None), 45 :: d2 m ++ 45 :: d2 d ++ tail)).
  { unfold iso_date. rewrite <- !app_assoc. cbn [List.app]. apply p_number_digits; [apply d4_digs| |reflexivity]. cbn. repeat split; discriminate. }
  assert (PX : p_xstr (iso_date y m d ++ tail) = None).
  { unfold iso_date. rewrite <- !app_assoc. cbn [List.app]. apply p_xstr_none; [apply digs_not40; exact (proj2 (d4_digs y))|]. split; [reflexivity|discriminate]. }
  assert (PT : p_time (iso_date y m d ++ tail) = None).
  { unfold iso_date, d4. cbn [List.app]. apply four_digs_no_time; apply adig_mod. }
  assert (L1 : Nat.le (length rest) (length tail)).
  { unfold tail. cbn [length]. rewrite !app_length. lia. }
  assert (L2 : Nat.le (length rest) (length (45 :: d2 m ++ 45 :: d2 d ++ tail))).
  { cbn [length]. rewrite !app_length. cbn [length]. rewrite !app_length. lia. }
  clearbody tail. revert PDT PD PN PX PT L2. unfold iso_date, d4. cbn [List.app].
  pose proof (adig_mod (y / 1000)) as Ha. set (a := 48 + (y / 1000) mod 10) in *.
  set (tl := (48 + (y / 100) mod 10 :: 48 + (y / 10) mod 10 :: 48 + y mod 10 :: 45 :: d2 m ++ 45 :: d2 d ++ tail)).
  set (nrest := (45 :: d2 m ++ 45 :: d2 d ++ tail)).
  clearbody tl nrest. clearbody a.
  dcases Ha; intros PDT PD PN PX PT L2; cbn [p_scalar]; destruct v3; cbv zeta; unfold scalars_2_0, por.
  all: try (rewrite por_pick_skip by reflexivity; rewrite por_pick_skip by exact PX; do 3 rewrite por_pick_skip by reflexivity;
            erewrite por_pick_start by exact PDT;
            erewrite por_pick_keep by first [exact PD | exact L1];
            rewrite por_pick_skip by exact PT; rewrite por_pick_skip by reflexivity;
            erewrite por_pick_keep by first [exact PN | exact L2];
            apply por_pick_rest_none; repeat (apply Forall_cons; [reflexivity|]); apply Forall_nil).
  all: (do 4 rewrite por_pick_skip by reflexivity;
        erewrite por_pick_start by exact PDT;
        erewrite por_pick_keep by first [exact PD | exact L1];
        rewrite por_pick_skip by exact PT; rewrite por_pick_skip by reflexivity;
        erewrite por_pick_keep by first [exact PN | exact L2];
        apply por_pick_rest_none; repeat (apply Forall_cons; [reflexivity|]); apply Forall_nil).
Qed.

(* premises can be met: lower-case t and z, no zone *)
Example spelled_example : p_scalar 3 true (s_ "2020-02-29t23:59:59.500000z,") = Some (Ok (VDateTimeRaw (s_ "2020-02-29T23:59:59.500000Z") None), s_ ",").
Proof.
  assert (H := scalar_datetime_spelled 2 true 2020 2 29 116 23 59 59 500000 (OZ 122) None (s_ ",")).
  assert (E1 : (dts_text 2020 2 29 116 23 59 59 500000 (OZ 122) ++ ztext None ++ s_ ",")%list = s_ "2020-02-29t23:59:59.500000z,") by (vm_compute; reflexivity).
  assert (E2 : dts_val 2020 2 29 23 59 59 500000 (OZ 122) = s_ "2020-02-29T23:59:59.500000Z") by (vm_compute; reflexivity).
  rewrite E1, E2 in H. apply H.
  - repeat split; try reflexivity; try (right; reflexivity); vm_compute; try lia; try discriminate.
  - right. exists 44, []. split; [reflexivity|cbn; tauto].
Qed.
Print Assumptions scalar_datetime_spelled.

(* a zone name the ZINC grammar reads is one the JSON date-time pattern reads *)
Lemma tzrest_char c : is_tzname_rest c = true -> is_tzname_char c = true.
Proof. unfold is_tzname_rest, is_tzname_char, is_alpha, is_ascii_digit. intro H. lia. Qed.
Lemma tzname_ok_json zn : tzname_ok zn -> zn <> [] /\ forallb is_tzname_char zn = true.
Proof.
  intros [E|H]; [subst; split; [discriminate|reflexivity]|].
  destruct zn as [|c r]; [contradiction|]. destruct H as [Hu [_ [_ Hr]]]. split; [discriminate|].
  cbn [forallb]. apply andb_true_iff. split.
  - unfold is_upper in Hu. unfold is_tzname_char. lia.
  - clear -Hr. induction Hr as [|x l Hx _ IH]; [reflexivity|]. cbn [forallb]. rewrite (tzrest_char x Hx), IH. reflexivity.
Qed.
