"""C10 - version gating: a pre-3.0 grid never carries 3.0-only data, in memory or on the wire.

Theorems: coq/theories/Props/C10.v (Model/Gate.v: Grid's validators as a state machine
over real values; the isinstance list of Grid._detect_or_validate and the if/elif
ladders of both dumpers are regenerated from the source on every run).
Tie: (1) the regenerated kind tables vs the implementation probed with one value of
every kind; (2) lock-step histories of stores, model vs hszinc.Grid, observing the
version, the exception and the presence of 3.0-only data after every step; (3) the
writer / reader models vs the implementation on gated grids and documents.
Search on the implementation: the invariant after every step, upgrade, refusal with
unchanged state, both writers, both readers, and agreement of the five decisions on
official and non-official version strings."""
import copy
import json
import random

import codec
from common import Sym

COMPONENTS = ['gate', 'version', 'json', 'escape']

VERSIONS = [None, '2.0', '3.0', '2.5', '3.0.0', '1.0', '4.0']
MORE_VERSIONS = ['2.9', '2', '3', '0.5', '10.0', '3.1', '2.0.1', '2.99', '3.0a', '2.0b']
KIND_NAMES = ['null', 'na', 'marker', 'remove', 'list', 'dict', 'bool', 'ref', 'bin', 'xstr', 'uri', 'str', 'datetime', 'time', 'date', 'coord',
              'qty', 'num', 'grid']


def sample_of_kind(h, k):
    import datetime
    import pytz
    if k == 'grid':
        g = h.Grid(version='3.0')
        g.column['a'] = {}
        g.append({'a': 1.0})
        return g
    return {
        'null': None, 'na': h.NA, 'marker': h.MARKER, 'remove': h.REMOVE, 'list': [1.0, 'x'], 'dict': {'a': 1.0}, 'bool': True,
        'ref': h.Ref('r1'), 'bin': h.Bin('text/plain'), 'xstr': h.XStr('hex', 'deadbeef'), 'uri': h.Uri('http://x/'), 'str': 'text',
        'datetime': pytz.utc.localize(datetime.datetime(2020, 1, 2, 3, 4, 5)), 'time': datetime.time(1, 2, 3), 'date': datetime.date(2020, 1, 2),
        'coord': h.Coordinate(1.5, -2.5), 'qty': h.Quantity(2.0, 'kg'), 'num': 3.0,
    }[k]


def is_v3(h, v):
    """the property's list: NA, list, dict, nested grid, extended string"""
    from hszinc.sortabledict import SortableDict
    return v is h.NA or isinstance(v, (list, dict, SortableDict, h.XStr, h.Grid))


def holds_v3(h, g):
    for v in g.metadata.values():
        if is_v3(h, v):
            return True
    for c, m in g.column.items():
        if hasattr(m, 'values'):
            for v in m.values():
                if is_v3(h, v):
                    return True
    for row in g:
        for v in row.values():
            if is_v3(h, v):
                return True
    return False


def pre3(ver):
    """the reference decision: the nearest official version is below 3.0 (what the property calls 'a pre-3.0 version',
    extended to non-official strings the way Grid does)"""
    from hszinc.version import Version, VER_3_0
    return Version.nearest(Version(ver)) < VER_3_0


def enc_tags(d):
    return [[k, codec.enc_value(v)] for k, v in d.items()]


def gen_value(rng, h, want_v3=None):
    if want_v3 is None:
        want_v3 = rng.random() < 0.4
    if want_v3:
        return sample_of_kind(h, rng.choice(['na', 'list', 'dict', 'xstr', 'grid']))
    return sample_of_kind(h, rng.choice(['null', 'marker', 'remove', 'bool', 'ref', 'bin', 'uri', 'str', 'date', 'time', 'coord', 'qty', 'num']))


def gen_row(rng, h, p=None):
    return {k: gen_value(rng, h, p if i == 0 else (False if p is False else None)) for i, k in enumerate(rng.sample(['a', 'b', 'c'], rng.randint(1, 3)))}


def gen_op(rng, h):
    k = rng.choice(['meta', 'colmeta', 'colmeta', 'colset', 'coladd', 'colshare', 'append', 'append', 'insert', 'setitem', 'extend'])
    if k == 'colshare':
        return ('colshare', rng.choice(['c0', 'c1']), rng.choice([None, '3.0', '2.0', '2.5']), {t: gen_value(rng, h, False) for t in rng.sample(['k1', 'k2', 'k3'], rng.randint(0, 2))})
    if k == 'meta':
        return ('meta', rng.choice(['m1', 'm2']), gen_value(rng, h))
    if k == 'colmeta':
        return ('colmeta', rng.choice(['c0', 'c1']), rng.choice(['k1', 'k2']), gen_value(rng, h))
    if k in ('colset', 'coladd'):
        return (k, rng.choice(['c0', 'c1']), {t: gen_value(rng, h) for t in rng.sample(['k1', 'k2', 'k3'], rng.randint(0, 2))})
    if k == 'append':
        return ('append', gen_row(rng, h))
    if k in ('insert', 'setitem'):
        return (k, rng.choice([0, 1, -1, 5, -7]), gen_row(rng, h))
    return ('extend', [gen_row(rng, h) for _ in range(rng.randint(0, 3))])


def op_values(op):
    if op[0] == 'meta':
        return [op[2]]
    if op[0] == 'colmeta':
        return [op[3]]
    if op[0] in ('colset', 'coladd'):
        return list(op[2].values())
    if op[0] == 'colshare':
        return list(op[3].values())
    if op[0] == 'append':
        return list(op[1].values())
    if op[0] in ('insert', 'setitem'):
        return list(op[2].values())
    return [v for r in op[1] for v in r.values()]


def enc_op(op):
    if op[0] == 'meta':
        return [Sym('meta'), op[1], codec.enc_value(op[2])]
    if op[0] == 'colmeta':
        return [Sym('colmeta'), op[1], op[2], codec.enc_value(op[3])]
    if op[0] in ('colset', 'coladd'):
        return [Sym(op[0]), op[1], enc_tags(op[2])]
    if op[0] == 'colshare':
        return [Sym('colset'), op[1], enc_tags(op[3])]
    if op[0] == 'append':
        return [Sym('append'), enc_tags(op[1])]
    if op[0] in ('insert', 'setitem'):
        return [Sym(op[0]), op[1], enc_tags(op[2])]
    return [Sym('extend'), [enc_tags(r) for r in op[1]]]


def apply_op(h, g, op):
    if op[0] == 'meta':
        g.metadata[op[1]] = op[2]
    elif op[0] == 'colmeta':
        g.column[op[1]][op[2]] = op[3]
    elif op[0] == 'colset':
        g.column[op[1]] = dict(op[2])
    elif op[0] == 'coladd':
        g.column.add_item(op[1], dict(op[2]))
    elif op[0] == 'colshare':
        # the metadata object of a column of ANOTHER grid (bound to that grid's validator) is stored here
        src = h.Grid(version=op[2]) if op[2] is not None else h.Grid()
        src.column[op[1]] = dict(op[3])
        g.column[op[1]] = src.column[op[1]]
    elif op[0] == 'append':
        g.append(dict(op[1]))
    elif op[0] == 'insert':
        g.insert(op[1], dict(op[2]))
    elif op[0] == 'setitem':
        g[op[1]] = dict(op[2])
    else:
        g.extend([dict(r) for r in op[1]])


def describe(ver, ops):
    return {'version': ver, 'ops': [repr(o)[:300] for o in ops]}


def run_history(ctx, h, ver, ops):
    """implementation trace + the search; returns the list of observations, or None after reporting a violation"""
    g = h.Grid(version=ver) if ver is not None else h.Grid()
    obs = []
    for n, op in enumerate(ops):
        before = codec.canon(g)
        was_pre3 = pre3(str(g.version))
        exc = None
        try:
            apply_op(h, g, op)
        except Exception as e:  # noqa
            exc = e
        vs = op_values(op)
        any_v3 = any(is_v3(h, v) for v in vs)
        rep = dict(describe(ver, ops[:n + 1]), step=n)
        now_pre3 = pre3(str(g.version))
        has = holds_v3(h, g)
        if now_pre3 and has:
            ctx.violation('impl-counterexample', 'a grid whose version %s is pre-3.0 holds a 3.0-only value after %s' % (g.version, op[0]), rep)
            return None
        if exc is not None and not isinstance(exc, (ValueError, KeyError, IndexError, TypeError)):
            ctx.violation('impl-counterexample', 'a store raised %s' % type(exc).__name__, rep)
            return None
        single = op[0] != 'extend' and not (op[0] == 'colmeta' and isinstance(exc, KeyError))
        if ver is not None and was_pre3 and any_v3 and single:
            if not isinstance(exc, ValueError) or isinstance(exc, (KeyError,)):
                ctx.violation('impl-counterexample', 'a grid with the explicit version %s accepted a 3.0-only value through %s (%s)'
                              % (ver, op[0], type(exc).__name__ if exc else 'no exception'), rep)
                return None
            if codec.canon(g) != before:
                ctx.violation('impl-counterexample', 'a refused store (%s) changed the grid' % op[0], rep)
                return None
        if ver is None and any_v3 and exc is None and str(g.version) != '3.0':
            ctx.violation('impl-counterexample', 'an unversioned grid reports %s after a 3.0-only value was stored through %s' % (g.version, op[0]), rep)
            return None
        if ver is None and any_v3 and isinstance(exc, ValueError) and single:
            ctx.violation('impl-counterexample', 'an unversioned grid refused a 3.0-only value (%s)' % op[0], rep)
            return None
        obs.append((str(g.version), codec.exc_class(exc) if exc else 'none', len(g), has))
    return g, obs


def model_obs(ans):
    out = []
    for a in ans:
        ver, res, n, has = a
        out.append((ver, 'none' if (isinstance(res, list) and str(res[0]) == 'ok') else str(res[1]), int(n), str(has) == 'true'))
    return out


def zinc_doc(ver, construct):
    return 'ver:"%s"\na,b\n1,%s\n' % (ver, construct)


ZINC_V3 = ['NA', '[1,2]', '[]', '{a:1}', '{}', '<<ver:"3.0"\nx\n1\n>>', 'Foo("bar")', 'hex("00")']
ZINC_PLAIN = ['N', 'M', '"s"', '1', '`u`', '@r', 'T', 'C(1.0,2.0)', '2020-01-01', 'Bin(text/plain)']
JSON_V3 = ['z:', [1, 2], [], {'a': 'n:1'}, {}, {'meta': {'ver': '3.0'}, 'cols': [{'name': 'x'}], 'rows': []}, 'x:Foo:bar', 'x:hex:00']
JSON_PLAIN = [None, 'm:', 's:s', 'n:1', 'u:u', 'r:r', True, 'c:1.0,2.0', 'd:2020-01-01', 'b:text/plain']


def run(ctx):
    h = codec.H()
    rng = random.Random(ctx.seed + 10)
    thorough = ctx.tier == 'thorough' or ctx.escalate
    import warnings
    warnings.simplefilter('ignore')
    from hszinc.version import Version
    ctx.coverage['rule'] = ('histories of 1-6 stores (grid metadata, column metadata through the MetadataObject and as a raw dict, add_item, append, insert, setitem, extend) '
                            'with values of all 19 kinds x declared version in {none, 2.0, 3.0, 2.5, 3.0.0, 1.0, 4.0}; every (kind, store, version) combination once (exhaustive) '
                            'plus random histories; writers and readers on every (3.0-only construct, position, version, format); agreement on %d further version strings; '
                            'distinct by history' % len(MORE_VERSIONS))

    # ---- 1. the regenerated tables vs the implementation, kind by kind
    table = ctx.model.ask([[Sym('gate-kinds')]])[0]
    for k, row in zip(KIND_NAMES, table):
        m_grid, m_z, m_j = [str(x) == 'true' for x in row]
        v = sample_of_kind(h, k)
        g = h.Grid(version='2.0')
        try:
            g.append({'a': v})
            i_grid = False
        except ValueError:
            i_grid = True
        i_w = []
        for mode in (h.MODE_ZINC, h.MODE_JSON):
            try:
                h.dump_scalar(v, mode=mode, version=Version('2.0'))
                i_w.append(False)
            except ValueError:
                i_w.append(True)
        ctx.coverage['traces_validated_against_impl'] += 1
        if (m_grid, m_z, m_j) != (i_grid, i_w[0], i_w[1]):
            ctx.coverage['disagreements_checked'] += 1
            ctx.violation('correspondence-broken', 'kind %s: the regenerated tables say (grid, zinc writer, json writer) refuse = %r, the implementation %r'
                          % (k, (m_grid, m_z, m_j), (i_grid, i_w[0], i_w[1])), {'kind': k, 'component': 'gate-kinds'})
        want = k in ('na', 'list', 'dict', 'xstr', 'grid')
        if (i_grid, i_w[0], i_w[1]) != (want, want, want):
            ctx.violation('impl-counterexample', 'under version 2.0 a value of kind %s is %s by Grid, %s by the ZINC writer, %s by the JSON writer'
                          % (k, *['refused' if x else 'accepted' for x in (i_grid, i_w[0], i_w[1])]), {'kind': k, 'version': '2.0'})
            return

    # ---- 1b. instances of SUBCLASSES of the 3.0-only container kinds are 3.0-only values too (isinstance, as both writers test):
    # every store of a pre-3.0 grid refuses them, an unversioned grid reports 3.0 once it holds one, both writers refuse them under 2.0
    import collections

    class _L(list):
        pass

    class _D(dict):
        pass

    def subs():
        from hszinc.sortabledict import SortableDict
        sd = SortableDict()
        sd['k'] = 1.0
        dd = collections.defaultdict(list)
        dd['k'] = 1.0
        return [('list subclass', _L([1.0])), ('empty list subclass', _L()), ('dict subclass', _D(k=1.0)), ('OrderedDict', collections.OrderedDict(k=1.0)),
                ('defaultdict', dd), ('SortableDict', sd), ('empty OrderedDict', collections.OrderedDict())]
    paths = {'metadata store': lambda g, v: g.metadata.__setitem__('m', v),
             'column metadata store': lambda g, v: g.column['c0'].__setitem__('k', v),
             'column added with metadata': lambda g, v: g.column.__setitem__('c1', {'k': v}),
             'append': lambda g, v: g.append({'c0': v}),
             'insert': lambda g, v: g.insert(0, {'c0': v}),
             'item assignment': lambda g, v: g.__setitem__(0, {'c0': v}),
             'extend': lambda g, v: g.extend([{'c0': 1.0}, {'c0': v}])}
    for name, _ in subs():
        for pname, store in paths.items():
            for ver in ('2.0', '1.0', None):
                v = dict(subs())[name]
                g = h.Grid(version=ver) if ver else h.Grid()
                g.column['c0'] = {}
                g.append({'c0': 1.0})
                ctx.coverage['evaluations'] += 1
                ctx.count('subclass-store')
                try:
                    store(g, v)
                    outcome = 'accepted'
                except ValueError:
                    outcome = 'refused'
                except Exception as e:  # noqa
                    outcome = 'raises ' + type(e).__name__
                rep = {'value': name, 'store': pname, 'version': ver}
                if ver is not None and outcome != 'refused':
                    ctx.violation('impl-counterexample', 'a grid of version %s: %s of a value that is a %s is %s (a 3.0-only kind: it must be refused with ValueError)'
                                  % (ver, pname, name, outcome), rep)
                    return
                if ver is None and (outcome != 'accepted' or str(g.version) != '3.0'):
                    ctx.violation('impl-counterexample', 'a grid created without version: after %s of a value that is a %s (%s) it reports version %s, not 3.0'
                                  % (pname, name, outcome, g.version), rep)
                    return
        for mode in (h.MODE_ZINC, h.MODE_JSON):
            v = dict(subs())[name]
            ctx.coverage['evaluations'] += 1
            try:
                h.dump_scalar(v, mode=mode, version=Version('2.0'))
                ctx.violation('impl-counterexample', 'the %s writer accepts a %s under version 2.0' % (mode, name), {'value': name, 'mode': str(mode)})
                return
            except Exception:  # noqa - ValueError for list / dict subclasses; a SortableDict is no value the writers know (NotImplementedError): nothing is written either way
                pass

    # ---- 2. histories
    histories = []
    stores = ['meta', 'colmeta', 'colset', 'coladd', 'append', 'insert', 'setitem', 'extend']     # + 'colshare' histories below
    for ver in VERSIONS:
        for k in KIND_NAMES:
            v = lambda: sample_of_kind(h, k)
            for st in stores:
                pre = [('coladd', 'c0', {}), ('append', {'a': 1.0})]
                if st == 'meta':
                    op = ('meta', 'm1', v())
                elif st == 'colmeta':
                    op = ('colmeta', 'c0', 'k1', v())
                elif st in ('colset', 'coladd'):
                    op = (st, 'c1', {'k0': 'plain', 'k1': v()})
                elif st == 'append':
                    op = ('append', {'a': 'plain', 'b': v()})
                elif st in ('insert', 'setitem'):
                    op = (st, 0, {'a': v(), 'b': 2.0})
                else:
                    op = ('extend', [{'a': 1.0}, {'a': v()}, {'a': 2.0}])
                histories.append((ver, pre + [op, ('append', {'z': 'after'})]))
            for sv in (None, '3.0', '2.0'):
                histories.append((ver, [('colshare', 'c0', sv, {'k0': 'plain'}), ('colmeta', 'c0', 'k1', v()), ('append', {'a': 1.0})]))
    for _ in range(40000 if thorough else 700):
        histories.append((rng.choice(VERSIONS), [gen_op(rng, h) for _ in range(rng.randint(1, 6))]))
    cmds = []
    impl_obs = []
    finals = []
    for ver, ops in histories:
        ctx.coverage['evaluations'] += 1
        r = run_history(ctx, h, ver, ops)
        if r is None:
            return
        g, obs = r
        impl_obs.append(obs)
        finals.append(g)
        cmds.append([Sym('gate-run'), ver if ver is not None else Sym('none')] + [enc_op(o) for o in ops])
        ctx.count('version:%s' % ver)
        for o in ops:
            ctx.count('store:' + o[0])
    answers = ctx.model.ask_parallel(cmds)
    for (ver, ops), a, b in zip(histories, answers, impl_obs):
        ctx.coverage['traces_validated_against_impl'] += 1
        try:
            ma = model_obs(a)
        except Exception:  # noqa
            ma = repr(a)[:300]
        if ma != b:
            ctx.coverage['disagreements_checked'] += 1
            ctx.violation('correspondence-broken', 'gate model and hszinc.Grid differ on a history: model %r, implementation %r' % (ma, b),
                          dict(describe(ver, ops), component='gate-run'))
            break
    ctx.coverage['distinct_nontrivial'] = len(set((v, repr(o)) for v, o in histories))

    # ---- 2b. stores of a row object the grid already holds (aliases): the caller edited the row in place (a store into a
    # caller-owned object, which the grid cannot see) and then stores THAT object through the grid - this store is judged like any other
    def alias_store(g, how):
        row = g[0]
        if how == 'setitem-same':
            g[0] = row
        elif how == 'setitem-other':
            g[1] = row
        elif how == 'swap':
            g[0], g[1] = g[1], g[0]
        elif how == 'reverse':
            g.reverse()
        elif how == 'insert':
            g.insert(1, row)
        elif how == 'append':
            g.append(row)
        elif how == 'extend':
            g.extend([row])
        else:
            g += [row]
    for ver in VERSIONS + MORE_VERSIONS[:4]:
        for k in KIND_NAMES:
            for how in ('setitem-same', 'setitem-other', 'swap', 'reverse', 'insert', 'append', 'extend', 'iadd'):
                g = h.Grid(version=ver) if ver is not None else h.Grid()
                g.column['a'] = {}
                g.append({'a': 1.0})
                g.append({'a': 2.0})
                v = sample_of_kind(h, k)
                g[0]['b'] = v                     # in place, behind the grid's back
                ctx.coverage['evaluations'] += 1
                ctx.count('alias-store:' + how)
                exc = None
                try:
                    alias_store(g, how)
                except Exception as e:  # noqa
                    exc = e
                rep = {'version': ver, 'kind': k, 'how': how,
                       'python': "g=Grid(version=%r); g.append({'a':1.0}); g.append({'a':2.0}); g[0]['b']=<%s>; then %s with the row object g[0]" % (ver, k, how)}
                if not is_v3(h, v):
                    if exc is not None:
                        ctx.violation('impl-counterexample', 'storing a row the grid already holds (%s) raised %s' % (how, type(exc).__name__), rep)
                        return
                    continue
                if ver is not None and pre3(ver):
                    if not isinstance(exc, ValueError):
                        ctx.violation('impl-counterexample', 'a grid with the explicit version %s accepted a row holding a %s through %s of a row object it already holds (%s)'
                                      % (ver, k, how, type(exc).__name__ if exc else 'no exception'), rep)
                        return
                elif exc is not None:
                    ctx.violation('impl-counterexample', 'a grid of version %s refused a row holding a %s (%s, %s)' % (ver, k, how, type(exc).__name__), rep)
                    return
                elif ver is None and str(g.version) != '3.0':
                    ctx.violation('impl-counterexample', 'an unversioned grid reports %s after a row holding a %s was stored through %s (a row object it already holds)'
                                  % (g.version, k, how), rep)
                    return

    # ---- 3. what the histories built can be written (both formats) and read back, and is not pre-3.0 with 3.0-only data
    for (ver, ops), g in list(zip(histories, finals))[:(12000 if thorough else 600)]:
        if not len(g.column):
            continue
        for mode in (h.MODE_ZINC, h.MODE_JSON):
            try:
                t = h.dump(g, mode=mode)
            except Exception as e:  # noqa
                ctx.violation('impl-counterexample', 'a grid built through the mutators (version %s) cannot be dumped as %s: %s: %s'
                              % (g.version, mode, type(e).__name__, str(e)[:80]), describe(ver, ops))
                return
            try:
                back = h.parse(t, mode=mode)
            except Exception as e:  # noqa
                ctx.violation('impl-counterexample', 'the %s dump of a grid built through the mutators (version %s) is rejected by the reader: %s'
                              % (mode, g.version, type(e).__name__), dict(describe(ver, ops), dumped=t[:1500]))
                return
            if pre3(str(back.version)) and holds_v3(h, back):
                ctx.violation('impl-counterexample', 'a parse result labelled %s holds 3.0-only data' % back.version, dict(describe(ver, ops), dumped=t[:1500]))
                return

    # ---- 4. writers on grids that hold 3.0-only data under each version (rows injected behind the mutators for pre-3.0 versions)
    wcmds, wexp = [], []
    for ver in [v for v in VERSIONS if v] + MORE_VERSIONS:
        try:
            p3 = pre3(ver)
        except Exception:  # noqa
            continue
        for k in ('na', 'list', 'dict', 'xstr', 'grid'):
            for where in ('cell', 'gmeta', 'cmeta'):
                g = h.Grid(version=ver)
                g.column['a'] = {}
                g.column['b'] = {}
                v = sample_of_kind(h, k)
                if where == 'cell':
                    g._row.append({'a': 1.0, 'b': v})
                elif where == 'gmeta':
                    g._row.append({'a': 1.0})
                    g.metadata._values['m'] = v
                    g.metadata._order.append('m')
                else:
                    g._row.append({'a': 1.0})
                    g.column['b']._values['m'] = v
                    g.column['b']._order.append('m')
                for mode in (h.MODE_ZINC, h.MODE_JSON):
                    ctx.coverage['evaluations'] += 1
                    ctx.count('writer:%s' % mode)
                    try:
                        t = h.dump(g, mode=mode)
                        res = 'ok'
                    except ValueError:
                        res = 'ValueError'
                    except Exception as e:  # noqa
                        res = type(e).__name__
                    rep = {'version': ver, 'kind': k, 'where': where, 'mode': mode}
                    if p3 and res != 'ValueError':
                        ctx.violation('impl-counterexample', 'the %s writer %s a %s in %s of a grid of version %s'
                                      % (mode, 'emitted' if res == 'ok' else 'raised %s for' % res, k, where, ver), rep)
                        return
                    if not p3 and res != 'ok':
                        ctx.violation('impl-counterexample', 'the %s writer refused (%s) a %s in %s of a grid of version %s, which Grid accepts' % (mode, res, k, where, ver), rep)
                        return
                    wcmds.append([Sym('zdump' if mode == h.MODE_ZINC else 'jdump'), codec.enc_grid(g)])
                    wexp.append((res, rep))
    for a, (res, rep) in zip(ctx.model.ask_parallel(wcmds), wexp):
        ctx.coverage['traces_validated_against_impl'] += 1
        m = 'ok' if str(a[0]) == 'ok' else str(a[1])
        if m != res:
            ctx.coverage['disagreements_checked'] += 1
            ctx.violation('correspondence-broken', 'writer model says %s, implementation %s' % (m, res), dict(rep, component='writers'))
            break

    # ---- 5. readers
    zt, jt, rexp = [], [], []
    for ver in [v for v in VERSIONS if v] + MORE_VERSIONS:
        try:
            p3 = pre3(ver)
        except Exception:  # noqa
            continue
        docs = []
        for c in ZINC_V3 + ZINC_PLAIN:
            v3 = c in ZINC_V3
            docs.append((h.MODE_ZINC, 'ver:"%s"\na,b\n1,%s\n' % (ver, c), v3, 'cell'))
            docs.append((h.MODE_ZINC, 'ver:"%s" m:%s\na\n1\n' % (ver, c), v3, 'gmeta'))
            docs.append((h.MODE_ZINC, 'ver:"%s"\na m:%s\n1\n' % (ver, c), v3, 'cmeta'))
        for c in JSON_V3 + JSON_PLAIN:
            v3 = c in JSON_V3
            docs.append((h.MODE_JSON, json.dumps({'meta': {'ver': ver}, 'cols': [{'name': 'a'}, {'name': 'b'}], 'rows': [{'a': 'n:1', 'b': c}]}), v3, 'cell'))
            docs.append((h.MODE_JSON, json.dumps({'meta': {'ver': ver, 'm': c}, 'cols': [{'name': 'a'}], 'rows': [{'a': 'n:1'}]}), v3, 'gmeta'))
            docs.append((h.MODE_JSON, json.dumps({'meta': {'ver': ver}, 'cols': [{'name': 'a', 'm': c}], 'rows': [{'a': 'n:1'}]}), v3, 'cmeta'))
        for mode, text, v3, where in docs:
            ctx.coverage['evaluations'] += 1
            ctx.count('reader:%s' % mode)
            rep = {'version': ver, 'mode': mode, 'document': text, 'where': where}
            try:
                g = h.parse(text, mode=mode)
                res = 'ok'
            except ValueError:
                res = 'ValueError'
            except Exception as e:  # noqa
                res = type(e).__name__
            if res == 'ok' and pre3(str(g.version)) and holds_v3(h, g):
                ctx.violation('impl-counterexample', 'the %s reader returned a grid labelled %s that holds 3.0-only data (%s)' % (mode, g.version, where), rep)
                return
            if v3 and p3 and res == 'ok':
                ctx.violation('impl-counterexample', 'the %s reader accepted a 3.0-only construct in %s under version %s' % (mode, where, ver), rep)
                return
            if (not p3 or not v3) and res != 'ok':
                ctx.violation('impl-counterexample', 'the %s reader rejected (%s) a document of version %s that %s' % (mode, res, ver, 'Grid accepts' if v3 else 'holds no 3.0-only data'), rep)
                return
            if res not in ('ok', 'ValueError'):
                ctx.violation('impl-counterexample', 'the %s reader raised %s' % (mode, res), rep)
                return
            (zt if mode == h.MODE_ZINC else jt).append((text, res, rep))
    for a, (text, res, rep) in zip(ctx.model.ask_parallel([[Sym('zparse'), t] for t, _, _ in zt]), zt):
        ctx.coverage['traces_validated_against_impl'] += 1
        m = 'ok' if str(a[0]) == 'ok' else 'ValueError'
        if m != res:
            ctx.coverage['disagreements_checked'] += 1
            ctx.violation('correspondence-broken', 'ZINC reader model says %s, implementation %s' % (m, res), dict(rep, component='zparse'))
            break
    for a, (text, res, rep) in zip(ctx.model.ask_parallel([[Sym('jparse'), codec.json_to_wire(json.loads(t))] for t, _, _ in jt]), jt):
        ctx.coverage['traces_validated_against_impl'] += 1
        m = 'ok' if str(a[0]) == 'ok' else str(a[1])
        if m != res:
            ctx.coverage['disagreements_checked'] += 1
            ctx.violation('correspondence-broken', 'JSON reader model says %s, implementation %s' % (m, res), dict(rep, component='jparse'))
            break

    # ---- 5b. the scalar entry points of both readers take the same decision as the document readers
    for ver in [v for v in VERSIONS if v] + MORE_VERSIONS:
        try:
            p3 = pre3(ver)
        except Exception:  # noqa
            continue
        cases = [(h.MODE_ZINC, c, c in ZINC_V3, 'text') for c in ZINC_V3 + ZINC_PLAIN]
        for c in JSON_V3 + JSON_PLAIN:
            cases.append((h.MODE_JSON, c, c in JSON_V3, 'decoded'))
            cases.append((h.MODE_JSON, json.dumps(c), c in JSON_V3, 'text'))
        for mode, c, v3, form in cases:
            ctx.coverage['evaluations'] += 1
            ctx.count('scalar-reader:%s' % mode)
            rep = {'version': ver, 'mode': mode, 'scalar': c if isinstance(c, str) else json.dumps(c), 'form': form}
            try:
                val = h.parse_scalar(copy.deepcopy(c), mode=mode, version=ver)
                res = 'ok'
            except ValueError:
                res = 'ValueError'
            except Exception as e:  # noqa
                res = type(e).__name__
            if p3 and v3 and res == 'ok':
                ctx.violation('impl-counterexample', 'the %s scalar reader accepted the 3.0-only construct %s (%s) under version %s' % (mode, rep['scalar'][:60], form, ver), rep)
                return
            if not (p3 and v3) and res != 'ok':
                ctx.violation('impl-counterexample', 'the %s scalar reader refused (%s) %s under version %s' % (mode, res, rep['scalar'][:60], ver), rep)
                return

    # ---- 6. the five decisions agree, version by version
    for ver in [v for v in VERSIONS if v] + MORE_VERSIONS:
        try:
            Version(ver)
        except Exception:  # noqa
            continue
        dec = {}
        g = h.Grid(version=ver)
        try:
            g.append({'a': h.NA})
            dec['Grid'] = False
        except ValueError:
            dec['Grid'] = True
        for mode, name in ((h.MODE_ZINC, 'ZINC writer'), (h.MODE_JSON, 'JSON writer')):
            try:
                h.dump_scalar([1.0], mode=mode, version=Version(ver))
                dec[name] = False
            except ValueError:
                dec[name] = True
        try:
            h.parse('ver:"%s"\na\nNA\n' % ver, mode=h.MODE_ZINC)
            dec['ZINC reader'] = False
        except ValueError:
            dec['ZINC reader'] = True
        try:
            h.parse(json.dumps({'meta': {'ver': ver}, 'cols': [{'name': 'a'}], 'rows': [{'a': 'z:'}]}), mode=h.MODE_JSON)
            dec['JSON reader'] = False
        except ValueError:
            dec['JSON reader'] = True
        ctx.coverage['evaluations'] += 1
        if len(set(dec.values())) != 1:
            ctx.violation('impl-counterexample', 'for the declared version %s the accept / refuse decisions differ: %r (True = refuses 3.0-only data)' % (ver, dec),
                          {'version': ver, 'decisions': dec})
            return
    ctx.sample({'version': '2.5', 'judged pre-3.0': pre3('2.5'), 'history': "append {'a': NA}", 'outcome': 'accepted (nearest official version is 3.0)'})


def replay(ctx, data):
    print('replay:', json.dumps(data, default=str)[:1500])
    run(ctx)
