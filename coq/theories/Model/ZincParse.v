(* Model of hszinc/zincparser.py: the pyparsing grammar, rule by rule, with
   pyparsing's semantics for the combinators the grammar uses (every element
   leaves whitespace alone):
     Or          - longest match wins, the earliest alternative on a tie;
                   alternatives are measured without running parse actions
     And         - sequence, no backtracking into a completed element
     ZeroOrMore  - greedy, no backtracking
     Optional, Combine, Suppress, Group, DelimitedList, Forward
   and of parser.parse / parse_grid / parse_scalar around it (version sniffing,
   grammar selection by nearest version, expandtabs, parseAll with trailing
   whitespace, the catch-all that turns everything into ZincParseException).
   A parser returns None for "no match" (ParseException) and otherwise the
   remaining input together with the value or the exception its parse actions
   raise; matching never depends on parse actions, as in the grammar.
   Conversions the grammar leaves to CPython (float(), XStr decoding,
   iso8601 + pytz) are left to the harness: the model returns the exact text.
   Executable definitions only. *)
From Coq Require Import String.
From HS Require Import Base.Prelude Model.Value Model.Escape Model.Version Model.Json.
Open Scope N_scope.

Definition parser (A : Type) := str -> option (res A * str).

Definition pmap {A B} (f : A -> B) (p : parser A) : parser B :=
  fun t => match p t with
           | Some (Ok a, r) => Some (Ok (f a), r)
           | Some (Raise e, r) => Some (Raise e, r)
           | None => None
           end.
(* a parse action that may raise *)
Definition pact {A B} (f : A -> res B) (p : parser A) : parser B :=
  fun t => match p t with
           | Some (Ok a, r) => Some (f a, r)
           | Some (Raise e, r) => Some (Raise e, r)
           | None => None
           end.
(* And([p, q]) *)
Definition pand {A B} (p : parser A) (q : parser B) : parser (A * B) :=
  fun t => match p t with
           | None => None
           | Some (ra, t1) =>
               match q t1 with
               | None => None
               | Some (rb, t2) =>
                   Some (match ra, rb with
                         | Ok a, Ok b => Ok (a, b)
                         | Raise e, _ => Raise e
                         | _, Raise e => Raise e
                         end, t2)
               end
           end.
Definition pthen {A B} (p : parser A) (q : parser B) : parser B := pmap snd (pand p q).
Definition pbefore {A B} (p : parser A) (q : parser B) : parser A := pmap fst (pand p q).

Definition popt {A} (p : parser A) : parser (option A) :=
  fun t => match p t with
           | Some (Ok a, r) => Some (Ok (Some a), r)
           | Some (Raise e, r) => Some (Raise e, r)
           | None => Some (Ok None, t)
           end.

(* Or: longest match, first on ties *)
Fixpoint por_pick {A} (best : option (res A * str)) (ps : list (parser A)) (t : str) : option (res A * str) :=
  match ps with
  | [] => best
  | p :: ps' =>
      match p t with
      | None => por_pick best ps' t
      | Some (r, rest) =>
          match best with
          | Some (_, brest) => if Nat.ltb (length rest) (length brest) then por_pick (Some (r, rest)) ps' t
                               else por_pick best ps' t
          | None => por_pick (Some (r, rest)) ps' t
          end
      end
  end.
Definition por {A} (ps : list (parser A)) : parser A := por_pick None ps.

(* ZeroOrMore *)
Fixpoint pmany_fuel {A} (fuel : nat) (p : parser A) (t : str) : res (list A) * str :=
  match fuel with
  | O => (Ok [], t)
  | S f =>
      match p t with
      | None => (Ok [], t)
      | Some (r, t1) =>
          if Nat.ltb (length t1) (length t) then
            let '(rs, t2) := pmany_fuel f p t1 in
            (match r, rs with
             | Ok a, Ok l => Ok (a :: l)
             | Raise e, _ => Raise e
             | _, Raise e => Raise e
             end, t2)
          else (Ok [], t)      (* no progress: cannot happen for the grammar's elements *)
      end
  end.
Definition pmany {A} (p : parser A) : parser (list A) :=
  fun t => Some (pmany_fuel (S (length t)) p t).

(* DelimitedList(p, delim) = p (delim p)* *)
Definition pdelimited {A B} (p : parser A) (d : parser B) : parser (list A) :=
  pmap (fun x => fst x :: snd x) (pand p (pmany (pthen d p))).

Definition plit (s : str) : parser unit :=
  fun t => match strip_prefix s t with Some r => Some (Ok tt, r) | None => None end.
Definition pchar (f : N -> bool) : parser N :=
  fun t => match t with c :: r => if f c then Some (Ok c, r) else None | [] => None end.
Definition pspan (f : N -> bool) : parser str := fun t => let '(a, b) := span f t in Some (Ok a, b).
Definition pspan1 (f : N -> bool) : parser str :=
  fun t => let '(a, b) := span f t in match a with [] => None | _ => Some (Ok a, b) end.

Definition is_sp (c : N) : bool := c =? 32.
Definition spaces : parser unit := pmap (fun _ => tt) (pspan is_sp).
(* hs_valueSep = Regex(' *, *') *)
Definition value_sep : parser unit := pthen spaces (pthen (plit [44]) spaces).
(* hs_nl *)
Definition nl : parser unit :=
  fun t => match hd_is 13 t with
           | Some r => match hd_is 10 r with Some r' => Some (Ok tt, r') | None => None end
           | None => match hd_is 10 t with Some r' => Some (Ok tt, r') | None => None end
           end.
(* Regex('[ *]'): ONE character, a blank or an asterisk *)
Definition blank_or_star : parser unit := pmap (fun _ => tt) (pchar (fun c => (c =? 32) || (c =? 42))).

Definition is_alpha (c : N) : bool := ((65 <=? c) && (c <=? 90)) || ((97 <=? c) && (c <=? 122)).
Definition is_ascii_digit (c : N) : bool := (48 <=? c) && (c <=? 57).
Definition is_upper (c : N) : bool := (65 <=? c) && (c <=? 90).

(* hs_id *)
Definition is_id_rest (c : N) : bool := is_alpha c || is_ascii_digit c || (c =? 95).
Definition p_id : parser str :=
  fun t => match t with
           | c :: r => if (97 <=? c) && (c <=? 122) then let '(a, b) := span is_id_rest r in Some (Ok (c :: a), b) else None
           | [] => None
           end.

(* quoted strings and URIs: Model/Escape.v *)
Definition p_str : parser str := hs_str.
Definition p_uri : parser str := hs_uri.

(* hs_ref *)
Definition is_zref_char (c : N) : bool := is_alpha c || is_digit c || memN c [95; 58; 45; 46; 126].
Definition p_ref : parser hval :=
  pmap (fun x => VRef (fst x) (snd x))
       (pthen (plit [64]) (pand (pspan is_zref_char) (popt (pthen (plit [32]) p_str)))).

(* hs_bin *)
Definition is_bin_char (c : N) : bool := ((32 <=? c) && (c <=? 39)) || ((42 <=? c) && (c <=? 127)).
Definition p_bin : parser hval :=
  pmap VBin (pthen (plit (s_ "Bin(")) (pbefore (pspan is_bin_char) (plit [41]))).

(* hs_xstr *)
Definition is_xname_char (c : N) : bool := is_alpha c || is_ascii_digit c || (c =? 95).
Definition p_xstr : parser hval :=
  pmap (fun x => VXStr (fst x) (snd x))
       (pand (pspan1 is_xname_char) (pthen (plit [40]) (pbefore p_str (plit [41])))).

(* ---- dates and times ---- *)
Definition p_date_str : parser (str * str * str) :=
  fun t => match four_digits t with
           | Some (y, t0) =>
             match hd_is 45 t0 with
             | Some t1 =>
               match two_digits t1 with
               | Some (m, t1') =>
                 match hd_is 45 t1' with
                 | Some t2 => match two_digits t2 with Some (d, t3) => Some (Ok (y, m, d), t3) | None => None end
                 | None => None
                 end
               | None => None
               end
             | None => None
             end
           | None => None
           end.

(* hh:mm:ss[.digits]: (hh, mm, ss, fraction digits) *)
Definition p_time_str : parser (str * str * str * option str) :=
  fun t => match two_digits t with
           | Some (hh, t0) =>
             match hd_is 58 t0 with
             | Some t1 =>
               match two_digits t1 with
               | Some (mm, t1') =>
                 match hd_is 58 t1' with
                 | Some t2 =>
                   match two_digits t2 with
                   | Some (ss, t3) =>
                       match hd_is 46 t3 with
                       | Some t4 => let '(fr, t5) := span is_digit t4 in
                                    match fr with
                                    | [] => Some (Ok (hh, mm, ss, None), t3)
                                    | _ => Some (Ok (hh, mm, ss, Some fr), t5)
                                    end
                       | None => Some (Ok (hh, mm, ss, None), t3)
                       end
                   | None => None
                   end
                 | None => None
                 end
               | None => None
               end
             | None => None
             end
           | None => None
           end.

Definition time_text (x : str * str * str * option str) : str :=
  let '(hh, mm, ss, fr) := x in
  hh ++ 58 :: mm ++ 58 :: ss ++ match fr with Some f => 46 :: f | None => [] end.
Definition date_text (x : str * str * str) : str := let '(y, m, d) := x in y ++ 45 :: m ++ 45 :: d.

(* hs_date: strptime(..., '%Y-%m-%d').date() *)
Definition p_date : parser hval :=
  pact (fun x => let '(y, m, d) := x in
                 let '(y, m, d) := (int_of_digits y, int_of_digits m, int_of_digits d) in
                 if valid_date y m d then Ok (VDate y m d) else Raise ValueError) p_date_str.

(* hs_time: strptime(..., '%H:%M:%S[.%f]').time(); %f takes 1 to 6 digits *)
Definition p_time : parser hval :=
  pact (fun x => let '(hh, mm, ss, fr) := x in
                 let '(h, mi, s) := (int_of_digits hh, int_of_digits mm, int_of_digits ss) in
                 match fr with
                 | Some f => if Nat.ltb 6 (length f) then Raise ValueError
                             else if (h <=? 23) && (mi <=? 59) && (s <=? 59) then Ok (VTime h mi s (usec_of f)) else Raise ValueError
                 | None => if (h <=? 23) && (mi <=? 59) && (s <=? 59) then Ok (VTime h mi s 0) else Raise ValueError
                 end) p_time_str.

(* hs_tzHHMMOffset, upper-cased *)
Definition p_offset : parser str :=
  por [ pmap (fun _ => [90]) (pchar (fun c => (c =? 122) || (c =? 90)));
        pmap (fun x => fst x :: snd x)
             (pand (pchar (fun c => (c =? 43) || (c =? 45)))
                   (fun t => match two_digits t with
                             | Some (a, t1) => match hd_is 58 t1 with
                                               | Some t2 => match two_digits t2 with
                                                            | Some (b, t3) => Some (Ok (a ++ 58 :: b), t3)
                                                            | None => None
                                                            end
                                               | None => None
                                               end
                             | None => None
                             end)) ].

(* hs_isoDateTime: the text handed to iso8601.parse_date after .upper(); parse_date raises
   ParseError (a ValueError) for impossible dates, times and offsets of a day or more *)
Definition p_iso_datetime : parser str :=
  pact (fun x => let '(d, (_, (tm, off))) := x in
                 let '(y, m, dd) := d in
                 let '(hh, mm, ss, fr) := tm in
                 let ok_off := match off with
                               | Some (_ :: a :: b :: _ :: c :: e :: _) =>
                                   int_of_digits [a; b] * 60 + int_of_digits [c; e] <? 1440
                               | _ => true
                               end in
                 if valid_date (int_of_digits y) (int_of_digits m) (int_of_digits dd)
                    && (int_of_digits hh <=? 23) && (int_of_digits mm <=? 59) && (int_of_digits ss <=? 59) && ok_off
                 then Ok (date_text d ++ 84 :: time_text tm ++ match off with Some o => o | None => [] end)
                 else Raise ValueError)
       (pand p_date_str (pand (pchar (fun c => (c =? 84) || (c =? 116))) (pand p_time_str (popt p_offset)))).

(* hs_timeZoneName = Or([hs_tzUTCOffset, hs_tzName]) *)
Definition is_tzname_rest (c : N) : bool := is_alpha c || is_ascii_digit c || (c =? 95) || (c =? 45).
Definition p_tz_utc_offset : parser str :=
  pmap (fun x => fst x ++ match snd x with Some s => s | None => [] end)
       (pand (por [pmap (fun _ => s_ "UTC") (plit (s_ "UTC")); pmap (fun _ => s_ "GMT") (plit (s_ "GMT"))])
             (popt (por [ pmap (fun _ => [48]) (plit [48]);
                          pmap (fun x => fst x :: snd x)
                               (pand (pchar (fun c => (c =? 43) || (c =? 45))) (pspan1 is_digit)) ]))).
Definition p_tz_name : parser str :=
  fun t => match t with
           | c :: r => if is_upper c then let '(a, b) := span is_tzname_rest r in Some (Ok (c :: a), b) else None
           | [] => None
           end.
Definition p_timezone_name : parser str := por [p_tz_utc_offset; p_tz_name].

(* hs_dateTime *)
Definition p_datetime : parser hval :=
  pmap (fun x => VDateTimeRaw (fst x) (snd x))
       (pand p_iso_datetime (popt (pthen (plit [32]) p_timezone_name))).

(* ---- numbers ---- *)
(* hs_digits = Regex('[0-9_]+') with the underscores removed by its parse action *)
Definition is_digit_us (c : N) : bool := is_ascii_digit c || (c =? 95).
Definition p_digits : parser str :=
  pmap (fun s => filter (fun c => negb (c =? 95)) s) (pspan1 is_digit_us).

(* float(text) raises ValueError unless the mantissa has a digit (and the exponent, if any, too) *)
Definition has_any (o : option str) : bool := match o with Some (_ :: _) => true | _ => false end.

(* hs_coordDeg: float(toks[0] or '0') *)
Definition p_coord_deg : parser str :=
  pact (fun x => let '(sg, (ip, fp)) := x in
                 let txt := (match sg with Some _ => [45] | None => [] end)
                            ++ (match ip with Some d => d | None => [] end)
                            ++ (match fp with Some d => 46 :: d | None => [] end) in
                 match txt with
                 | [] => Ok [48]
                 | _ => if has_any ip || has_any fp then Ok txt else Raise ValueError
                 end)
       (pand (popt (plit [45])) (pand (popt p_digits) (popt (pthen (plit [46]) p_digits)))).
Definition p_coord : parser hval :=
  pmap (fun x => VCoord (fst x) (snd x))
       (pthen (plit (s_ "C(")) (pand p_coord_deg (pthen value_sep (pbefore p_coord_deg (plit [41]))))).

(* hs_exp: 'e', sign, digits (possibly none left once the underscores are removed) *)
Definition p_exp : parser (str * bool) :=
  pmap (fun x => (101 :: (match fst (snd x) with Some c => [c] | None => [] end) ++ snd (snd x),
                  match snd (snd x) with [] => false | _ => true end))
       (pand (pchar (fun c => (c =? 101) || (c =? 69)))
             (pand (popt (pchar (fun c => (c =? 43) || (c =? 45)))) p_digits)).
(* hs_decimal: float(toks[0]) *)
Definition p_decimal : parser str :=
  pact (fun x => let '(sg, (ip, (fp, ex))) := x in
                 let txt := (match sg with Some _ => [45] | None => [] end) ++ ip
                            ++ (match fp with Some d => 46 :: d | None => [] end)
                            ++ (match ex with Some e => fst e | None => [] end) in
                 if (has_any (Some ip) || has_any fp) && (match ex with Some e => snd e | None => true end)
                 then Ok txt else Raise ValueError)
       (pand (popt (plit [45])) (pand p_digits (pand (popt (pthen (plit [46]) p_digits)) (popt p_exp)))).

(* hs_unitChar: a letter, or one of % _ / $, or U+0080 .. U+FFFE *)
Definition is_unit_char (c : N) : bool :=
  is_alpha c || (c =? 37) || (c =? 95) || (c =? 47) || (c =? 36) || ((128 <=? c) && (c <=? 65534)).
Definition p_unit : parser str := pspan1 is_unit_char.

Definition p_number : parser hval :=
  por [ pmap (fun x => VNum NkFin (fst x) (fst x) (Some (snd x))) (pand p_decimal p_unit);
        pmap (fun d => VNum NkFin d d None) p_decimal;
        por [ pmap (fun _ => VNum NkInf [] [] None) (plit (s_ "INF"));
              pmap (fun _ => VNum NkNegInf [] [] None) (plit (s_ "-INF"));
              pmap (fun _ => VNum NkNaN [] [] None) (plit (s_ "NaN")) ] ].

Definition p_null : parser hval := pmap (fun _ => VNull) (plit [78]).
Definition p_marker : parser hval := pmap (fun _ => VMarker) (plit [77]).
Definition p_remove : parser hval := pmap (fun _ => VRemove) (plit [82]).
Definition p_na : parser hval := pmap (fun _ => VNA) (plit [78; 65]).
Definition p_bool : parser hval := pmap (fun c => VBool (c =? 84)) (pchar (fun c => (c =? 84) || (c =? 70))).

(* ---- the recursive part: scalars, lists, dicts, grids ---- *)
Definition scalars_2_0 : list (parser hval) :=
  [p_ref; p_bin; pmap VStr p_str; pmap VUri p_uri; p_datetime; p_date; p_time; p_coord; p_number;
   p_null; p_marker; p_remove; p_bool].

(* (the input is an explicit argument so that the extracted code builds the
   recursive parsers as closures, on demand, instead of unfolding them eagerly) *)
Fixpoint p_scalar (fuel : nat) (ver3 : bool) (input : str) {struct fuel} : option (res hval * str) :=
  match fuel with
  | O => Some (Raise OutOfFuel, [])
  | S f =>
      if ver3 then
        let scalar : parser hval := p_scalar f true in
        (* hs_list *)
        let p_list : parser hval :=
          por [ pmap (fun _ => VList []) (pthen (plit [91]) (pthen spaces (plit [93])));
                pmap (fun x => VList (match x with Some l => l | None => [] end))
                     (pthen (plit [91]) (pthen spaces
                        (pbefore (popt (pdelimited scalar value_sep))
                                 (pthen (popt value_sep) (pthen spaces (plit [93])))))) ] in
        (* hs_tag / hs_tags / hs_dict *)
        let p_tagpair : parser (str * hval) :=
          pand p_id (pthen (plit [58]) (pthen spaces scalar)) in
        let p_tag : parser (option (str * hval)) :=
          por [ pmap (fun k => Some (k, VMarker)) p_id; pmap Some p_tagpair ] in
        let p_tags : parser (list (str * hval)) :=
          pmap (fun l => flat_map (fun o => match o with Some kv => [kv] | None => [] end) l)
               (pmany (por [p_tag; pmap (fun _ => None) (pspan1 is_sp)])) in
        let p_dict : parser hval :=
          por [ pmap (fun _ => VDict []) (pthen (plit [123]) (pthen spaces (plit [125])));
                pmap (fun l => VDict (dict_of l))
                     (pthen (plit [123]) (pthen spaces (pbefore p_tags (pthen spaces (plit [125]))))) ] in
        let p_inner_grid : parser hval :=
          pthen (plit [60; 60]) (pthen spaces (pbefore (p_grid f true) (pthen spaces (plit [62; 62])))) in
        por [p_ref; p_xstr; p_bin; pmap VStr p_str; pmap VUri p_uri; p_datetime; p_date; p_time; p_coord; p_number;
             p_na; p_null; p_marker; p_remove; p_bool; p_list; p_dict; p_inner_grid] input
      else por scalars_2_0 input
  end

(* hs_grid[ver]: gridMeta, cols, rows; then _gen_grid *)
with p_grid (fuel : nat) (ver3 : bool) (input : str) {struct fuel} : option (res hval * str) :=
  match fuel with
  | O => Some (Raise OutOfFuel, [])
  | S f =>
      let scalar : parser hval := p_scalar f ver3 in
      let p_meta_item : parser (str * hval) :=
        por [ pmap (fun k => (k, VMarker)) p_id;
              pand p_id (pthen spaces (pthen (plit [58]) (pthen spaces scalar))) ] in
      let p_meta : parser (list (str * hval)) := pmap (fun l => dict_of l) (pdelimited p_meta_item (plit [32])) in
      let p_grid_meta : parser (str * list (str * hval)) :=
        pand (pthen (plit (s_ "ver:")) p_str)
             (pbefore (pmap (fun o => match o with Some m => m | None => [] end) (popt (pthen (plit [32]) p_meta)))
                      (pthen spaces nl)) in
      let p_col : parser (str * list (str * hval)) :=
        pand p_id (pmap (fun o => match o with Some m => m | None => [] end) (popt (pthen (plit [32]) p_meta))) in
      let p_cols : parser (list (str * list (str * hval))) :=
        pbefore (pmap (fun l => dict_of l) (pdelimited p_col value_sep)) (pthen spaces nl) in
      let p_cell : parser hval := por [ (fun t => Some (Ok VNull, t)); scalar ] in
      let p_row : parser (list hval) := pbefore (pdelimited p_cell value_sep) (pthen spaces nl) in
      pact (fun x =>
              let '(vm, (cols, rows)) := x in
              let '(ver, meta) := vm in
              do pv <- parse_ver ver;
              do p3 <- pre3_of ver;
              let meta' := remove_key (s_ "ver") meta in
              let rows' := map (fun cells => dict_of (combine (map fst cols) cells)) rows in
              let all_vals := map snd meta' ++ flat_map (fun c => map snd (snd c)) cols ++ flat_map (fun r => map snd r) rows' in
              if p3 && existsb is_v3_only all_vals then Raise ValueError
              else Ok (VGrid (vstr pv) meta' cols rows'))
           (pand p_grid_meta (pand p_cols (pmany p_row))) input
  end.

(* ---- str.expandtabs() as pyparsing applies it to the whole input ---- *)
Fixpoint expandtabs_from (col : N) (t : str) : str :=
  match t with
  | [] => []
  | c :: t' =>
      if c =? 9 then repeat 32 (N.to_nat (8 - col mod 8)) ++ expandtabs_from 0 t'
      else if (c =? 10) || (c =? 13) then c :: expandtabs_from 0 t'
      else c :: expandtabs_from ((col + 1) mod 8) t'
  end.
Definition expandtabs (t : str) : str := expandtabs_from 0 t.

(* parseAll=True: only pyparsing's default whitespace may follow *)
Definition is_pp_ws (c : N) : bool := (c =? 32) || (c =? 9) || (c =? 10) || (c =? 13).
Definition only_ws (t : str) : bool := forallb is_pp_ws t.

(* VERSION_RE at the start of the text: the raw text between the quotes *)
Fixpoint ver_chars (t : str) : str * str :=
  match t with
  | c :: t' =>
      if c =? 34 then ([], t)
      else if c =? 92 then
        match t' with
        | e :: t'' => if memN e [92; 34; 98; 102; 110; 114; 116; 36]
                      then let '(a, b) := ver_chars t'' in (c :: e :: a, b) else ([], t)
        | [] => ([], t)
        end
      else let '(a, b) := ver_chars t' in (c :: a, b)
  | [] => ([], [])
  end.
Definition sniff_version (t : str) : option str :=
  match strip_prefix (s_ "ver:") t with
  | Some t1 => match hd_is 34 t1 with
               | Some t2 => let '(v, t3) := ver_chars t2 in
                            match v, hd_is 34 t3 with
                            | _ :: _, Some _ => Some v
                            | _, _ => None
                            end
               | None => None
               end
  | None => None
  end.

(* zincparser.parse_grid: every failure is a ZincParseException *)
Definition zparse_grid (t : str) : res hval :=
  match sniff_version t with
  | None => Raise ZincParseException
  | Some v =>
      match pre3_of v with
      | Raise _ => Raise ZincParseException
      | Ok p3 =>
          let t' := t in      (* parseWithTabs(): the input is parsed as it is *)
          match p_grid (S (S (length t'))) (negb p3) t' with
          | Some (Ok g, rest) => if only_ws rest then Ok g else Raise ZincParseException
          | Some (Raise _, rest) => Raise ZincParseException
          | None => Raise ZincParseException
          end
      end
  end.

(* zincparser.parse_scalar: ParseException becomes ZincParseException, anything else escapes as is *)
Definition zparse_scalar (ver3 : bool) (t : str) : res hval :=
  let t' := t in
  match p_scalar (S (S (length t'))) ver3 t' with
  | Some (Ok v, rest) => if only_ws rest then Ok v else Raise ZincParseException
  | Some (Raise e, rest) => Raise e      (* the parse action raised while parsing, before the end-of-text check *)
  | None => Raise ZincParseException
  end.

(* parser.parse(text, ZINC): TRAILING_NL_RE, GRID_SEP, blank chunks dropped *)
Fixpoint strip_trailing_nls (t : str) : str :=
  match t with
  | [] => []
  | c :: t' => let r := strip_trailing_nls t' in
               match r with
               | [] => if c =? 10 then [] else [c]
               | _ => c :: r
               end
  end.
Definition norm_trailing (t : str) : str :=
  let s := strip_trailing_nls t in
  match s with
  | [] => if Nat.eqb (length t) 0 then [] else [10]
  | _ => s ++ [10]           (* runs of trailing newlines become one; a missing one is added *)
  end.

(* GRID_SEP.split: cut at every run of newlines that follows a newline (the first newline stays with its chunk) *)
Fixpoint split_grids_from (cur : str) (afternl skipping : bool) (t : str) : list str :=
  match t with
  | [] => [rev cur]
  | c :: t' =>
      if c =? 10 then
        if skipping then split_grids_from cur true true t'
        else if afternl then rev cur :: split_grids_from [] true true t'
        else split_grids_from (c :: cur) true false t'
      else split_grids_from (c :: cur) false false t'
  end.
Definition split_grids (t : str) : list str := split_grids_from [] false false t.

Definition is_blank_chunk (t : str) : bool :=
  forallb (fun c => (c =? 32) || ((9 <=? c) && (c <=? 13)) || ((28 <=? c) && (c <=? 31)) || (c =? 133) || (c =? 160)
                    || (c =? 5760) || ((8192 <=? c) && (c <=? 8202)) || (c =? 8232) || (c =? 8233) || (c =? 8239)
                    || (c =? 8287) || (c =? 12288)) t.

Definition zparse_doc (t : str) : res (list hval) :=
  let chunks := filter (fun c => negb (is_blank_chunk c)) (split_grids (norm_trailing t)) in
  (fix go (l : list str) : res (list hval) :=
     match l with
     | [] => Ok []
     | c :: l' => do g <- zparse_grid c; do r <- go l'; Ok (g :: r)
     end) chunks.

(* ---- wire ---- *)
Local Open Scope string_scope.
Definition cmd_zparse (args : list sexp) : sexp :=
  match args with
  | [SStr t] => sres (fun l => SList (map (shval 14) l)) (zparse_doc t)
  | [v; SStr t] => sres (shval 14) (zparse_scalar (is_sym "true" v) t)
  | _ => bad_request
  end.
