(* JSON times with a fraction of seconds of any length (property C05): the first six digits count, as microseconds *)
From Coq Require Import Lia ZifyBool String.
From HS Require Import Base.Prelude Gen.VersionData Gen.JsonData Model.Value Model.Version Model.Json Proofs.PreludeP Proofs.JsonP.
Open Scope N_scope.

Lemma opt_frac_digits fr : fr <> [] -> forallb ascii_digit fr = true -> opt_frac (46 :: fr) = (46 :: fr, []).
Proof.
  intros Hne Hd. unfold opt_frac. rewrite (hd_is_other 58 46) by discriminate. unfold dot_digits. rewrite hd_is_same.
  rewrite (span_all is_digit fr (forallb_ascii_digit fr Hd)). destruct fr; [contradiction|reflexivity].
Qed.

Theorem rt_time_frac pre3 h mi s fr :
  h <= 23 -> mi <= 59 -> s <= 59 -> fr <> [] -> forallb ascii_digit fr = true ->
  jparse_str pre3 (104 :: 58 :: d2 h ++ 58 :: d2 mi ++ 58 :: d2 s ++ 46 :: fr) = Ok (VTime h mi s (usec_of fr)).
Proof.
  intros Hh Hm Hs Hne Hd.
  remember (d2 h ++ 58 :: d2 mi ++ 58 :: d2 s ++ 46 :: fr) as T eqn:ET.
  unfold jparse_str. cbn -[match_time match_number]. subst T.
  unfold match_time.
  rewrite (two_digits_d2 h _ ltac:(lia)). rewrite hd_is_same.
  rewrite (two_digits_d2 mi _ ltac:(lia)).
  assert (Hrange : (int_of_digits (d2 h) <=? 23) && (int_of_digits (d2 mi) <=? 59) && (s <=? 59) = true).
  { rewrite (int_d2 h ltac:(lia)), (int_d2 mi ltac:(lia)). lia. }
  rewrite (secs_part_written s (46 :: fr) ltac:(lia) (opt_frac_digits fr Hne Hd)). cbn [at_eol].
  rewrite (split_dot1_d2 s fr), (all_digits_d2 s ltac:(lia)). cbn [negb].
  rewrite (int_d2 s ltac:(lia)), Hrange.
  now rewrite (int_d2 h ltac:(lia)), (int_d2 mi ltac:(lia)).
Qed.

Example rt_time_frac_ex :
  jparse_str false (s_ "h:07:08:09.25") = Ok (VTime 7 8 9 250000) /\ usec_of (s_ "25") = 250000 /\
  jparse_str false (s_ "h:07:08:09.1234567") = Ok (VTime 7 8 9 123456) /\ usec_of (s_ "1234567") = 123456.
Proof. vm_compute. repeat split; reflexivity. Qed.
Print Assumptions rt_time_frac.
