"""C17 - date-times keep instant, offset and zone through every zone and DST transition.

Theorems: coq/theories/Props/C17.v (Model/TZ.v; pytz is an oracle `zoff z i`, the
theorems hold for an arbitrary one).
Tie: the model's map vs zoneinfo.get_tz_map() on this host (regenerated lists); the
model's timezone_name / write / read with the oracle's answers materialised per
case vs the implementation, on mapped zones at transition instants and on
fixed-offset / misused tzinfo.
Search on the implementation: every case is dumped in both formats and read back;
instant, UTC offset, Haystack zone name and pytz zone must be the same."""
import datetime
import random

import codec
import zincsim
from common import Sym

COMPONENTS = ['tz', 'version', 'json', 'escape']

UTC0 = datetime.datetime(1970, 1, 1)


def micros(dt_naive_utc):
    d = dt_naive_utc - UTC0
    return (d.days * 86400 + d.seconds) * 1000000 + d.microseconds


def zone_cases(zname, deltas, us_cycle):
    """(olson, naive UTC datetime) around every tabulated transition of the zone"""
    import pytz
    tz = pytz.timezone(zname)
    times = [t for t in getattr(tz, '_utc_transition_times', []) if 1902 <= t.year <= 2037]
    if not times:
        times = [datetime.datetime(2020, 1, 1), datetime.datetime(2020, 7, 1)]
    out = []
    n = 0
    for t in times:
        for d in deltas:
            n += 1
            out.append((zname, t + datetime.timedelta(seconds=d, microseconds=us_cycle[n % len(us_cycle)])))
    return out


def _case_worker(args):
    """implementation round trip for one mapped-zone case"""
    hay, zname, naive_utc = args
    import warnings
    warnings.simplefilter('ignore')
    import pytz
    h = codec.H()
    from hszinc import zoneinfo
    tz = pytz.timezone(zname)
    dt = pytz.utc.localize(naive_utc).astimezone(tz)
    off = int(dt.utcoffset().total_seconds())
    res = {'name': None, 'modes': {}}
    try:
        res['name'] = zoneinfo.timezone_name(dt)
    except Exception as e:  # noqa
        res['name_exc'] = type(e).__name__
        return (hay, zname, naive_utc, off, res)
    for mode in (h.MODE_ZINC, h.MODE_JSON):
        try:
            t = h.dump_scalar(dt, mode=mode)
            back = h.parse_scalar(t, mode=mode)
            bz = getattr(back.tzinfo, 'zone', None)
            try:
                bname = zoneinfo.timezone_name(back)
            except Exception as e:  # noqa
                bname = 'raises ' + type(e).__name__
            res['modes'][mode] = (t, back.astimezone(pytz.utc).replace(tzinfo=None), int(back.utcoffset().total_seconds()), bz, bname)
        except Exception as e:  # noqa
            res['modes'][mode] = ('raises %s: %s' % (type(e).__name__, str(e)[:80]),)
    return (hay, zname, naive_utc, off, res)


def _foreign_worker(args):
    """a tz-aware date-time that carries no mapped zone: fixed offset (minutes) or a misused pytz zone"""
    kind, param, naive_utc, zones = args
    import warnings
    warnings.simplefilter('ignore')
    import pytz
    h = codec.H()
    from hszinc import zoneinfo
    if kind == 'fixed':
        dt = pytz.utc.localize(naive_utc).astimezone(datetime.timezone(datetime.timedelta(minutes=param)))
        zattr = None
    elif kind == 'gap':
        # a local time that the zone skips (or repeats), localised with an explicit is_dst: the value's offset is not the zone's at that instant
        zname, is_dst = param
        tz = pytz.timezone(zname)
        dt = tz.localize(naive_utc, is_dst=is_dst)        # naive_utc is a LOCAL wall time here
        zattr = zname
    elif kind == 'arith':
        # arithmetic across a transition without normalize(): the tzinfo of the old period stays attached
        zname, hours = param
        tz = pytz.timezone(zname)
        dt = pytz.utc.localize(naive_utc).astimezone(tz) + datetime.timedelta(hours=hours)
        zattr = zname
    else:   # tzinfo=pytz zone attached without localize(): carries the zone's first (LMT) offset
        tz = pytz.timezone(param)
        dt = naive_utc.replace(tzinfo=tz)
        zattr = param
    off = dt.utcoffset()
    inst = dt.astimezone(pytz.utc).replace(tzinfo=None)
    table = []
    for hay, olson in zones:
        o = dt.astimezone(pytz.utc).astimezone(pytz.timezone(olson)).utcoffset()     # pytz, not hszinc's helper: the oracle must not be the code under test
        table.append((olson, int(o.total_seconds())))
    out = {'off': int(off.total_seconds()), 'inst': inst, 'zattr': zattr, 'table': table}
    try:
        out['name'] = zoneinfo.timezone_name(dt)
    except ValueError:
        out['name'] = None
    except Exception as e:  # noqa
        out['exc'] = type(e).__name__
        return (kind, param, naive_utc, out)
    out['modes'] = {}
    if out['name'] is not None:
        for mode in (h.MODE_ZINC, h.MODE_JSON):
            try:
                t = h.dump_scalar(dt, mode=mode)
                back = h.parse_scalar(t, mode=mode)
                out['modes'][mode] = (t, back.astimezone(pytz.utc).replace(tzinfo=None), int(back.utcoffset().total_seconds()), getattr(back.tzinfo, 'zone', None))
            except Exception as e:  # noqa
                out['modes'][mode] = ('raises %s: %s' % (type(e).__name__, str(e)[:80]),)
    else:
        for mode in (h.MODE_ZINC, h.MODE_JSON):
            try:
                h.dump_scalar(dt, mode=mode)
                out['modes'][mode] = ('dumped although no zone matches',)
            except ValueError:
                out['modes'][mode] = ('ValueError',)
            except Exception as e:  # noqa
                out['modes'][mode] = ('raises %s' % type(e).__name__,)
    return (kind, param, naive_utc, out)


def unopt(x):
    if isinstance(x, list) and len(x) == 2 and str(x[0]) == 'some':
        return x[1]
    return None


def run(ctx):
    import pytz
    import warnings
    warnings.simplefilter('ignore')
    h = codec.H()
    from hszinc import zoneinfo
    rng = random.Random(ctx.seed + 17)
    thorough = ctx.tier == 'thorough' or ctx.escalate
    tzmap = list(zoneinfo.get_tz_map().items())
    rmap = zoneinfo.get_tz_rmap()

    # ---- 1. the map on this host
    model_map = [(a, b) for a, b in ctx.model.ask([[Sym('tz-map')]])[0]]
    ctx.coverage['traces_validated_against_impl'] += 1
    if model_map != tzmap:
        ctx.coverage['disagreements_checked'] += 1
        diff = [(a, b) for a, b in zip(model_map, tzmap) if a != b][:3]
        ctx.violation('correspondence-broken', 'the model of _map_timezones over the regenerated lists differs from zoneinfo.get_tz_map(): %d vs %d entries, first differences %r'
                      % (len(model_map), len(tzmap), diff), {'component': 'tz-map'})
    if len(set(v for _, v in tzmap)) != len(tzmap) or len(rmap) != len(tzmap):
        ctx.violation('impl-counterexample', 'the zone-name <-> tz mapping is not one-to-one: %d names, %d zones' % (len(tzmap), len(set(v for _, v in tzmap))), {'map': tzmap[:5]})
        return
    for hay, olson in tzmap:
        if zoneinfo.timezone(hay).zone != olson or rmap.get(olson) != hay:
            ctx.violation('impl-counterexample', 'timezone(%r) / the reverse map disagree with the map' % hay, {'name': hay})
            return

    # ---- 2. mapped zones around their transitions
    deltas = [-1800, -1, 0, 1, 1800]
    us_cycle = [0, 1, 999999, 0, 500000]
    zones = tzmap if thorough else rng.sample(tzmap, 28)
    cases = []
    for hay, olson in zones:
        for z, t in zone_cases(olson, deltas, us_cycle):
            cases.append((hay, z, t))
    # every zone at one instant for every distinct UTC offset it ever had (sub-hour, negative sub-hour, LMT-era offsets included)
    for hay, olson in tzmap:
        tz = pytz.timezone(olson)
        seen_off = set()
        for t, info in zip(getattr(tz, '_utc_transition_times', []), getattr(tz, '_transition_info', [])):
            if 1902 <= t.year <= 2037 and info[0] not in seen_off:
                seen_off.add(info[0])
                cases.append((hay, olson, t + datetime.timedelta(hours=3, microseconds=7)))
    if not thorough:
        for hay, olson in tzmap:       # every zone at a few instants
            for t in (datetime.datetime(2020, 1, 15, 12, 0, 0, 1), datetime.datetime(2020, 7, 15, 12), datetime.datetime(1975, 3, 30, 1, 30), datetime.datetime(2030, 10, 27, 0, 59, 59, 999999)):
                cases.append((hay, olson, t))
    ctx.coverage['rule'] = ('%d mapped zones (%s) x every tabulated transition instant 1902..2037 x {-30 min, -1 s, 0, +1 s, +30 min} x microseconds cycling through {0, 1, 999999, 500000}; '
                            'all %d zones at one instant per distinct UTC offset they ever had and at 4 further instants; fixed-offset tzinfo for every whole-minute offset -14 h .. +14 h at ordinary / ambiguous / skipped local times; pytz zones attached without localize(); both formats; '
                            'distinct by (zone, instant)' % (len(zones), 'all' if thorough else 'chosen by seed', len(tzmap)))
    ctx.coverage['exhaustive'] = bool(thorough)
    pool = zincsim.pool()
    results = pool.map(_case_worker, cases, chunksize=64)
    cmds = []
    for hay, zname, t, off, res in results:
        ctx.coverage['evaluations'] += 1
        ctx.count('mapped-zone')
        rep = {'zone': zname, 'haystack': hay, 'utc': t.isoformat(), 'offset': off}
        if res.get('name') != hay:
            ctx.violation('impl-counterexample', 'timezone_name of a date-time in %s (offset %d s at %s UTC) is %r' % (zname, off, t.isoformat(), res.get('name') or res.get('name_exc')), rep)
            return
        for mode, r in res['modes'].items():
            if len(r) == 1:
                ctx.violation('impl-counterexample', 'a date-time in %s at %s UTC: %s round trip %s' % (zname, t.isoformat(), mode, r[0]), rep)
                return
            text, binst, boff, bz, bname = r
            if binst != t or boff != off or bz != zname or bname != hay:
                ctx.violation('impl-counterexample', 'a date-time in %s at %s UTC (offset %d s) written as %r comes back as instant %s, offset %d s, zone %s / %s (%s)'
                              % (zname, t.isoformat(), off, text, binst.isoformat(), boff, bz, bname, mode), dict(rep, text=text))
                return
        cmds.append([Sym('tz-name'), micros(t), off, zname, [zname, off]])
    answers = ctx.model.ask_parallel(cmds)
    for (hay, zname, t, off, res), a in zip(results, answers):
        ctx.coverage['traces_validated_against_impl'] += 1
        want = ['ok', hay, micros(t) + off * 1000000, micros(t), off, zname]
        got = [str(a[0])] + [unopt(a[1]), int(a[2]), int(a[3]), int(a[4]), unopt(a[5])] if str(a[0]) == 'ok' and len(a) == 6 else a
        if got != want:
            ctx.coverage['disagreements_checked'] += 1
            ctx.violation('correspondence-broken', 'TZ model and implementation differ on %s at %s: model %r, implementation %r' % (zname, t.isoformat(), got, want),
                          {'zone': zname, 'utc': t.isoformat(), 'component': 'tz-name'})
            break
    ctx.coverage['distinct_nontrivial'] = len(set((z, t) for _, z, t in cases))

    # ---- 3. other tz-aware date-times
    instants = [datetime.datetime(2020, 11, 1, 5, 30), datetime.datetime(2020, 11, 1, 6, 30), datetime.datetime(2020, 3, 8, 7, 0), datetime.datetime(2020, 3, 8, 6, 59, 59),
                datetime.datetime(2021, 3, 28, 1, 0), datetime.datetime(2021, 10, 31, 1, 0, 0, 1), datetime.datetime(2020, 6, 1, 12), datetime.datetime(1999, 12, 31, 23, 59, 59, 999999),
                datetime.datetime(2021, 4, 3, 16, 30), datetime.datetime(2021, 10, 2, 15, 59)]
    fcases = []
    minutes = list(range(-14 * 60, 14 * 60 + 1))
    if not thorough:
        minutes = sorted(set(range(-14 * 60, 14 * 60 + 1, 15)) | set(rng.sample(minutes, 120)))
    for k in minutes:
        for t in (instants if thorough and k % 15 == 0 else rng.sample(instants, 2)):
            fcases.append(('fixed', k, t, tzmap))
    for hay, olson in (tzmap if thorough else rng.sample(tzmap, 40)):
        fcases.append(('misused', olson, rng.choice(instants), tzmap))
    # date-times whose pytz tzinfo does not apply at their instant: local times inside a DST gap / fold localised with an explicit is_dst,
    # and arithmetic across a transition without normalize()
    dstz = [(hay, olson) for hay, olson in tzmap if len(getattr(pytz.timezone(olson), '_utc_transition_times', [])) > 20]
    for hay, olson in (dstz if thorough else rng.sample(dstz, min(len(dstz), 30)) + [(a, b) for a, b in tzmap if b in ('Australia/Lord_Howe', 'America/St_Johns', 'Europe/Berlin', 'America/New_York')]):
        tz = pytz.timezone(olson)
        tts = [(t, i) for t, i in zip(tz._utc_transition_times, tz._transition_info) if 1972 <= t.year <= 2036]
        for (t, info), (tprev, iprev) in list(zip(tts[1:], tts[:-1]))[-6:]:
            o_before, o_after = iprev[0], info[0]
            lo, hi = sorted([t + o_before, t + o_after])
            mid = lo + (hi - lo) / 2                      # a wall time inside the gap (or the fold)
            for is_dst in (False, True):
                fcases.append(('gap', (olson, is_dst), mid.replace(microsecond=0), tzmap))
            fcases.append(('arith', (olson, 3), t - datetime.timedelta(hours=1), tzmap))
    fres = pool.map(_foreign_worker, fcases, chunksize=16)
    fcmds = []
    olson_of = dict(tzmap)
    for kind, param, t, out in fres:
        ctx.coverage['evaluations'] += 1
        ctx.count('foreign:' + kind)
        rep = {'kind': kind, 'tzinfo': param, 'utc-or-local': t.isoformat(), 'offset': out['off']}
        if 'exc' in out:
            ctx.violation('impl-counterexample', 'timezone_name raised %s for a %s tzinfo (%s)' % (out['exc'], kind, param), rep)
            return
        offs = dict(out['table'])
        if out['name'] is not None:
            z = olson_of.get(out['name'])
            if not (z is not None and offs.get(z) == out['off']):
                ctx.violation('impl-counterexample', 'the writer names zone %s for a value with offset %d s at an instant where that zone has offset %r' % (out['name'], out['off'], offs.get(z)), rep)
                return
        for mode, r in out['modes'].items():
            if out['name'] is None:
                if r != ('ValueError',):
                    ctx.violation('impl-counterexample', 'no mapped zone has offset %d s at that instant, yet the %s writer: %s' % (out['off'], mode, r[0]), rep)
                    return
                continue
            if len(r) == 1:
                ctx.violation('impl-counterexample', 'a %s-tzinfo date-time (offset %d s): %s round trip %s' % (kind, out['off'], mode, r[0]), rep)
                return
            text, binst, boff, bz = r
            if binst != out['inst'] or boff != out['off']:
                ctx.violation('impl-counterexample', 'a %s-tzinfo date-time (offset %d s) written as %r comes back as instant %s offset %d s (was %s)'
                              % (kind, out['off'], text, binst.isoformat(), boff, out['inst'].isoformat()), dict(rep, text=text))
                return
        fcmds.append([Sym('tz-name'), micros(out['inst']), out['off'], out['zattr'] if out['zattr'] else Sym('none')] + [[z, o] for z, o in out['table']])
    fans = ctx.model.ask_parallel(fcmds)
    for (kind, param, t, out), a in zip(fres, fans):
        ctx.coverage['traces_validated_against_impl'] += 1
        got = unopt(a[1]) if str(a[0]) == 'ok' else None
        if str(a[0]) != 'ok' and str(a[1]) != 'ValueError':
            got = 'raises %s' % a[1]
        if got != out['name']:
            ctx.coverage['disagreements_checked'] += 1
            ctx.violation('correspondence-broken', 'TZ model names %r, timezone_name %r for a %s tzinfo %s (offset %d s)' % (got, out['name'], kind, param, out['off']),
                          {'kind': kind, 'tzinfo': param, 'component': 'tz-name'})
            break
    ctx.sample({'zone': 'America/New_York', 'instant': '2020-11-01T05:30:00 UTC (the repeated 01:30 local hour)', 'written': h.dump_scalar(pytz.utc.localize(datetime.datetime(2020, 11, 1, 5, 30)).astimezone(pytz.timezone('America/New_York')))})


def replay(ctx, data):
    print('replay:', data)
    run(ctx)
