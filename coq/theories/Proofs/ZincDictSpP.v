(* Dicts with blanks inside the braces, after the colons and in runs between the tags *)
From Coq Require Import String.
From Coq Require Import List NArith Bool Lia Arith.
From HS Require Import Base.Prelude Model.Value Model.Escape Model.Version Model.Json Model.ZincParse.
From HS Require Import Proofs.VersionP Proofs.EscapeP Proofs.JsonP Proofs.ZincParseP Proofs.ZincNumP Proofs.ZincListP Proofs.ZincGridP Proofs.ZincDictP Proofs.ZincSpacedP Proofs.ZincListSpP.
Import ListNotations.
Open Scope N_scope.

(* a tag with c blanks after its colon *)
Definition stag (k : str) (c : nat) (t : str) : str := (k ++ 58 :: blanks c ++ t)%list.

Lemma tag_reads_sp g k v t c rest : colname k -> readsd g v t -> delim rest ->
  hs_tag (p_scalar (S g) true) (stag k c t ++ rest) = Some (Ok (Some (k, v)), rest).
Proof.
  intros Hk Hv Hd. unfold stag. rewrite <- app_assoc. cbn [List.app]. rewrite <- app_assoc.
  destruct (reads_hd g v t (readsd_reads g v t Hv)) as [c0 [t' [E Hc]]]. destruct (nosp_hd c0 Hc) as [Hs _].
  assert (A1 : pmap (fun k0 => Some (k0, VMarker)) p_id (k ++ 58 :: blanks c ++ t ++ rest) = Some (Ok (Some (k, VMarker)), 58 :: blanks c ++ t ++ rest)).
  { exact (pmap_ok (fun k0 => Some (k0, VMarker)) p_id _ k _ (p_id_colon k _ Hk)). }
  assert (SP : spaces (blanks c ++ t ++ rest) = Some (Ok tt, t ++ rest)).
  { subst t. cbn [List.app]. apply spaces_blanks. exact Hs. }
  assert (A2 : pmap Some (hs_tagpair (p_scalar (S g) true)) (k ++ 58 :: blanks c ++ t ++ rest) = Some (Ok (Some (k, v)), rest)).
  { assert (TP : hs_tagpair (p_scalar (S g) true) (k ++ 58 :: blanks c ++ t ++ rest) = Some (Ok (k, v), rest)).
    { unfold hs_tagpair. eapply pand_ok; [apply p_id_colon; exact Hk|].
      assert (I2 : pthen spaces (p_scalar (S g) true) (blanks c ++ t ++ rest) = Some (Ok v, rest)).
      { unfold pthen, pmap, pand. rewrite SP, (Hv rest Hd). reflexivity. }
      unfold pthen at 1. unfold pmap, pand.
      assert (L0 : plit [58] (58 :: blanks c ++ t ++ rest) = Some (Ok tt, blanks c ++ t ++ rest)) by reflexivity. rewrite L0, I2. reflexivity. }
    exact (pmap_ok Some _ _ (k, v) _ TP). }
  unfold hs_tag, por. rewrite (por_pick_start _ _ _ _ _ A1).
  cbn [por_pick]. rewrite A2.
  assert (L : Nat.ltb (length rest) (length (58 :: blanks c ++ t ++ rest)) = true) by (apply Nat.ltb_lt; cbn [length]; rewrite !app_length; lia).
  rewrite L. reflexivity.
Qed.

Lemma telt_tag_sp g k v t c rest : colname k -> readsd g v t -> delim rest ->
  telt (p_scalar (S g) true) (stag k c t ++ rest) = Some (Ok (Some (k, v)), rest).
Proof.
  intros Hk Hv Hd. pose proof (tag_reads_sp g k v t c rest Hk Hv Hd) as T. unfold telt, por.
  rewrite (por_pick_start _ _ _ _ _ T). rewrite por_pick_skip; [reflexivity|].
  destruct (colname_hd k Hk) as [c0 [r [E [Hs _]]]]. subst k. unfold stag. cbn [List.app]. unfold pmap, pspan1. cbn [span]. rewrite Hs. reflexivity.
Qed.

(* a run of blanks is one element *)
Lemma telt_blanks scalar n c t : is_sp c = false -> telt scalar (blanks (S n) ++ c :: t) = Some (Ok None, c :: t).
Proof.
  intro Hs. unfold telt, por. rewrite por_pick_skip.
  - apply por_pick_take; [|apply Forall_nil]. unfold pmap, pspan1.
    rewrite (span_all is_sp (blanks (S n)) (c :: t) (blanks_sp (S n)) Hs). reflexivity.
  - unfold hs_tag. apply por_none. repeat apply Forall_cons; try apply Forall_nil; reflexivity.
Qed.

(* further tags: a + 1 blanks, the tag with c blanks after its colon *)
Definition sitem := (nat * nat * (str * hval * str))%type.
Definition sitem_text (i : sitem) : str := let '(a, c, (k, v, t)) := i in (blanks (S a) ++ stag k c t)%list.
Definition sitem_ok (g : nat) (i : sitem) : Prop := pair_ok g (snd i).
Definition smore (its : list sitem) : str := concat (map sitem_text its).
Definition sclose (b : nat) (r : str) : str := (blanks b ++ 125 :: r)%list.

Lemma sclose_delim b r : delim (sclose b r).
Proof. unfold sclose. destruct b; cbn [blanks repeat List.app]; [apply delim_brace|apply delim_sp]. Qed.
Lemma smore_delim its b r : delim (smore its ++ sclose b r).
Proof. destruct its as [|[[a c] [[k v] t]] its]; cbn [smore map concat List.app]; [apply sclose_delim|]. cbn [sitem_text blanks repeat List.app]. apply delim_sp. Qed.

Lemma sclose_many scalar b r : forall fuel, (1 < fuel)%nat ->
  exists l, pmany_fuel fuel (telt scalar) (sclose b r) = (Ok l, 125 :: r) /\ flat l = [].
Proof.
  intros fuel Hf. destruct fuel as [|[|f]]; try lia. unfold sclose. destruct b as [|b].
  - exists []. cbn [blanks repeat List.app pmany_fuel]. rewrite telt_close. split; reflexivity.
  - exists [None]. cbn [pmany_fuel]. rewrite (telt_blanks scalar b 125 r eq_refl).
    assert (L : Nat.ltb (length (125 :: r)) (length (blanks (S b) ++ 125 :: r)) = true) by (apply Nat.ltb_lt; rewrite app_length; cbn [blanks repeat length]; lia).
    rewrite L, telt_close. split; reflexivity.
Qed.

Lemma smore_many g b r : forall its, Forall (sitem_ok g) its -> forall fuel, (2 * length its + 1 < fuel)%nat ->
  exists l, pmany_fuel fuel (telt (p_scalar (S g) true)) (smore its ++ sclose b r) = (Ok l, 125 :: r) /\ flat l = map (fun i => pkv (snd i)) its.
Proof.
  induction 1 as [|[[a c] [[k v] t]] its Hi _ IH]; intros fuel Hf.
  - cbn [smore map concat List.app]. apply sclose_many. cbn [length] in Hf. lia.
  - destruct Hi as [Hk Hv]. cbn [fst snd] in *. destruct fuel as [|f1]; [cbn in Hf; lia|].
    cbn [smore map concat sitem_text]. fold (smore its). rewrite <- !app_assoc.
    destruct (colname_hd k Hk) as [c0 [kr [E [Hs _]]]].
    assert (TT : (stag k c t ++ smore its ++ sclose b r)%list = (c0 :: (kr ++ 58 :: blanks c ++ t) ++ smore its ++ sclose b r)%list) by (unfold stag; rewrite E; reflexivity).
    cbn [pmany_fuel]. rewrite TT. rewrite (telt_blanks _ a c0 _ Hs).
    assert (L1 : forall x : str, Nat.ltb (length (c0 :: x)) (length (blanks (S a) ++ c0 :: x)) = true) by (intro x; apply Nat.ltb_lt; rewrite app_length; cbn [blanks repeat length]; lia).
    rewrite L1. rewrite <- TT.
    destruct f1 as [|f]; [cbn in Hf; lia|]. cbn [pmany_fuel].
    rewrite (telt_tag_sp g k v t c _ Hk Hv (smore_delim its b r)).
    assert (L2 : Nat.ltb (length (smore its ++ sclose b r)) (length (stag k c t ++ smore its ++ sclose b r)) = true).
    { apply Nat.ltb_lt. unfold stag. rewrite !app_length. cbn [length]. lia. }
    rewrite L2. destruct (IH f) as [l [Hl Hfl]]; [cbn in Hf; lia|]. rewrite Hl.
    exists (None :: Some (k, v) :: l). split; [reflexivity|]. cbn [flat flat_map List.app map pkv snd]. unfold flat in Hfl. rewrite Hfl. reflexivity.
Qed.

Lemma smore_len its : (2 * length its <= length (smore its))%nat.
Proof.
  induction its as [|[[a c] [[k v] t]] its IH]; cbn [smore map concat length]; [lia|]. fold (smore its).
  rewrite app_length. cbn [sitem_text]. rewrite app_length. unfold stag. rewrite app_length. cbn [blanks repeat length]. lia.
Qed.

(* the body of a dict: first tag, further tags, closing blanks *)
Definition sbody (c0 : nat) (p : str * hval * str) (its : list sitem) (b : nat) : str :=
  let '(k, v, t) := p in (stag k c0 t ++ smore its ++ blanks b)%list.

Lemma tags_sbody g r c0 p its b : pair_ok g p -> Forall (sitem_ok g) its ->
  hs_tags (p_scalar (S g) true) (sbody c0 p its b ++ 125 :: r) = Some (Ok (pkv p :: map (fun i => pkv (snd i)) its), 125 :: r).
Proof.
  intros Hp Hps. destruct p as [[k v] t]. destruct Hp as [Hk Hv].
  cbn [sbody]. rewrite <- !app_assoc. fold (sclose b r).
  unfold hs_tags. unfold pmap at 1. unfold pmany. fold (telt (p_scalar (S g) true)).
  remember (length (stag k c0 t ++ smore its ++ sclose b r)) as n0 eqn:EL.
  assert (EL2 : (length k + S (length t) + (length (smore its) + S (length r)) <= n0)%nat).
  { subst n0. unfold stag, sclose. rewrite !app_length. cbn [length]. rewrite !app_length. cbn [length]. lia. }
  clear EL.
  cbn [pmany_fuel]. rewrite (telt_tag_sp g k v t c0 _ Hk Hv (smore_delim its b r)).
  assert (L2 : Nat.ltb (length (smore its ++ sclose b r)) (length (stag k c0 t ++ smore its ++ sclose b r)) = true).
  { apply Nat.ltb_lt. unfold stag. rewrite !app_length. cbn [length]. lia. }
  rewrite L2.
  destruct (smore_many g b r its Hps n0) as [l [Hl Hfl]].
  { pose proof (smore_len its). destruct (colname_hd k Hk) as [c1 [kr [E _]]]. subst k. cbn [length] in EL2.
    destruct (reads_hd g v t (readsd_reads g v t Hv)) as [c2 [t' [E2 _]]]. subst t. cbn [length] in EL2. lia. }
  rewrite Hl. cbn [flat_map List.app map pkv]. fold (flat l). rewrite Hfl. reflexivity.
Qed.

Theorem scalar_dict_spelled g a0 c0 p its b rest : pair_ok g p -> Forall (sitem_ok g) its ->
  NoDup (map fst (pkv p :: map (fun i => pkv (snd i)) its)) -> delim rest ->
  p_scalar (S (S g)) true (123 :: blanks a0 ++ sbody c0 p its b ++ 125 :: rest)
  = Some (Ok (VDict (pkv p :: map (fun i => pkv (snd i)) its)), rest).
Proof.
  intros Hp Hall Hnd Hd.
  set (kvs := pkv p :: map (fun i => pkv (snd i)) its) in *.
  assert (Hk : colname (fst (fst p))) by (destruct p as [[k v] t]; exact (proj1 Hp)).
  destruct (colname_hd _ Hk) as [c [kr [E [Hs Hlow]]]].
  assert (Hb : exists bt, sbody c0 p its b = c :: bt).
  { destruct p as [[k v] t]. cbn [fst] in E. cbn [sbody]. unfold stag. rewrite E. cbn [List.app]. eexists. reflexivity. }
  destruct Hb as [bt Eb].
  assert (Hc125 : c <> 125) by (intro E2; subst c; discriminate).
  assert (TG : hs_tags (p_scalar (S g) true) (sbody c0 p its b ++ 125 :: rest) = Some (Ok kvs, 125 :: rest)) by (apply tags_sbody; assumption).
  assert (PD : hs_dict (p_scalar (S g) true) (123 :: blanks a0 ++ sbody c0 p its b ++ 125 :: rest) = Some (Ok (VDict kvs), rest)).
  { unfold hs_dict. fold dict_alt1. fold (dict_alt2 (p_scalar (S g) true)).
    assert (S1 : spaces (blanks a0 ++ sbody c0 p its b ++ 125 :: rest) = Some (Ok tt, sbody c0 p its b ++ 125 :: rest)).
    { rewrite Eb. cbn [List.app]. apply spaces_blanks. exact Hs. }
    assert (L : forall x : str, plit [123] (123 :: x) = Some (Ok tt, x)) by (intro x; reflexivity).
    assert (A1 : dict_alt1 (123 :: blanks a0 ++ sbody c0 p its b ++ 125 :: rest) = None).
    { unfold dict_alt1. unfold pthen at 1 2. unfold pmap at 1 2. unfold pand at 1. rewrite L. unfold pmap, pand. rewrite S1.
      rewrite Eb. cbn [List.app]. unfold plit. cbn [strip_prefix]. destruct (N.eqb_spec 125 c); [subst; contradiction|reflexivity]. }
    assert (A2 : dict_alt2 (p_scalar (S g) true) (123 :: blanks a0 ++ sbody c0 p its b ++ 125 :: rest) = Some (Ok (VDict (dict_of kvs)), rest)).
    { unfold dict_alt2.
      assert (T : pthen spaces (plit [125]) (125 :: rest) = Some (Ok tt, rest)) by reflexivity.
      assert (B : pbefore (hs_tags (p_scalar (S g) true)) (pthen spaces (plit [125])) (sbody c0 p its b ++ 125 :: rest) = Some (Ok kvs, rest)).
      { unfold pbefore, pmap, pand. rewrite TG, T. reflexivity. }
      unfold pthen at 1 2. unfold pmap, pand. rewrite L, S1, B. reflexivity. }
    unfold por. rewrite por_pick_skip by exact A1.
    apply por_pick_take; [|apply Forall_nil].
    rewrite <- (dict_of_nodup kvs Hnd). exact A2. }
  destruct (date_letters 123 (blanks a0 ++ sbody c0 p its b ++ 125 :: rest) eq_refl) as [D1 [D2 D3]].
  rewrite p_scalar_3_0. set (T := (blanks a0 ++ sbody c0 p its b ++ 125 :: rest)%list) in *. clearbody T.
  unfold por.
  do 5 rewrite por_pick_skip by reflexivity.
  rewrite por_pick_skip by exact D1. rewrite por_pick_skip by exact D2. rewrite por_pick_skip by exact D3.
  do 8 rewrite por_pick_skip by reflexivity.
  apply por_pick_take; [exact PD|].
  repeat (apply Forall_cons; [reflexivity|]); apply Forall_nil.
Qed.

(* blanks only between the braces *)
Theorem scalar_dict_empty_spelled g a rest : delim rest -> p_scalar (S (S g)) true (123 :: blanks a ++ 125 :: rest) = Some (Ok (VDict []), rest).
Proof.
  intro Hd.
  assert (S1 : spaces (blanks a ++ 125 :: rest) = Some (Ok tt, 125 :: rest)) by (apply spaces_blanks; reflexivity).
  assert (L : forall x : str, plit [123] (123 :: x) = Some (Ok tt, x)) by (intro x; reflexivity).
  assert (PD : hs_dict (p_scalar (S g) true) (123 :: blanks a ++ 125 :: rest) = Some (Ok (VDict []), rest)).
  { unfold hs_dict. fold dict_alt1. fold (dict_alt2 (p_scalar (S g) true)). unfold por.
    assert (A1 : dict_alt1 (123 :: blanks a ++ 125 :: rest) = Some (Ok (VDict []), rest)).
    { unfold dict_alt1. unfold pthen at 1 2. unfold pmap, pand. rewrite L, S1. reflexivity. }
    rewrite (por_pick_start _ _ _ _ _ A1).
    assert (A2 : dict_alt2 (p_scalar (S g) true) (123 :: blanks a ++ 125 :: rest) = Some (Ok (VDict []), rest)).
    { unfold dict_alt2.
      assert (T : pthen spaces (plit [125]) (125 :: rest) = Some (Ok tt, rest)) by reflexivity.
      assert (B : pbefore (hs_tags (p_scalar (S g) true)) (pthen spaces (plit [125])) (125 :: rest) = Some (Ok [], rest)).
      { unfold pbefore, pmap, pand. rewrite tags_empty, T. reflexivity. }
      unfold pthen at 1 2. unfold pmap, pand. rewrite L, S1, B. reflexivity. }
    rewrite (por_pick_keep _ _ _ _ _ _ _ A2 (Nat.le_refl _)). reflexivity. }
  destruct (date_letters 123 (blanks a ++ 125 :: rest) eq_refl) as [D1 [D2 D3]].
  rewrite p_scalar_3_0. set (T := (blanks a ++ 125 :: rest)%list) in *. clearbody T.
  unfold por.
  do 5 rewrite por_pick_skip by reflexivity.
  rewrite por_pick_skip by exact D1. rewrite por_pick_skip by exact D2. rewrite por_pick_skip by exact D3.
  do 8 rewrite por_pick_skip by reflexivity.
  apply por_pick_take; [exact PD|].
  repeat (apply Forall_cons; [reflexivity|]); apply Forall_nil.
Qed.

Example dict_spelled_example :
  zparse_scalar true (s_ "{  a: 1   b:""x"" }") = Ok (VDict [(s_ "a", VNum NkFin (s_ "1") (s_ "1") None); (s_ "b", VStr (s_ "x"))]) /\
  zparse_scalar true (s_ "{   }") = Ok (VDict []).
Proof. vm_compute. split; reflexivity. Qed.
Print Assumptions scalar_dict_spelled.
Print Assumptions scalar_dict_empty_spelled.
