(* Proofs about Model/Json.v (properties C02, C05, C06, C08-JSON). *)
From Coq Require Import Lia ZifyBool String.
From HS Require Import Base.Prelude Gen.VersionData Gen.JsonData Model.Value Model.Version Model.Json Proofs.PreludeP.
Open Scope N_scope.

(* ------------------------------------------------------------------ *)
(* ASCII digits are digits of the reader's \d, with their value *)

Lemma nd_first_is_ascii_zero : exists rest, nd_zeros = 48 :: rest.
Proof. vm_compute. eexists. reflexivity. Qed.

Lemma digit_val_ascii k : k < 10 -> digit_val (48 + k) = Some k.
Proof.
  intros H. unfold digit_val. destruct nd_first_is_ascii_zero as [rest ->]. cbn [digit_val_in].
  assert ((48 <=? 48 + k) && (48 + k <? 48 + 10) = true) as -> by lia.
  f_equal. lia.
Qed.

Lemma is_digit_ascii k : k < 10 -> is_digit (48 + k) = true.
Proof. intros H. unfold is_digit. now rewrite digit_val_ascii. Qed.

Definition ascii_digit (c : N) : bool := (48 <=? c) && (c <=? 57).
Lemma ascii_digit_is_digit c : ascii_digit c = true -> is_digit c = true.
Proof.
  unfold ascii_digit. intros H. replace c with (48 + (c - 48)) by lia. apply is_digit_ascii. lia.
Qed.

(* ------------------------------------------------------------------ *)
(* span *)

Lemma span_app f a c r : forallb f a = true -> f c = false -> span f (a ++ c :: r) = (a, c :: r).
Proof.
  induction a as [|x a IH]; simpl; intros Ha Hc.
  - now rewrite Hc.
  - apply andb_true_iff in Ha as [H1 H2]. now rewrite H1, (IH H2 Hc).
Qed.

Lemma span_all f a : forallb f a = true -> span f a = (a, []).
Proof.
  induction a as [|x a IH]; simpl; intros Ha; auto.
  apply andb_true_iff in Ha as [H1 H2]. now rewrite H1, (IH H2).
Qed.

(* ------------------------------------------------------------------ *)
(* C06: the shape of a dumped grid and the lexical form of scalars *)

Lemma jdump_grid_shape fuel ver meta cols rows j :
  jdump_grid fuel ver meta cols rows = Ok j ->
  exists m cs rs,
    j = JObj [(s_ "meta", JObj m); (s_ "cols", JArr cs); (s_ "rows", JArr rs)] /\
    assoc (s_ "ver") m = Some (JStr ver) /\ cols <> [].
Proof.
  destruct fuel as [|f]; simpl; [discriminate|].
  destruct (pre3_of ver) as [p3|]; simpl; [|discriminate].
  match goal with |- context [bind ?x _] => destruct x as [m|] end; simpl; [|discriminate].
  destruct cols as [|c cols]; [discriminate|].
  match goal with |- context [bind ?x _] => destruct x as [cs|] end; simpl; [|discriminate].
  match goal with |- context [bind ?x _] => destruct x as [rs|] end; simpl; [|discriminate].
  intros H; inversion H; subst. eexists _, _, _. split; [reflexivity|]. split; [|discriminate].
  clear. generalize (dict_of m). intros d. induction d as [|[k v] d IH]; simpl.
  - reflexivity.
  - destruct (str_eqb_spec k (s_ "ver")) as [E|E]; simpl.
    + now rewrite E, str_eqb_refl.
    + destruct (str_eqb_spec k (s_ "ver")); [contradiction | exact IH].
Qed.

(* every scalar kind carries its type prefix and its payload verbatim *)
Lemma jdump_prefixes pre3 :
  (forall s, jdump_scalar pre3 (VStr s) = Ok (JStr (115 :: 58 :: s))) /\
  (forall s, jdump_scalar pre3 (VUri s) = Ok (JStr (117 :: 58 :: s))) /\
  (forall s, jdump_scalar pre3 (VBin s) = Ok (JStr (98 :: 58 :: s))) /\
  (forall n d, jdump_scalar pre3 (VRef n (Some d)) = Ok (JStr (114 :: 58 :: n ++ 32 :: d))) /\
  (forall y m d, jdump_scalar pre3 (VDate y m d) = Ok (JStr (100 :: 58 :: iso_date y m d))) /\
  (forall h mi s us, jdump_scalar pre3 (VTime h mi s us) = Ok (JStr (104 :: 58 :: iso_time h mi s us))) /\
  (forall la lo, jdump_scalar pre3 (VCoord la lo) = Ok (JStr (99 :: 58 :: la ++ 44 :: lo))) /\
  jdump_scalar pre3 VMarker = Ok (JStr marker_str) /\
  jdump_scalar pre3 VNull = Ok JNull /\
  (forall b, jdump_scalar pre3 (VBool b) = Ok (JBool b)) /\
  jdump_scalar pre3 VRemove = Ok (JStr (if pre3 then remove2_str else remove3_str)).
Proof. repeat split; reflexivity. Qed.

Lemma jdump_ref_plain pre3 n : jdump_scalar pre3 (VRef n None) = Ok (JStr (114 :: 58 :: n)).
Proof. unfold jdump_scalar. simpl. now rewrite app_nil_r. Qed.

Lemma jdump_nonfinite pre3 z j :
  jdump_scalar pre3 (VNum NkInf z j None) = Ok (JStr (s_ "n:INF")) /\
  jdump_scalar pre3 (VNum NkNegInf z j None) = Ok (JStr (s_ "n:-INF")) /\
  jdump_scalar pre3 (VNum NkNaN z j None) = Ok (JStr (s_ "n:NaN")).
Proof. repeat split; reflexivity. Qed.

(* 3.0-only kinds are refused under a pre-3.0 version *)
Lemma jdump_gate v : is_v3_only v = true -> jdump_scalar true v = Raise ValueError.
Proof. destruct v; simpl; intros H; try discriminate; reflexivity. Qed.

(* ------------------------------------------------------------------ *)
(* C02 / C08: what was written is read back - string-like kinds, for ANY payload *)

Lemma rt_str pre3 s : jparse_str pre3 (115 :: 58 :: s) = Ok (VStr s).
Proof. reflexivity. Qed.
Lemma rt_uri pre3 s : jparse_str pre3 (117 :: 58 :: s) = Ok (VUri s).
Proof. reflexivity. Qed.
Lemma rt_bin pre3 s : jparse_str pre3 (98 :: 58 :: s) = Ok (VBin s).
Proof. reflexivity. Qed.

Lemma rt_marker pre3 : jparse_str pre3 marker_str = Ok VMarker.
Proof. reflexivity. Qed.
Lemma rt_na : jparse_str false na_str = Ok VNA /\ jparse_str true na_str = Raise ValueError.
Proof. split; reflexivity. Qed.
Lemma rt_remove pre3 : jparse_str pre3 remove2_str = Ok VRemove /\ jparse_str pre3 remove3_str = Ok VRemove.
Proof. split; reflexivity. Qed.
Lemma rt_nonfinite pre3 :
  jparse_str pre3 (s_ "n:INF") = Ok (VNum NkInf [] [] None) /\
  jparse_str pre3 (s_ "n:-INF") = Ok (VNum NkNegInf [] [] None) /\
  jparse_str pre3 (s_ "n:NaN") = Ok (VNum NkNaN [] [] None).
Proof. repeat split; reflexivity. Qed.

(* Ref: the name is made of reference characters *)
Lemma rt_ref_plain pre3 n :
  n <> [] -> forallb is_ref_char n = true -> jparse_str pre3 (114 :: 58 :: n) = Ok (VRef n None).
Proof.
  intros Hne Hn. unfold jparse_str. cbn -[match_ref match_number].
  unfold match_ref. rewrite (span_all _ _ Hn). destruct n; [contradiction | reflexivity].
Qed.

Lemma rt_ref_dis pre3 n d :
  n <> [] -> forallb is_ref_char n = true ->
  jparse_str pre3 (114 :: 58 :: n ++ 32 :: d) = Ok (VRef n (Some d)).
Proof.
  intros Hne Hn. unfold jparse_str. cbn -[match_ref match_number].
  unfold match_ref. rewrite (span_app _ n 32 d Hn eq_refl). destruct n; [contradiction | reflexivity].
Qed.

(* XStr: the type name holds no colon; the payload is ANY text *)
Lemma split_colon1_app en tx : mem_colon en = false -> split_colon1 (en ++ 58 :: tx) = (en, Some tx).
Proof.
  induction en as [|c en IH]; simpl; intros H; auto.
  apply orb_false_iff in H as [H1 H2]. rewrite H1, (IH H2). reflexivity.
Qed.

Lemma rt_xstr en tx :
  mem_colon en = false -> jparse_str false (120 :: 58 :: en ++ 58 :: tx) = Ok (VXStr en tx).
Proof.
  intros H. unfold jparse_str.
  assert (E1 : str_eqb (120 :: 58 :: en ++ 58 :: tx) remove2_str = false).
  { vm_compute remove2_str. simpl. destruct en; reflexivity. }
  cbn -[split_colon1 str_eqb remove2_str remove3_str marker_str na_str]. rewrite E1.
  cbn -[split_colon1]. now rewrite (split_colon1_app en tx H).
Qed.

(* ------------------------------------------------------------------ *)
(* fixed-width decimal fields *)

Ltac Zify.zify_post_hook ::= Z.to_euclidean_division_equations.

Lemma two_digits_d2 n r : n < 100 -> two_digits (d2 n ++ r) = Some (d2 n, r).
Proof.
  intros H. unfold d2. cbn [app two_digits].
  rewrite !is_digit_ascii by lia. reflexivity.
Qed.

Lemma four_digits_d4 n r : n < 10000 -> four_digits (d4 n ++ r) = Some (d4 n, r).
Proof.
  intros H. unfold d4. cbn [app four_digits].
  rewrite !is_digit_ascii by lia. reflexivity.
Qed.

Lemma int_d2 n : n < 100 -> int_of_digits (d2 n) = n.
Proof.
  intros H. unfold int_of_digits, d2. cbn [fold_left].
  rewrite !digit_val_ascii by lia. lia.
Qed.

Lemma int_d4 n : n < 10000 -> int_of_digits (d4 n) = n.
Proof.
  intros H. unfold int_of_digits, d4. cbn [fold_left].
  rewrite !digit_val_ascii by lia. lia.
Qed.

Lemma int_d6 n : n < 1000000 -> int_of_digits (d6 n) = n.
Proof.
  intros H. unfold int_of_digits, d6. cbn [fold_left].
  rewrite !digit_val_ascii by lia. lia.
Qed.

Lemma all_digits_d2 n : n < 100 -> all_digits (d2 n) = true.
Proof.
  intros H. unfold all_digits, d2. cbn [forallb]. rewrite !is_digit_ascii by lia. reflexivity.
Qed.

Lemma span_digits_d6 n : n < 1000000 -> span is_digit (d6 n) = (d6 n, []).
Proof.
  intros H. apply span_all. unfold d6. cbn [forallb]. rewrite !is_digit_ascii by lia. reflexivity.
Qed.

(* ------------------------------------------------------------------ *)
(* dates and times *)

Lemma hd_is_same c r : hd_is c (c :: r) = Some r.
Proof. unfold hd_is. now rewrite N.eqb_refl. Qed.

Lemma hd_is_other c x r : x <> c -> hd_is c (x :: r) = None.
Proof. intros H. unfold hd_is. destruct (N.eqb_spec x c); [contradiction | reflexivity]. Qed.

Lemma hd_is_nil c : hd_is c [] = None.
Proof. reflexivity. Qed.

Lemma hd_is_d2 c n r : c < 48 \/ 58 <= c -> hd_is c (d2 n ++ r) = None.
Proof. intros H. unfold d2. cbn [app]. apply hd_is_other. lia. Qed.

Lemma rt_date pre3 y m d :
  valid_date y m d = true ->
  jparse_str pre3 (100 :: 58 :: iso_date y m d) = Ok (VDate y m d).
Proof.
  intros Hv. assert (Hb : y < 10000 /\ m < 100 /\ d < 100).
  { unfold valid_date, days_in_month in Hv. repeat (apply andb_true_iff in Hv as [Hv ?]).
    repeat split; try lia. destruct (m =? 2); [destruct (_ || _)|destruct (_ || _)]; lia. }
  destruct Hb as [Hy [Hm Hd]].
  unfold jparse_str. cbn -[match_date match_number iso_date].
  unfold match_date, iso_date. rewrite <- ?app_assoc.
  rewrite (four_digits_d4 y _ Hy). cbn [app]. rewrite hd_is_same.
  rewrite (two_digits_d2 m _ Hm). cbn [app]. rewrite hd_is_same.
  replace (d2 d) with (d2 d ++ []) by apply app_nil_r.
  rewrite (two_digits_d2 d [] Hd). cbn [at_eol].
  rewrite (int_d4 y Hy), (int_d2 m Hm), (int_d2 d Hd), Hv. reflexivity.
Qed.

Lemma split_dot1_d2 n r : split_dot1 (d2 n ++ 46 :: r) = (d2 n, Some r).
Proof.
  unfold d2. cbn [app split_dot1].
  assert (forall k, k < 10 -> (48 + k =? 46) = false) as Hk by (intros; lia).
  rewrite !Hk by lia. reflexivity.
Qed.

Lemma split_dot1_d2_only n : split_dot1 (d2 n) = (d2 n, None).
Proof.
  unfold d2. cbn [split_dot1].
  assert (forall k, k < 10 -> (48 + k =? 46) = false) as Hk by (intros; lia).
  rewrite !Hk by lia. reflexivity.
Qed.

Lemma opt_frac_nil : opt_frac [] = ([], []).
Proof. reflexivity. Qed.

Lemma dot_digits_d6 us : us < 1000000 -> dot_digits (46 :: d6 us) = Some (46 :: d6 us, []).
Proof.
  intros H. unfold dot_digits. rewrite hd_is_same, (span_digits_d6 us H). reflexivity.
Qed.

Lemma opt_frac_d6 us : us < 1000000 -> opt_frac (46 :: d6 us) = (46 :: d6 us, []).
Proof.
  intros H. unfold opt_frac. rewrite (hd_is_other 58 46) by discriminate.
  now rewrite (dot_digits_d6 us H).
Qed.

Lemma usec_d6 us : us < 1000000 -> usec_of (d6 us) = us.
Proof.
  intros H. unfold usec_of. replace (firstn 6 (d6 us)) with (d6 us) by reflexivity.
  rewrite (int_d6 us H). replace (length (d6 us)) with 6%nat by reflexivity. simpl. lia.
Qed.

(* the seconds group on what the writer emits *)
Lemma secs_part_written s frac :
  s < 100 -> opt_frac frac = (frac, []) ->
  secs_part (58 :: d2 s ++ frac) = Some ([58], d2 s ++ frac, []).
Proof.
  intros Hs Hf. unfold secs_part. rewrite hd_is_same.
  rewrite (hd_is_d2 58 s frac) by lia.
  rewrite (two_digits_d2 s frac Hs), Hf. reflexivity.
Qed.

Lemma rt_time pre3 h mi s us :
  h <= 23 -> mi <= 59 -> s <= 59 -> us < 1000000 ->
  jparse_str pre3 (104 :: 58 :: iso_time h mi s us) = Ok (VTime h mi s us).
Proof.
  intros Hh Hm Hs Hu.
  unfold jparse_str. cbn -[match_time match_number iso_time].
  unfold match_time, iso_time. rewrite <- ?app_assoc.
  rewrite (two_digits_d2 h _ ltac:(lia)). cbn [app]. rewrite hd_is_same.
  rewrite (two_digits_d2 mi _ ltac:(lia)). cbn [app].
  assert (Hrange : (int_of_digits (d2 h) <=? 23) && (int_of_digits (d2 mi) <=? 59) && (s <=? 59) = true).
  { rewrite (int_d2 h ltac:(lia)), (int_d2 mi ltac:(lia)). lia. }
  destruct (N.eqb_spec us 0) as [->|Hne].
  - rewrite (secs_part_written s [] ltac:(lia) opt_frac_nil). cbn [at_eol].
    rewrite app_nil_r, (split_dot1_d2_only s), (all_digits_d2 s ltac:(lia)). cbn [negb].
    rewrite (int_d2 s ltac:(lia)), Hrange.
    now rewrite (int_d2 h ltac:(lia)), (int_d2 mi ltac:(lia)).
  - rewrite (secs_part_written s (46 :: d6 us) ltac:(lia) (opt_frac_d6 us Hu)). cbn [at_eol].
    rewrite (split_dot1_d2 s (d6 us)), (all_digits_d2 s ltac:(lia)). cbn [negb].
    rewrite (int_d2 s ltac:(lia)), Hrange, (usec_d6 us Hu).
    now rewrite (int_d2 h ltac:(lia)), (int_d2 mi ltac:(lia)).
Qed.

(* ------------------------------------------------------------------ *)
(* which ASCII characters are NOT digits for the reader *)

Lemma nd_zeros_shape : exists rest, nd_zeros = 48 :: rest /\ forallb (fun z => 1632 <=? z) rest = true.
Proof. vm_compute. eexists. split; reflexivity. Qed.

Lemma digit_val_in_high zs c : forallb (fun z => 1632 <=? z) zs = true -> c < 1632 -> digit_val_in zs c = None.
Proof.
  induction zs as [|z zs IH]; simpl; intros H Hc; auto.
  apply andb_true_iff in H as [H1 H2].
  assert ((z <=? c) && (c <? z + 10) = false) as -> by lia. auto.
Qed.

Lemma not_digit c : c < 48 \/ (58 <= c /\ c < 1632) -> is_digit c = false.
Proof.
  intros H. unfold is_digit, digit_val. destruct nd_zeros_shape as [rest [-> Hr]]. cbn [digit_val_in].
  assert ((48 <=? c) && (c <? 48 + 10) = false) as -> by lia.
  rewrite (digit_val_in_high rest c Hr) by lia. reflexivity.
Qed.

Lemma forallb_ascii_digit l : forallb ascii_digit l = true -> forallb is_digit l = true.
Proof.
  induction l as [|c l IH]; simpl; auto. intros H. apply andb_true_iff in H as [H1 H2].
  now rewrite (ascii_digit_is_digit c H1), (IH H2).
Qed.

(* ------------------------------------------------------------------ *)
(* numbers: the lexical shape of '%f' % x for a finite x (a CPython guarantee,
   sampled by the harness): optional minus, digits, a dot, digits *)

Definition f6_shape (tok : str) : Prop :=
  exists (neg : bool) (ip fp : str),
    tok = (if neg then [45] else []) ++ ip ++ 46 :: fp /\
    ip <> [] /\ fp <> [] /\ forallb ascii_digit ip = true /\ forallb ascii_digit fp = true.

Lemma mem_colon_digits l : forallb ascii_digit l = true -> mem_colon l = false.
Proof.
  induction l as [|c l IH]; simpl; auto. intros H. apply andb_true_iff in H as [H1 H2].
  rewrite (IH H2). unfold ascii_digit in H1. assert ((c =? 58) = false) as -> by lia. reflexivity.
Qed.

Lemma mem_colon_app a b : mem_colon (a ++ b) = mem_colon a || mem_colon b.
Proof. induction a as [|c a IH]; simpl; auto. rewrite IH. now rewrite orb_assoc. Qed.

Lemma number_body_f6 sign ip fp rest :
  ip <> [] -> fp <> [] -> forallb ascii_digit ip = true -> forallb ascii_digit fp = true ->
  (rest = [] \/ exists u, rest = 32 :: u) ->
  number_body sign (ip ++ 46 :: fp ++ rest)
  = Some (sign ++ ip ++ 46 :: fp, match rest with [] => None | _ :: u => Some u end).
Proof.
  intros Hip Hfp Dip Dfp Hrest. unfold number_body.
  assert (D1 : forallb is_digit ip = true) by now apply forallb_ascii_digit.
  assert (D2 : is_digit 46 = false) by (apply not_digit; lia).
  rewrite (span_app is_digit ip 46 (fp ++ rest) D1 D2).
  destruct ip as [|c0 ip0]; [contradiction|].
  assert (Hfrac : opt_frac (46 :: fp ++ rest) = (46 :: fp, rest)).
  { unfold opt_frac. rewrite (hd_is_other 58 46) by discriminate.
    unfold dot_digits. rewrite hd_is_same.
    assert (span is_digit (fp ++ rest) = (fp, rest)) as ->.
    { destruct Hrest as [->|[u ->]].
      - rewrite app_nil_r. apply span_all. now apply forallb_ascii_digit.
      - apply span_app; [now apply forallb_ascii_digit | apply not_digit; lia]. }
    destruct fp; [contradiction | reflexivity]. }
  rewrite Hfrac. destruct Hrest as [->|[u ->]].
  - cbn. now rewrite app_nil_r.
  - unfold opt_exp. rewrite (hd_is_other 58 32) by discriminate. cbn [exp_part].
    assert ((32 =? 101) || (32 =? 69) = false) as -> by reflexivity.
    rewrite (hd_is_other 58 32) by discriminate. rewrite hd_is_same. now rewrite app_nil_r.
Qed.

Lemma match_number_f6 tok rest :
  f6_shape tok -> (rest = [] \/ exists u, rest = 32 :: u) ->
  match_number (tok ++ rest) = Some (tok, match rest with [] => None | _ :: u => Some u end) /\
  mem_colon tok = false.
Proof.
  intros [neg [ip [fp [-> [Hip [Hfp [Dip Dfp]]]]]]] Hrest. split.
  - unfold match_number. destruct neg; cbn [app].
    + rewrite hd_is_same. rewrite <- app_assoc. cbn [app].
      now rewrite (number_body_f6 [45] ip fp rest Hip Hfp Dip Dfp Hrest).
    + destruct ip as [|c ip']; [contradiction|]. cbn [app].
      assert (Hc : ascii_digit c = true) by (simpl in Dip; now apply andb_true_iff in Dip as [H1 _]).
      rewrite hd_is_other by (unfold ascii_digit in Hc; lia).
      change (c :: ip' ++ 46 :: fp ++ rest) with ((c :: ip') ++ 46 :: fp ++ rest).
      rewrite <- app_assoc. cbn [app].
      change (c :: ip' ++ 46 :: fp ++ rest) with ((c :: ip') ++ 46 :: fp ++ rest).
      now rewrite (number_body_f6 [] (c :: ip') fp rest Hip Hfp Dip Dfp Hrest).
  - rewrite !mem_colon_app. destruct neg; simpl; rewrite (mem_colon_digits ip Dip), (mem_colon_digits fp Dfp); reflexivity.
Qed.

Lemma f6_has_dot tok : f6_shape tok -> In 46 tok.
Proof.
  intros [neg [ip [fp [-> _]]]]. rewrite !in_app_iff. right. right. simpl. auto.
Qed.

Lemma not_special tok lit : f6_shape tok -> ~ In 46 lit -> str_eqb (110 :: 58 :: tok) (110 :: 58 :: lit) = false.
Proof.
  intros Hs Hl. destruct (str_eqb (110 :: 58 :: tok) (110 :: 58 :: lit)) eqn:E; auto.
  apply str_eqb_eq in E. inversion E; subst. exfalso. apply Hl. now apply f6_has_dot.
Qed.

(* 'n:%f' and 'n:%f unit' are read back as exactly that token (and unit) *)
Lemma rt_num pre3 tok u :
  f6_shape tok ->
  jparse_str pre3 (110 :: 58 :: tok ++ match u with Some x => 32 :: x | None => [] end)
  = Ok (VNum NkFin tok tok u).
Proof.
  intros Hs.
  assert (Hs' : forall lit, ~ In 46 lit ->
            str_eqb (110 :: 58 :: tok ++ match u with Some x => 32 :: x | None => [] end) (110 :: 58 :: lit) = false).
  { intros lit Hl. destruct (str_eqb _ (110 :: 58 :: lit)) eqn:E; auto.
    apply str_eqb_eq in E. injection E as E'. exfalso. apply Hl. rewrite <- E'.
    apply in_app_iff. left. now apply f6_has_dot. }
  unfold jparse_str.
  assert (M1 : str_eqb (110 :: 58 :: tok ++ match u with Some x => 32 :: x | None => [] end) marker_str = false) by reflexivity.
  assert (M2 : str_eqb (110 :: 58 :: tok ++ match u with Some x => 32 :: x | None => [] end) na_str = false) by reflexivity.
  assert (M3 : str_eqb (110 :: 58 :: tok ++ match u with Some x => 32 :: x | None => [] end) remove2_str = false) by reflexivity.
  assert (M4 : str_eqb (110 :: 58 :: tok ++ match u with Some x => 32 :: x | None => [] end) remove3_str = false) by reflexivity.
  rewrite M1, M2, M3, M4. cbn [orb].
  change (s_ "n:INF") with (110 :: 58 :: [73; 78; 70]).
  change (s_ "n:-INF") with (110 :: 58 :: [45; 73; 78; 70]).
  change (s_ "n:NaN") with (110 :: 58 :: [78; 97; 78]).
  rewrite !Hs' by (simpl; intuition discriminate).
  change (s_ "n:") with [110; 58]. cbn [strip_prefix N.eqb Pos.eqb].
  assert (Hrest : (match u with Some x => 32 :: x | None => [] end) = [] \/
                  exists w, (match u with Some x => 32 :: x | None => [] end) = 32 :: w).
  { destruct u; [right; eauto | left; reflexivity]. }
  destruct (match_number_f6 tok _ Hs Hrest) as [Hm Hc]. rewrite Hm, Hc.
  destruct u; reflexivity.
Qed.

(* coordinates: 'c:%f,%f' *)
Lemma coord_part_f6 tok rest :
  f6_shape tok -> (rest = [] \/ exists r, rest = 44 :: r) -> coord_part (tok ++ rest) = (tok, rest) /\ has_digit tok = true.
Proof.
  intros [neg [ip [fp [-> [Hip [Hfp [Dip Dfp]]]]]]] Hrest.
  assert (D1 : forallb is_digit ip = true) by now apply forallb_ascii_digit.
  assert (D2 : is_digit 46 = false) by (apply not_digit; lia).
  assert (D3 : forallb is_digit fp = true) by now apply forallb_ascii_digit.
  assert (Hsp2 : span is_digit (fp ++ rest) = (fp, rest)).
  { destruct Hrest as [->|[r ->]].
    - rewrite app_nil_r. now apply span_all.
    - apply span_app; auto; apply not_digit; lia. }
  split.
  - assert (E : ((if neg then [45] else []) ++ ip ++ 46 :: fp) ++ rest
                = (if neg then [45] else []) ++ ip ++ 46 :: fp ++ rest).
    { rewrite <- !app_assoc. reflexivity. }
    rewrite E. unfold coord_part. destruct neg; cbn [app].
    + rewrite hd_is_same.
      rewrite (span_app is_digit ip 46 (fp ++ rest) D1 D2). rewrite hd_is_same, Hsp2.
      reflexivity.
    + destruct ip as [|c ip']; [contradiction|].
      assert (Hc : ascii_digit c = true) by (simpl in Dip; now apply andb_true_iff in Dip as [H1 _]).
      cbn [app]. rewrite hd_is_other by (unfold ascii_digit in Hc; lia).
      change (c :: ip' ++ 46 :: fp ++ rest) with ((c :: ip') ++ 46 :: fp ++ rest).
      rewrite (span_app is_digit (c :: ip') 46 (fp ++ rest) D1 D2). rewrite hd_is_same, Hsp2.
      reflexivity.
  - unfold has_digit. rewrite !existsb_app. destruct ip as [|c ip']; [contradiction|].
    simpl in D1. apply andb_true_iff in D1 as [H1 _]. simpl. rewrite H1. now rewrite orb_true_r.
Qed.

Lemma rt_coord pre3 la lo :
  f6_shape la -> f6_shape lo ->
  jparse_str pre3 (99 :: 58 :: la ++ 44 :: lo) = Ok (VCoord la lo).
Proof.
  intros Ha Ho. unfold jparse_str. cbn -[match_coord match_number].
  unfold match_coord.
  destruct (coord_part_f6 la (44 :: lo) Ha ltac:(right; eauto)) as [H1 H2]. rewrite H1, hd_is_same.
  replace lo with (lo ++ []) at 1 by apply app_nil_r.
  destruct (coord_part_f6 lo [] Ho ltac:(left; reflexivity)) as [H3 H4]. rewrite H3. cbn [at_eol].
  now rewrite H2, H4.
Qed.

(* ------------------------------------------------------------------ *)
(* date-times: 't:' isoformat ' ' zone *)

Lemma forallb_d6_digits us : us < 1000000 -> forallb is_digit (d6 us) = true.
Proof. intros H. unfold d6. cbn [forallb]. rewrite !is_digit_ascii by lia. reflexivity. Qed.

Lemma forallb_d2_digits n : n < 100 -> forallb is_digit (d2 n) = true.
Proof. intros H. unfold d2. cbn [forallb]. rewrite !is_digit_ascii by lia. reflexivity. Qed.

Definition frac_of (us : N) : str := if us =? 0 then [] else 46 :: d6 us.

Lemma opt_frac_before_sign us sg rest :
  us < 1000000 -> (sg = 43 \/ sg = 45) ->
  opt_frac (frac_of us ++ sg :: rest) = (frac_of us, sg :: rest).
Proof.
  intros Hu Hs. unfold frac_of. destruct (us =? 0).
  - cbn [app]. unfold opt_frac. rewrite (hd_is_other 58 sg) by (destruct Hs; subst; discriminate).
    unfold dot_digits. rewrite (hd_is_other 46 sg) by (destruct Hs; subst; discriminate). reflexivity.
  - cbn [app]. unfold opt_frac. rewrite (hd_is_other 58 46) by discriminate.
    unfold dot_digits. rewrite hd_is_same.
    rewrite (span_app is_digit (d6 us) sg rest (forallb_d6_digits us Hu))
      by (apply not_digit; destruct Hs; subst; lia).
    unfold d6. reflexivity.
Qed.

Lemma secs_part_general s frac rest :
  s < 100 -> opt_frac (frac ++ rest) = (frac, rest) ->
  secs_part (58 :: d2 s ++ frac ++ rest) = Some ([58], d2 s ++ frac, rest).
Proof.
  intros Hs Hf. unfold secs_part. rewrite hd_is_same.
  rewrite (hd_is_d2 58 s (frac ++ rest)) by lia.
  rewrite (two_digits_d2 s (frac ++ rest) Hs), Hf. reflexivity.
Qed.

Lemma tz_part_written sg hh mm rest :
  (sg = 43 \/ sg = 45) -> hh < 100 -> mm < 100 ->
  tz_part (sg :: d2 hh ++ 58 :: d2 mm ++ 32 :: rest) = Some (sg :: d2 hh ++ 58 :: d2 mm, 32 :: rest).
Proof.
  intros Hs Hh Hm. unfold tz_part.
  rewrite (hd_is_other 58 sg) by (destruct Hs; subst; discriminate).
  assert ((sg =? 122) || (sg =? 90) = false) as -> by (destruct Hs; subst; reflexivity).
  assert ((sg =? 43) || (sg =? 45) = true) as -> by (destruct Hs; subst; reflexivity).
  rewrite (span_app is_digit (d2 hh) 58 _ (forallb_d2_digits hh Hh)) by (apply not_digit; lia).
  unfold d2 at 1. rewrite hd_is_same.
  rewrite (span_app is_digit (d2 mm) 32 rest (forallb_d2_digits mm Hm)) by (apply not_digit; lia).
  reflexivity.
Qed.

(* the offset isoformat() prints for a whole number of minutes *)
Definition whole_minutes (off : Z) : Prop :=
  (Z.to_N (Z.abs off)) mod 60 = 0 /\ (Z.to_N (Z.abs off)) / 3600 < 100.

Lemma iso_offset_shape off :
  whole_minutes off ->
  exists sg hh mm, (sg = 43 \/ sg = 45) /\ hh < 100 /\ mm < 100 /\ iso_offset off = sg :: d2 hh ++ 58 :: d2 mm.
Proof.
  intros [H1 H2]. unfold iso_offset.
  exists (if (off <? 0)%Z then 45 else 43), (Z.to_N (Z.abs off) / 3600), ((Z.to_N (Z.abs off) / 60) mod 60).
  split; [destruct (off <? 0)%Z; auto|]. split; [exact H2|]. split; [pose proof (N.mod_lt (Z.to_N (Z.abs off) / 60) 60 ltac:(discriminate)); lia|].
  rewrite H1. cbn [N.eqb]. rewrite ?app_nil_r. destruct (off <? 0)%Z; cbn [app]; rewrite ?app_nil_r; reflexivity.
Qed.

Lemma rt_datetime pre3 y m d h mi s us off name :
  y < 10000 -> m < 100 -> d < 100 -> h < 100 -> mi < 100 -> s < 100 -> us < 1000000 ->
  whole_minutes off -> name <> [] -> forallb is_tzname_char name = true ->
  jparse_str pre3 (116 :: 58 :: iso_datetime y m d h mi s us off ++ 32 :: name)
  = Ok (VDateTimeRaw (iso_datetime y m d h mi s us off) (Some name)).
Proof.
  intros Hy Hm Hd Hh Hmi Hs Hu Ho Hne Hname.
  destruct (iso_offset_shape off Ho) as [sg [oh [om [Hsg [Hoh [Hom Eoff]]]]]].
  unfold jparse_str. cbn -[match_datetime match_number iso_datetime].
  assert (Etext : iso_datetime y m d h mi s us off ++ 32 :: name
                  = d4 y ++ 45 :: d2 m ++ 45 :: d2 d ++ 84 :: d2 h ++ 58 :: d2 mi ++ 58 :: d2 s ++ frac_of us
                    ++ sg :: d2 oh ++ 58 :: d2 om ++ 32 :: name).
  { unfold iso_datetime, iso_date, iso_time. rewrite Eoff. unfold frac_of.
    repeat (rewrite <- app_assoc; cbn [app]). reflexivity. }
  assert (Ehead : iso_datetime y m d h mi s us off
                  = d4 y ++ 45 :: d2 m ++ 45 :: d2 d ++ 84 :: d2 h ++ 58 :: d2 mi ++ [58] ++ (d2 s ++ frac_of us)
                    ++ (sg :: d2 oh ++ 58 :: d2 om)).
  { unfold iso_datetime, iso_date, iso_time. rewrite Eoff. unfold frac_of.
    repeat (rewrite <- app_assoc; cbn [app]). reflexivity. }
  rewrite Etext. unfold match_datetime.
  rewrite (four_digits_d4 y _ Hy), hd_is_same.
  rewrite (two_digits_d2 m _ Hm), hd_is_same.
  rewrite (two_digits_d2 d _ Hd), hd_is_same.
  rewrite (two_digits_d2 h _ Hh), hd_is_same.
  rewrite (two_digits_d2 mi _ Hmi).
  rewrite (secs_part_general s (frac_of us) _ Hs (opt_frac_before_sign us sg _ Hu Hsg)).
  rewrite (tz_part_written sg oh om name Hsg Hoh Hom).
  rewrite (hd_is_other 58 32) by discriminate. rewrite hd_is_same.
  rewrite (span_all is_tzname_char name Hname). destruct name as [|c nm]; [contradiction|].
  cbn [at_eol]. rewrite Ehead. reflexivity.
Qed.

(* ------------------------------------------------------------------ *)
(* C05: other legal spellings *)

(* a time without seconds *)
Lemma rt_time_hm pre3 h mi :
  h <= 23 -> mi <= 59 -> jparse_str pre3 (104 :: 58 :: d2 h ++ 58 :: d2 mi) = Ok (VTime h mi 0 0).
Proof.
  intros Hh Hm. unfold jparse_str. cbn -[match_time match_number d2].
  unfold match_time. rewrite (two_digits_d2 h _ ltac:(lia)), hd_is_same.
  replace (d2 mi) with (d2 mi ++ []) by apply app_nil_r.
  rewrite (two_digits_d2 mi [] ltac:(lia)). cbn [secs_part hd_is at_eol].
  rewrite (int_d2 h ltac:(lia)), (int_d2 mi ltac:(lia)).
  assert ((h <=? 23) && (mi <=? 59) = true) as -> by lia. reflexivity.
Qed.

(* a string without the s: prefix whose second character is not a colon *)
Definition bare (s : str) : Prop := match s with _ :: c1 :: _ => c1 <> 58 | _ => True end.

Lemma strip_prefix_bare p s : bare s -> strip_prefix [p; 58] s = None.
Proof.
  destruct s as [|c0 [|c1 r]]; cbn [strip_prefix bare]; intros H; auto.
  - destruct (p =? c0); reflexivity.
  - destruct (p =? c0); auto. destruct (N.eqb_spec 58 c1) as [E|E]; [congruence | reflexivity].
Qed.

Lemma str_eqb_bare s x rest : bare s -> str_eqb s (x :: 58 :: rest) = false.
Proof.
  destruct s as [|c0 [|c1 r]]; cbn [str_eqb bare]; intros H; auto.
  - now rewrite andb_false_r.
  - destruct (N.eqb_spec c1 58) as [E|E]; [contradiction|]. cbn [andb]. now rewrite andb_false_r.
Qed.

Lemma rt_bare pre3 s : bare s -> jparse_str pre3 s = Ok (VStr s).
Proof.
  intros Hb. unfold jparse_str.
  change marker_str with [109; 58]. change na_str with [122; 58].
  change remove2_str with [120; 58]. change remove3_str with [45; 58].
  change (s_ "n:INF") with (110 :: 58 :: [73; 78; 70]).
  change (s_ "n:-INF") with (110 :: 58 :: [45; 73; 78; 70]).
  change (s_ "n:NaN") with (110 :: 58 :: [78; 97; 78]).
  rewrite !(str_eqb_bare s _ _ Hb). cbn [orb].
  change (s_ "n:") with [110; 58]. change (s_ "s:") with [115; 58]. change (s_ "x:") with [120; 58].
  change (s_ "r:") with [114; 58]. change (s_ "d:") with [100; 58]. change (s_ "h:") with [104; 58].
  change (s_ "t:") with [116; 58]. change (s_ "u:") with [117; 58]. change (s_ "b:") with [98; 58].
  change (s_ "c:") with [99; 58].
  rewrite !(strip_prefix_bare _ s Hb). reflexivity.
Qed.

(* ================================================================== nested lists and dicts *)
(* ---- dict_of on a list whose keys are pairwise distinct is that list ---- *)
Lemma dict_set_fresh {A} k (v : A) m : ~ In k (map fst m) -> dict_set k v m = (m ++ [(k, v)])%list.
Proof.
  induction m as [|[y w] m IH]; cbn [dict_set map fst In List.app]; intro H; [reflexivity|].
  destruct (str_eqb_spec y k) as [E|E]; [exfalso; apply H; left; exact E|]. rewrite IH; [reflexivity|]. intro Hin. apply H. right. exact Hin.
Qed.
Lemma dict_of_nodup_acc {A} : forall (l acc : list (str * A)), NoDup (map fst (acc ++ l)) ->
  fold_left (fun m kv => dict_set (fst kv) (snd kv) m) l acc = (acc ++ l)%list.
Proof.
  induction l as [|[k v] l IH]; intros acc H; cbn [fold_left]; [rewrite app_nil_r; reflexivity|].
  cbn [fst snd]. rewrite dict_set_fresh.
  - rewrite IH; rewrite <- app_assoc; [reflexivity|exact H].
  - rewrite map_app in H. cbn [map fst] in H. apply NoDup_remove_2 in H. intro Hin. apply H. apply in_or_app. left. exact Hin.
Qed.
Lemma dict_of_nodup {A} (l : list (str * A)) : NoDup (map fst l) -> dict_of l = l.
Proof. intro H. unfold dict_of. apply (dict_of_nodup_acc l []). exact H. Qed.

(* ---- round trip of nested lists and dicts over leaves that round-trip ---- *)
Definition leaf_rt (v v' : hval) : Prop := forall f g j, jdump (S f) false v = Ok j -> jparse (S g) false j = Ok v'.
Definition is_container (v : hval) : bool := match v with VList _ | VDict _ | VGrid _ _ _ _ => true | _ => false end.
Definition grid_like {A} (d : list (str * A)) : bool :=
  match assoc (s_ "meta") d, assoc (s_ "cols") d, assoc (s_ "rows") d with Some _, Some _, Some _ => true | _, _, _ => false end.

Fixpoint rtn (n : nat) (v v' : hval) : Prop :=
  match n with
  | O => False
  | S n' =>
      (is_container v = false /\ leaf_rt v v') \/
      (exists l l', v = VList l /\ v' = VList l' /\ Forall2 (rtn n') l l') \/
      (exists d d', v = VDict d /\ v' = VDict d' /\ NoDup (map fst d) /\ grid_like d = false /\
                    Forall2 (fun a b => fst a = fst b /\ rtn n' (snd a) (snd b)) d d')
  end.

Lemma assoc_keys {A B} (d : list (str * A)) (d' : list (str * B)) k :
  map fst d = map fst d' -> (match assoc k d with Some _ => true | None => false end) = (match assoc k d' with Some _ => true | None => false end).
Proof.
  revert d'. induction d as [|[y w] d IH]; intros [|[y' w'] d'] H; cbn [map fst] in H; try discriminate; [reflexivity|].
  inversion H; subst. cbn [assoc]. destruct (str_eqb y' k); [reflexivity|apply IH; assumption].
Qed.
Lemma grid_like_keys {A B} (d : list (str * A)) (d' : list (str * B)) : map fst d = map fst d' -> grid_like d = grid_like d'.
Proof.
  intro H. unfold grid_like.
  pose proof (assoc_keys d d' (s_ "meta") H) as H1. pose proof (assoc_keys d d' (s_ "cols") H) as H2. pose proof (assoc_keys d d' (s_ "rows") H) as H3.
  destruct (assoc (s_ "meta") d), (assoc (s_ "meta") d'); try discriminate;
  destruct (assoc (s_ "cols") d), (assoc (s_ "cols") d'); try discriminate;
  destruct (assoc (s_ "rows") d), (assoc (s_ "rows") d'); try discriminate; reflexivity.
Qed.

Theorem nested_roundtrip : forall n v v', rtn n v v' -> forall f j, jdump f false v = Ok j -> jparse f false j = Ok v'.
Proof.
  induction n as [|n IH]; intros v v' H f j; cbn [rtn] in H; [contradiction|].
  destruct H as [[Hc Hl]|[[l [l' [E [E' Hf]]]]|[d [d' [E [E' [ND [Hg Hf]]]]]]]].
  - destruct f as [|f]; [cbn [jdump]; discriminate|]. intro Hd. exact (Hl f f j Hd).
  - subst. destruct f as [|f]; [cbn [jdump]; discriminate|]. cbn [jdump].
    match goal with |- bind ?m _ = _ -> _ => destruct m as [r|e] eqn:Er end; cbn [bind]; [|discriminate].
    intro Q; inversion Q; subst j. clear Q. cbn [jparse].
    assert (G : (fix go (l0 : list json) : res (list hval) := match l0 with [] => Ok [] | x :: l'0 => do v <- jparse f false x; do r0 <- go l'0; Ok (v :: r0) end) r = Ok l').
    { revert r Er. induction Hf as [|x y l l' Hxy Hl IHl]; intros r Er.
      - inversion Er; reflexivity.
      - destruct (jdump f false x) as [jx|e] eqn:Ex; cbn [bind] in Er; [|discriminate].
        match type of Er with bind ?m _ = _ => destruct m as [r0|e] eqn:Er0 end; cbn [bind] in Er; [|discriminate].
        inversion Er; subst r. rewrite (IH x y Hxy f jx Ex). cbn [bind]. rewrite (IHl r0 eq_refl). reflexivity. }
    rewrite G. reflexivity.
  - subst. destruct f as [|f]; [cbn [jdump]; discriminate|]. cbn [jdump].
    match goal with |- bind ?m _ = _ -> _ => destruct m as [r|e] eqn:Er end; cbn [bind]; [|discriminate].
    intro Q; inversion Q; subst j. clear Q.
    assert (G : map fst r = map fst d /\
                (fix go (l0 : list (str * json)) : res (list (str * hval)) := match l0 with [] => Ok [] | (k, x) :: l'0 => do v <- jparse f false x; do r0 <- go l'0; Ok ((k, v) :: r0) end) r = Ok d').
    { revert r Er. clear ND Hg. induction Hf as [|[k x] [k' y] l l' [Hk Hxy] Hl IHl]; intros r Er.
      - inversion Er; split; reflexivity.
      - cbn [fst snd] in *. subst k'. destruct (jdump f false x) as [jx|e] eqn:Ex; cbn [bind] in Er; [|discriminate].
        match type of Er with bind ?m _ = _ => destruct m as [r0|e] eqn:Er0 end; cbn [bind] in Er; [|discriminate].
        inversion Er; subst r. destruct (IHl r0 eq_refl) as [K1 K2]. split; [cbn [map fst]; rewrite K1; reflexivity|].
        rewrite (IH x y Hxy f jx Ex). cbn [bind]. rewrite K2. reflexivity. }
    destruct G as [K G]. assert (NDr : NoDup (map fst r)) by (rewrite K; exact ND).
    rewrite (dict_of_nodup r NDr). cbn [jparse].
    assert (Hgr : is_grid_obj r = false).
    { unfold is_grid_obj. change (grid_like r = false). rewrite (grid_like_keys r d K). exact Hg. }
    rewrite Hgr, G. cbn [bind]. f_equal. f_equal. apply dict_of_nodup.
    assert (K' : map fst d' = map fst d).
    { clear -Hf. induction Hf as [|a b l l' [Hk _] Hl IHl]; [reflexivity|]. cbn [map]. rewrite IHl, Hk. reflexivity. }
    rewrite K'. exact ND.
Qed.

(* ---- leaves ---- *)
Ltac leaf := intros f g j; cbn [jdump]; intro Q; inversion Q; subst j; cbn [jparse].
Lemma leaf_str s : leaf_rt (VStr s) (VStr s). Proof. leaf. apply rt_str. Qed.
Lemma leaf_uri s : leaf_rt (VUri s) (VUri s). Proof. leaf. apply rt_uri. Qed.
Lemma leaf_bin s : leaf_rt (VBin s) (VBin s). Proof. leaf. apply rt_bin. Qed.
Lemma leaf_marker : leaf_rt VMarker VMarker. Proof. leaf. apply rt_marker. Qed.
Lemma leaf_na : leaf_rt VNA VNA. Proof. leaf. exact (proj1 rt_na). Qed.
Lemma leaf_remove : leaf_rt VRemove VRemove. Proof. leaf. exact (proj2 (rt_remove false)). Qed.
Lemma leaf_null : leaf_rt VNull VNull. Proof. leaf. reflexivity. Qed.
Lemma leaf_bool b : leaf_rt (VBool b) (VBool b). Proof. leaf. reflexivity. Qed.

Fixpoint plain (n : nat) (v : hval) : Prop :=
  match n with
  | O => False
  | S n' =>
      match v with
      | VStr _ | VUri _ | VBin _ | VMarker | VNull | VBool _ | VNA | VRemove => True
      | VList l => Forall (plain n') l
      | VDict d => NoDup (map fst d) /\ grid_like d = false /\ Forall (fun kv => plain n' (snd kv)) d
      | _ => False
      end
  end.
Lemma plain_rtn : forall n v, plain n v -> rtn n v v.
Proof.
  induction n as [|n IH]; intros v H; cbn [plain] in H; [contradiction|]. cbn [rtn].
  destruct v; try contradiction;
    try (left; split; [reflexivity|first [apply leaf_str|apply leaf_uri|apply leaf_bin|apply leaf_marker|apply leaf_na|apply leaf_remove|apply leaf_null|apply leaf_bool]]).
  - right. left. exists l, l. split; [reflexivity|]. split; [reflexivity|]. induction H as [|x l Hx Hl IHl]; constructor; auto.
  - right. right. destruct H as [ND [Hg Hf]]. exists d, d. split; [reflexivity|]. split; [reflexivity|]. split; [exact ND|]. split; [exact Hg|].
    clear ND Hg. induction Hf as [|x l Hx Hl IHl]; constructor; auto.
Qed.
Theorem plain_roundtrip n v f j : plain n v -> jdump f false v = Ok j -> jparse f false j = Ok v.
Proof. intros H. apply (nested_roundtrip n). apply plain_rtn. exact H. Qed.

(* ================================================================== missing / null rows *)
Lemma rows_null_is_empty f m :
  jparse_grid (S f) ((s_ "rows", JNull) :: m) = jparse_grid (S f) ((s_ "rows", JArr []) :: m).
Proof. reflexivity. Qed.

Lemma assoc_app_none {A} k (m : list (str * A)) extra : assoc k (m ++ extra) = match assoc k m with Some x => Some x | None => assoc k extra end.
Proof. induction m as [|[y w] m IH]; cbn [List.app assoc]; [reflexivity|]. destruct (str_eqb y k); [reflexivity|exact IH]. Qed.

Lemma rows_missing_is_empty f m : assoc (s_ "rows") m = None ->
  jparse_grid (S f) (m ++ [(s_ "rows", JArr [])]) = jparse_grid (S f) m.
Proof.
  intro H. cbn [jparse_grid]. rewrite !assoc_app_none. rewrite H.
  destruct (assoc (s_ "meta") m) as [jm|]; [|reflexivity].
  destruct jm; try reflexivity.
  destruct (assoc (s_ "ver") m0) as [jv|]; [|reflexivity]. destruct jv; try reflexivity.
  destruct (parse_ver s); cbn [bind]; [|reflexivity]. destruct (pre3_of s); cbn [bind]; [|reflexivity].
  match goal with |- bind ?x _ = bind ?x _ => destruct x end; cbn [bind]; [|reflexivity].
  destruct (assoc (s_ "cols") m) as [jc|]; [|reflexivity]. destruct jc; try reflexivity.
Qed.
