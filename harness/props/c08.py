"""C08 - no text content can break out of its cell.

Theorems: coq/theories/Props/C08.v - the writer's escaping is total, its output
never contains a structural character (< U+0020, the closing quote), the
reader's quoted-literal matcher stops exactly at the closing quote and returns
the original text, for EVERY code-point list (sweep over all code points
below 2^16 by computation inside Coq + a bound lemma above), in both the
string and the URI alphabet; the JSON positions by the prefix lemmas of C02.
Tie: the extracted `esc` (escape + re-read) vs zincdumper.dump_str / dump_uri /
the pyparsing literals hs_str / hs_uri on every payload.
Search on the implementation: every payload in every text-carrying position
(str cell, Uri cell, Ref display, XStr payload, grid / column metadata value,
list element, dict value, cell of a nested grid) of a two-grid document, dumped
in both formats and re-read: same number of grids, rows and cells, neighbours
unchanged, payload identical and of the same kind."""
import itertools
import random

import codec
import zincsim
from common import Sym

COMPONENTS = ['escape', 'version', 'json']

META = ['"', '\\', '$', '`', ',', '\n', '\r', '\t', '>', '<', ' ', ':', 'n', 'u', '{', '}', '[', ']', '(', ')', '@', '\x00', '\x1f', '\x7f',
        ' ', '\U0001F600', "'", '0']
POSITIONS = ['str', 'uri', 'refdis', 'xstr', 'gmeta', 'cmeta', 'list', 'dict', 'nested']
POS_2_0 = ['str', 'uri', 'refdis', 'gmeta', 'cmeta']
XSTR_TYPES = ['Foo', 'Hex', 'HEX', 'B64', 'Xb64', 'H', 'Hex2']


def wrap(h, pos, s, i):
    if pos == 'str':
        return s
    if pos == 'uri':
        return h.Uri(s)
    if pos == 'refdis':
        return h.Ref('r%d' % i, s, True)
    if pos == 'xstr':
        # the type name rotates over case variants of the two binary encodings (only the exact lower-case hex / b64 are binary)
        return h.XStr(XSTR_TYPES[(len(s) + sum(map(ord, s[:4]))) % len(XSTR_TYPES)], s)      # a function of the payload: alone or in a batch, the same value
    if pos == 'list':
        return ['a', s, 'z']
    if pos == 'dict':
        return {'a': 'A', 'p': s, 'z': h.Uri(s)}
    if pos == 'nested':
        g = h.Grid(version='3.0')
        g.metadata['m'] = s
        g.column['k'] = {}
        g.column['v'] = {'dis': s}
        g.append({'k': 'K', 'v': s})
        g.append({'k': s, 'v': 'V'})
        return g
    raise KeyError(pos)


def build(h, pos, payloads, ver):
    """two grids; the payloads sit between fixed neighbours"""
    g = h.Grid(version=ver)
    g.metadata['before'] = 'B'
    if pos == 'gmeta':
        for i, s in enumerate(payloads):
            g.metadata['m%d' % i] = s
    g.metadata['after'] = h.MARKER
    g.column['l'] = {}
    if pos == 'cmeta':
        g.column['x'] = dict([('first', 'F')] + [('c%d' % i, s) for i, s in enumerate(payloads)] + [('last', 'L')])
    else:
        g.column['x'] = {}
    g.column['r'] = {'dis': 'right'}
    if pos in ('gmeta', 'cmeta'):
        g.append({'l': 'L', 'x': 'X', 'r': h.Ref('r')})
    else:
        for i, s in enumerate(payloads):
            g.append({'l': 'L%d' % i, 'x': wrap(h, pos, s, i), 'r': h.Ref('r%d' % i)})
    g2 = h.Grid(version=ver)
    g2.column['only'] = {}
    g2.append({'only': 'second grid'})
    return [g, g2]


def roundtrip(h, pos, payloads, ver, mode):
    """None when everything came back, else a description"""
    grids = build(h, pos, payloads, ver)
    want = [codec.canon(g) for g in grids]
    try:
        text = h.dump(grids, mode=mode)
    except Exception as e:  # noqa
        return 'dump raised %s: %s' % (type(e).__name__, str(e)[:100])
    try:
        back = h.parse(text, mode=mode, single=False)
    except Exception as e:  # noqa
        return 'the dumped document no longer parses (%s)' % type(e).__name__
    if len(back) != 2:
        return 'the document now holds %d grids instead of 2' % len(back)
    got = [codec.canon(g) for g in back]
    if len(back[0]) != len(grids[0]):
        return 'the first grid now has %d rows instead of %d' % (len(back[0]), len(grids[0]))
    if got[1] != want[1]:
        return 'the following grid changed'
    if got[0] != want[0]:
        a, b = _diff(got[0], want[0])
        return 'came back as %r, dumped %r' % (_short(a), _short(b))
    return None


def _short(x):
    r = repr(x)
    return r if len(r) < 160 else r[:160] + '...'


def _diff(a, b):
    if isinstance(a, tuple) and isinstance(b, tuple) and len(a) == len(b):
        for x, y in zip(a, b):
            if x != y:
                return _diff(x, y)
    return (a, b)


def _worker(args):
    pos, ver, mode, payloads = args
    import warnings
    warnings.simplefilter('ignore')
    h = codec.H()
    if roundtrip(h, pos, payloads, ver, mode) is None:
        return None
    # locate the individual payload
    for s in payloads:
        r = roundtrip(h, pos, [s], ver, mode)
        if r is not None:
            return (pos, ver, mode, s, r)
    return (pos, ver, mode, None, 'a batch of %d payloads fails although each payload alone passes' % len(payloads))


def _impl_esc(s):
    """zincdumper's two escapers and the pyparsing literals on their output followed by an X"""
    from hszinc import zincdumper, zincparser
    out = []
    for dump, lit in ((zincdumper.dump_str, zincparser.hs_str), (zincdumper.dump_uri, zincparser.hs_uri)):
        try:
            t = dump(s)
        except Exception as e:  # noqa
            out.append(('raise', codec.exc_class(e)))
            continue
        try:
            loc, toks = lit._parse(t + 'X', 0)
            out.append(('ok', t, str(toks[0]), (t + 'X')[loc:]))
        except Exception as e:  # noqa
            out.append(('nomatch', t, type(e).__name__))
    return out


def _esc_worker(chunk):
    return [_impl_esc(s) for s in chunk]


def _model_esc(ans):
    """(esc s) answer -> same shape as _impl_esc"""
    ds, du, bs, bu = ans
    out = []
    for d, b in ((ds, bs), (du, bu)):
        if isinstance(d, list) and d and str(d[0]) == 'ok':
            t = d[1]
            if isinstance(b, list) and len(b) == 2 and isinstance(b[0], list) and str(b[0][0]) == 'ok':
                out.append(('ok', t, b[0][1], b[1]))
            else:
                out.append(('nomatch', t, None))
        else:
            out.append(('raise', str(d[1]) if isinstance(d, list) and len(d) > 1 else str(d)))
    return out


def payload_sets(rng, thorough):
    if thorough:
        single = [chr(c) for c in range(0x110000)]
    else:
        cps = set(range(0x500)) | set(range(0x500, 0x110000, 97))
        for b in (0x7f, 0x80, 0xff, 0x100, 0x7ff, 0x800, 0x2028, 0x2029, 0xd7ff, 0xd800, 0xdbff, 0xdc00, 0xdfff, 0xe000, 0xfffe, 0xffff, 0x10000, 0x10ffff,
                  0xfeff, 0xfffd):
            cps.update((b - 1, b, b + 1) if 0 < b < 0x10ffff else (b,))
        single = [chr(c) for c in sorted(cps)]
    combos = [''.join(t) for n in ((1, 2, 3) if thorough else (1, 2)) for t in itertools.product(META, repeat=n)]
    if not thorough:
        combos += [''.join(rng.choice(META) for _ in range(3)) for _ in range(600)]
    look = ['n:1', 's:x', 'm:', 'z:', 'x:', '-:', 'r:a b', 'u:x', 'b:x', 't:2020-01-01T00:00:00Z UTC', 'd:2020-01-01', 'h:12:00', 'c:1,2', 'x:Foo:bar', '>>', '<<', '\n\n',
            '\nver:"3.0"\nx\n1\n', '","', '`,`', '\\', '\\\\', '\\"', '\\u0041', '\\$', '$$', '"]', '"}', '")', '")>>', ' ', '  ', '', '\r\n', 'N', 'M', 'T', 'NA',
            '{"a":1}', '[1,2]', '"quoted"', 'null', 'true',
            # a type-prefixed look-alike on a LATER line of the payload (anchors under re.MULTILINE), and before a final newline
            'see\nh:12:30', 'x\nd:2020-01-01', 'x\nt:2020-01-01T00:00:00Z UTC', 'a\nn:5', 'a\nn:5 kg', 'q\nm:', 'x\nr:abc', 'y\ns:z', 'x\nc:1,2', 'x\nx:T:v',
            'h:12:30\nsee', 'd:2020-01-01\n', 'n:5\n', 'h:12:30\n', 't:2020-01-01T00:00:00Z UTC\n', 'x\r\nh:12:30', 'x\u2028h:12:30', 'x\x0bh:12:30']
    longer = [codec.gen_text(rng) for _ in range(1500 if thorough else 300)]
    longer += [''.join(rng.choice(META + ['a', 'é', '\ud800', '\udfff']) for _ in range(rng.randint(4, 12))) for _ in range(3000 if thorough else 400)]
    # a high surrogate directly followed by a low one is not a code-point sequence (it is the UTF-16 form of one
    # supplementary code point, and JSON text reads it as that): keep lone surrogates only
    import re
    pair = re.compile('[\ud800-\udbff]+(?=[\udc00-\udfff])')
    longer = [pair.sub('', t) for t in longer]
    return single, combos, look, longer


def run(ctx):
    rng = random.Random(ctx.seed + 8)
    thorough = ctx.tier == 'thorough' or ctx.escalate
    single, combos, look, longer = payload_sets(rng, thorough)
    ctx.coverage['rule'] = ('%s single code points (%s; in the tie with the model and in the str-cell position, the other positions take all below U+3000 and every 29th beyond), every string up to length %d over a %d-character metacharacter alphabet, %d type-prefix / structural look-alikes, '
                            '%d random longer strings; each in 9 text positions x {ZINC, JSON} x versions {3.0 all positions, 2.0 where legal}; '
                            'distinct by (payload, position, format, version)'
                            % (len(single), 'all of U+0000..U+10FFFF' if thorough else 'all below U+0500, every 97th beyond, boundary points', 3 if thorough else 2,
                               len(META), len(look), len(longer)))
    ctx.coverage['exhaustive'] = bool(thorough)
    h = codec.H()
    pool = zincsim.pool()

    # 1. model <-> implementation on the escapers and the literals
    everything = list(dict.fromkeys(single + combos + look + longer))
    tie = everything if thorough else everything
    chunks = [tie[i:i + 2000] for i in range(0, len(tie), 2000)]
    impl = [x for part in pool.map(_esc_worker, chunks) for x in part]
    model = ctx.model.ask_parallel([[Sym('esc'), s] for s in tie])
    for s, a, b in zip(tie, model, impl):
        ctx.coverage['traces_validated_against_impl'] += 1
        ma = _model_esc(a)
        if ma != [tuple(x) if x[0] != 'nomatch' else ('nomatch', x[1], None) for x in b]:
            ctx.coverage['disagreements_checked'] += 1
            ctx.violation('correspondence-broken', 'model of the escapers / quoted literals differs from zincdumper / zincparser on %r: model %r, implementation %r'
                          % (s[:40], _short(ma), _short(b)), {'payload': [ord(c) for c in s], 'component': 'esc'})
            break
        for kind, x in zip(('str', 'uri'), b):
            if x[0] != 'ok':
                ctx.violation('impl-counterexample', 'the %s writer / literal fails on %r: %r' % (kind, s[:40], _short(x)), {'payload': [ord(c) for c in s]})
                return
            if x[2] != s or x[3] != 'X':
                ctx.violation('impl-counterexample', 'the %s literal written for %r reads back as %r and leaves %r' % (kind, s[:40], x[2][:40], x[3][:40]),
                              {'payload': [ord(c) for c in s]})
                return

    # 2. every payload in every position, both formats
    jobs = []
    batch = 256
    def add(payloads, positions, ver):
        for pos in positions:
            b = 64 if pos in ('gmeta', 'cmeta', 'nested') else batch
            for i in range(0, len(payloads), b):
                for mode in (h.MODE_ZINC, h.MODE_JSON):
                    jobs.append((pos, ver, mode, payloads[i:i + b]))
    if thorough:
        add(single, ['str'], '3.0')
        sub = single[:0x3000] + single[0x3000::29]
        add(sub, [p for p in POSITIONS if p != 'str'], '3.0')
        add(sub, ['str', 'uri'], '2.0')
    else:
        add(single, ['str', 'uri', 'refdis', 'xstr'], '3.0')
        add(single[:0x500] + single[0x500::7], ['gmeta', 'cmeta', 'list', 'dict', 'nested'], '3.0')
        add(single[:0x500], ['str', 'uri'], '2.0')
    add(combos + look + longer, POSITIONS, '3.0')
    add(look + longer + combos[:len(META) + len(META) ** 2], POS_2_0, '2.0')
    for j in jobs:
        n = len(j[3])
        ctx.coverage['evaluations'] += n
        ctx.count('position:' + j[0], n)
        ctx.count('format:' + j[2], n)
    bad = [r for r in pool.imap_unordered(_worker, jobs, chunksize=4) if r is not None]
    ctx.coverage['distinct_nontrivial'] = ctx.coverage['evaluations']
    for pos, ver, mode, s, why in sorted(bad, key=lambda r: (len(r[3] or ''), r[0]))[:6]:
        ctx.violation('impl-counterexample', 'payload %r in position %s (%s, version %s): %s' % (s, pos, mode, ver, why),
                      {'payload': [ord(c) for c in (s or '')], 'position': pos, 'mode': mode, 'version': ver})
    ctx.sample({'payload': '",\n>>\\$`', 'position': 'nested', 'outcome': roundtrip(h, 'nested', ['",\n>>\\$`'], '3.0', h.MODE_ZINC) or 'round trip exact'})


def replay(ctx, data):
    h = codec.H()
    s = ''.join(chr(c) for c in data.get('payload', []))
    if 'position' in data:
        r = roundtrip(h, data['position'], [s], data['version'], data['mode'])
        print('replay: payload %r position %s %s -> %s' % (s, data['position'], data['mode'], r or 'ok'))
        if r:
            ctx.violation('impl-counterexample', 'payload %r in position %s: %s' % (s, data['position'], r), data)
    else:
        print('replay:', _impl_esc(s))
        run(ctx)
