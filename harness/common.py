"""Shared machinery of the /verif checks: build, model process, wire codec,
evidence, violations, known findings."""
import fcntl
import glob
import json
import os
import re
import subprocess
import sys
import time

VERIF = os.path.dirname(os.path.dirname(os.path.abspath(__file__)))
REPO = os.environ.get('HSZINC_REPO', '/repo')
COQ = os.path.join(VERIF, 'coq')
THEORIES = os.path.join(COQ, 'theories')
HSMODEL = os.path.join(VERIF, 'ocaml', 'hsmodel')
WORK = os.path.join(VERIF, '.work')
REPLAYS = os.path.join(VERIF, 'replays')
EVIDENCE = os.path.join(VERIF, 'evidence')
PY = '/venv/bin/python'

GLOBAL_TRUSTED_BASE = [
    'Coq 8.16.1 kernel (coqc); vm_compute used for finite sweeps/witnesses; no native_compute',
    'Extraction: ExtrOcamlBasic only (Extract Inductive bool/option/unit/prod/list/sumbool/sumor/comparison); no Extract Constant; OCaml 4.13.1 ocamlopt',
    'ocaml/driver.ml (S-expression I/O of the extracted model)',
    'harness/srcdata.py (literal-data translator, fails closed), harness generators/comparators',
    'CPython 3.12 and the third-party libraries hszinc calls (pyparsing, re, json, datetime, pytz, iso8601) are modelled or used as oracles, not verified',
]


# --------------------------------------------------------------- wire codec
class Sym(str):
    """A bare word on the wire (decodes to an ordinary string)."""


_BARE = re.compile(r'^[A-Za-z_][A-Za-z0-9_-]*$')


def sx(o):
    if isinstance(o, Sym):
        return str(o)
    if isinstance(o, bool):
        return 'true' if o else 'false'
    if isinstance(o, int):
        return str(o)
    if isinstance(o, str):
        return '#' + '.'.join(str(ord(c)) for c in o)
    if isinstance(o, (list, tuple)):
        return '(' + ' '.join(sx(x) for x in o) + ')'
    raise TypeError('cannot encode %r' % (o,))


_TOK = re.compile(r'\(|\)|#[0-9.]*|-?[0-9]+(?![A-Za-z_])|[A-Za-z_][A-Za-z0-9_-]*')


def parse_sx(text):
    toks = _TOK.findall(text)
    pos = 0

    def item():
        nonlocal pos
        t = toks[pos]
        pos += 1
        if t == '(':
            out = []
            while toks[pos] != ')':
                out.append(item())
            pos += 1
            return out
        if t[0] == '#':
            return ''.join(chr(int(d)) for d in t[1:].split('.')) if len(t) > 1 else ''
        if t[0].isdigit() or t[0] == '-':
            return int(t)
        return t

    r = item()
    if pos != len(toks):
        raise ValueError('trailing wire tokens in %r' % text[:200])
    return r


class Model:
    """The extracted model (ocaml/hsmodel).  ask() sends a batch of commands
    to a fresh process and returns the decoded answers."""

    def __init__(self):
        self.calls = 0

    def ask(self, cmds, raw=False):
        if not cmds:
            return []
        lines = [c if isinstance(c, str) else sx(c) for c in cmds]
        p = subprocess.run([HSMODEL], input='\n'.join(lines) + '\n', stdout=subprocess.PIPE,
                           stderr=subprocess.PIPE, text=True)
        out = p.stdout.split('\n')
        if out and out[-1] == '':
            out.pop()
        if p.returncode != 0 or len(out) != len(lines):
            raise RuntimeError('model process failed: rc=%s, %d answers for %d commands; stderr=%s'
                               % (p.returncode, len(out), len(lines), p.stderr[-500:]))
        self.calls += len(lines)
        return out if raw else [parse_sx(o) for o in out]

    def ask_parallel(self, cmds, jobs=8, raw=False):
        from concurrent.futures import ThreadPoolExecutor
        if len(cmds) < 2000:
            return self.ask(cmds, raw=raw)
        n = (len(cmds) + jobs - 1) // jobs
        chunks = [cmds[i:i + n] for i in range(0, len(cmds), n)]
        with ThreadPoolExecutor(max_workers=jobs) as ex:
            parts = list(ex.map(lambda c: self.ask(c, raw=raw), chunks))
        return [x for part in parts for x in part]


# --------------------------------------------------------------------- build
def _closure(vfile, seen=None):
    """.v files under theories/ that `vfile` transitively requires."""
    seen = seen if seen is not None else set()
    if vfile in seen or not os.path.exists(vfile):
        return seen
    seen.add(vfile)
    with open(vfile, encoding='utf-8') as f:
        text = f.read()
    # (a lazy match up to the first full stop that is followed by white space: linear, unlike a nested repetition)
    for m in re.finditer(r'From\s+HS\s+Require\s+(?:Import\s+|Export\s+)?(.*?)\.(?=\s)', text, re.S):
        for mod in m.group(1).split():
            _closure(os.path.join(THEORIES, mod.strip('.').replace('.', '/') + '.v'), seen)
    return seen


_QED = re.compile(r'\b(Qed|Defined)\s*\.')
_THM = re.compile(r'^\s*(?:Theorem|Corollary)\s+([A-Za-z0-9_\']+)', re.M)


def build(prop, components=None, log=print):
    """Regenerate Gen/*.v from /repo, build incrementally, check Props/<prop>.v.
    Returns a status dict; never raises on proof failure."""
    os.makedirs(WORK, exist_ok=True)
    st = {'srcdata': {}, 'props_ok': False, 'model_ok': False, 'assumptions': '',
          'obligations': 0, 'discharged': 0, 'theorems': [], 'errors': [], 'broken_files': []}
    t0 = time.time()
    with open(os.path.join(WORK, 'build.lock'), 'w') as lock:
        fcntl.flock(lock, fcntl.LOCK_EX)
        sys.path.insert(0, os.path.join(VERIF, 'harness'))
        import srcdata
        st['srcdata'] = srcdata.generate()
        st['fingerprints'] = dict(srcdata.FINGERPRINTS)
        for k, v in st['srcdata'].items():
            if v != 'ok' and (components is None or k in components):
                st['errors'].append('translator %s: %s' % (k, v))
        try:
            st['pins_broken'] = srcdata.pins_broken_for(prop)
        except Exception as e:  # noqa
            st['pins_broken'] = ['pins could not be evaluated: %s: %s' % (type(e).__name__, e)]
        p = subprocess.run(['make', '-C', VERIF, 'model'], stdout=subprocess.PIPE, stderr=subprocess.STDOUT, text=True)
        st['make_tail'] = p.stdout[-3000:]
        with open(os.path.join(WORK, 'make.%s.log' % prop), 'w') as f:
            f.write(p.stdout)
        st['model_ok'] = os.path.exists(HSMODEL) and _model_fresh()
        if not st['model_ok']:
            st['errors'].append('extracted model could not be rebuilt')
        # proofs: every file in the closure of Props/<prop>.v must have an up-to-date .vo
        pfile = os.path.join(THEORIES, 'Props', prop + '.v')
        files = sorted(_closure(pfile))
        ok = bool(files)
        for vf in files:
            with open(vf, encoding='utf-8') as f:
                nq = len(_QED.findall(f.read()))
            st['obligations'] += nq
            vo = vf[:-2] + '.vo'
            if os.path.exists(vo) and os.path.getmtime(vo) >= os.path.getmtime(vf):
                st['discharged'] += nq
            else:
                ok = False
                st['broken_files'].append(os.path.relpath(vf, THEORIES))
        if os.path.exists(pfile):
            with open(pfile, encoding='utf-8') as f:
                st['theorems'] = _THM.findall(f.read())
        # re-load the compiled property file and print the assumptions of every theorem
        if ok:
            chk = os.path.join(WORK, 'Assum_%s_%d.v' % (prop, os.getpid()))
            with open(chk, 'w') as f:
                f.write('From HS Require Import Props.%s.\n' % prop)
                for th in st['theorems']:
                    f.write('Print Assumptions %s.\n' % th)
            p = subprocess.run(['timeout', '300', 'coqc', '-Q', THEORIES, 'HS', chk],
                               stdout=subprocess.PIPE, stderr=subprocess.STDOUT, text=True, cwd=WORK)
            st['assumptions'] = p.stdout.strip()
            if p.returncode != 0:
                ok = False
                st['errors'].append('re-loading Props.%s failed: %s' % (prop, p.stdout[-800:]))
            for ext in ('.v', '.vo', '.vok', '.vos', '.glob'):
                try:
                    os.unlink(chk[:-2] + ext)
                except OSError:
                    pass
            try:
                os.unlink(os.path.join(WORK, '.' + os.path.basename(chk)[:-2] + '.aux'))
            except OSError:
                pass
        else:
            st['errors'].append('proof files not compiled: %s' % ', '.join(st['broken_files']))
            st['errors'].append(_first_coq_error())
        st['props_ok'] = ok
    st['build_s'] = round(time.time() - t0, 1)
    return st


def _model_fresh():
    gen = os.path.join(VERIF, 'ocaml', 'gen', 'hsmodel.ml')
    ext = os.path.join(THEORIES, 'Extract', 'Extract.vo')
    srcs = [p for p in glob.glob(os.path.join(THEORIES, 'Model', '*.v')) + glob.glob(os.path.join(THEORIES, 'Gen', '*.v'))
            + glob.glob(os.path.join(THEORIES, 'Base', '*.v'))]
    if not (os.path.exists(gen) and os.path.exists(ext)):
        return False
    newest = max(os.path.getmtime(p) for p in srcs)
    return os.path.getmtime(ext) >= newest and os.path.getmtime(HSMODEL) >= os.path.getmtime(gen)


def _first_coq_error():
    try:
        with open(os.path.join(COQ, 'build.log')) as f:
            log = f.read()
    except OSError:
        return ''
    m = re.search(r'(File "[^"]+", line \d+, characters [-\d]+:\nError:.*?)(?=\n(?:COQC|make|File|$))', log, re.S)
    return m.group(1)[:1500] if m else ''


# ----------------------------------------------------------- known findings
def known_findings(prop):
    path = os.path.join(VERIF, 'KNOWN_FINDINGS.json')
    if not os.path.exists(path):
        return []
    with open(path) as f:
        data = json.load(f)
    return [k for k in data.get('findings', []) if k.get('property') == prop]


# ------------------------------------------------------------------ context
class Ctx:
    def __init__(self, prop, tier, seed):
        self.prop = prop
        self.tier = tier
        self.seed = seed
        self.t0 = time.time()
        self.model = Model()
        self.violations = []      # (kind, description, replay-dict)
        self.known_hits = {}      # finding id -> description
        self.coverage = {'evaluations': 0, 'distinct_nontrivial': 0, 'samples': [], 'rule': '',
                         'traces_validated_against_impl': 0, 'disagreements_checked': 0,
                         'exhaustive': False, 'distribution': {}}
        self.assumptions = []
        self.build = None
        self.notes = []

    def count(self, key, n=1):
        d = self.coverage['distribution']
        d[key] = d.get(key, 0) + n

    def sample(self, s):
        if len(self.coverage['samples']) < 12:
            self.coverage['samples'].append(s)

    def violation(self, kind, what, replay):
        """kind: impl-counterexample | correspondence-broken | proof-broken"""
        self.violations.append((kind, what, replay))

    def known(self, fid, what, replay=None):
        """a failure that KNOWN_FINDINGS.json lists (by id) is reported as KNOWN-FINDING; an unlisted one is a violation"""
        listed = {k.get('id'): k for k in known_findings(self.prop)}
        if fid in listed:
            self.known_hits[fid] = listed[fid].get('what', what)
        else:
            self.violation('impl-counterexample', what, replay or {'finding': fid})

    # -- finishing
    def finish(self):
        os.makedirs(REPLAYS, exist_ok=True)
        os.makedirs(EVIDENCE, exist_ok=True)
        b = self.build or {}
        impl_cex = [v for v in self.violations if v[0] == 'impl-counterexample']
        other = [v for v in self.violations if v[0] != 'impl-counterexample']
        lines = []
        rc = 0
        for fid, what in sorted(self.known_hits.items()):
            lines.append('KNOWN-FINDING: property=%s %s' % (self.prop, what))
        if impl_cex:
            rc = 1
            kind, what, replay = impl_cex[0]
            path = self._write_replay(kind, what, replay, also=[v[1] for v in impl_cex[1:6]])
            lines.append('VIOLATION property=%s replay=%s' % (self.prop, path))
        elif other:
            rc = 1
            kind, what, replay = other[0]
            path = self._write_replay(kind, what, replay, also=[v[1] for v in other[1:6]])
            lines.append('VIOLATION property=%s replay=%s no-failing-input-found' % (self.prop, path))
        cov = dict(self.coverage)
        cov['obligations'] = b.get('obligations', 0)
        cov['discharged'] = b.get('discharged', 0)
        cov['checker_cmd'] = 'make -C /verif model  (coq_makefile full .vo build of coq/theories, then coqc re-load of Props/%s.vo with Print Assumptions)' % self.prop
        cov['trusted_base'] = ['Print Assumptions: ' + (b.get('assumptions') or '(not available)').replace('\n', ' | ')] \
            + GLOBAL_TRUSTED_BASE + self.assumptions
        cov['theorems'] = b.get('theorems', [])
        cov['srcdata'] = b.get('srcdata', {})
        cov['notes'] = self.notes
        if b.get('errors'):
            cov['build_errors'] = b['errors']
        ev = {'property_id': self.prop, 'tier': self.tier, 'seed': self.seed, 'level': 'proof',
              'coverage': cov, 'assumptions': GLOBAL_TRUSTED_BASE + self.assumptions,
              'wall_s': round(time.time() - self.t0, 2), 'violations': len(self.violations)}
        with open(os.path.join(EVIDENCE, self.prop + '.json'), 'w') as f:
            json.dump(ev, f, indent=1, default=str)
        for ln in lines:
            print(ln)
        print('%s tier=%s seed=%s evaluations=%d nontrivial=%d obligations=%d/%d violations=%d known=%d wall=%.1fs'
              % (self.prop, self.tier, self.seed, cov['evaluations'], cov['distinct_nontrivial'],
                 cov['discharged'], cov['obligations'], len(self.violations), len(self.known_hits),
                 time.time() - self.t0))
        sys.stdout.flush()
        return rc

    def _write_replay(self, kind, what, replay, also=()):
        n = 0
        while True:
            path = os.path.join(REPLAYS, '%s-%s-%d.json' % (self.prop, time.strftime('%Y%m%d%H%M%S'), n))
            if not os.path.exists(path):
                break
            n += 1
        with open(path, 'w') as f:
            json.dump({'property': self.prop, 'kind': kind, 'what': what, 'replay': replay,
                       'seed': self.seed, 'tier': self.tier, 'also': list(also)}, f, indent=1, default=str)
        return path


def quiet_import_hszinc():
    """Import /repo's hszinc in-process with stdout silenced (it prints debug text)."""
    if REPO not in sys.path:
        sys.path.insert(0, REPO)
    import hszinc  # noqa
    return hszinc
