(* Date-times ANYWHERE in a 3.0 grid: inside lists and dicts to any depth, as metadata and column metadata values, as cells.
   The relation is two-sided: (written value, value read, text).  Every kind of the general theorem is related to itself;
   a date-time in a named zone is related to its raw ISO text and zone name (what the reader model hands to the oracle). *)
From Coq Require Import String.
From Coq Require Import List NArith Bool Lia Arith Setoid.
From HS Require Import Base.Prelude Model.Value Model.Escape Model.Version Model.Json Model.ZincParse Model.ZincDump.
From HS Require Import Proofs.PreludeP Proofs.VersionP Proofs.EscapeP Proofs.JsonP Proofs.ZincParseP Proofs.ZincDumpP Proofs.ZincNumP Proofs.ZincDateP Proofs.ZincListP Proofs.ZincGridP Proofs.ZincDictP Proofs.ZincMetaP Proofs.ZincNestP Proofs.ZincDateTimeP Proofs.ZincRawP.
Import ListNotations.
Open Scope N_scope.

Definition wr_sem (n : nat) (w r : hval) (t : str) : Prop :=
  (forall f, zdump (S (n + f)) false w = Ok t) /\ (forall k, readsd (n + k) r t).

(* a date-time in a named zone *)
Definition dtt (w r : hval) (t : str) : Prop :=
  exists y m d h mi s us off zn sg hh mm,
    iso_offset off = off_text sg hh mm /\ dt_ok y m d h mi s us sg hh mm /\ tzname_ok zn /\
    w = VDateTime y m d h mi s us off (ZName zn) /\ r = VDateTimeRaw (iso_datetime y m d h mi s us off) (Some zn) /\
    t = (iso_datetime y m d h mi s us off ++ 32 :: zn)%list.

Lemma dtt_sem n w r t : dtt w r t -> wr_sem n w r t.
Proof.
  intros [y [m [d [h [mi [s [us [off [zn [sg [hh [mm [Eo [Hok [Hz [Ew [Er Et]]]]]]]]]]]]]]]]]. subst w r t. split; [intro f; reflexivity|].
  intros k rest Hd. apply (datetime_written_read 0 (n + k) true y m d h mi s us off zn sg hh mm _ rest Eo Hok Hz Hd). reflexivity.
Qed.

Definition w3 (x : hval * hval * str) : hval := fst (fst x).
Definition r3 (x : hval * hval * str) : hval := snd (fst x).
Definition t3 (x : hval * hval * str) : str := snd x.
Definition q4 := (str * hval * hval * str)%type.
Definition k4 (x : q4) : str := fst (fst (fst x)).
Definition w4 (x : q4) : hval := snd (fst (fst x)).
Definition r4 (x : q4) : hval := snd (fst x).
Definition t4 (x : q4) : str := snd x.
Definition pw (x : q4) : str * hval * str := (k4 x, w4 x, t4 x).
Definition pr (x : q4) : str * hval * str := (k4 x, r4 x, t4 x).

(* metadata items (k, w, r, t), columns, nested grids over a triple relation P *)
Definition cq := (str * list q4)%type.
Definition colw (c : cq) : str * list (str * hval * str) := (fst c, map pw (snd c)).
Definition colr (c : cq) : str * list (str * hval * str) := (fst c, map pr (snd c)).
Definition mq_of (P : hval -> hval -> str -> Prop) (q : q4) : Prop :=
  colname (k4 q) /\ ((w4 q = VMarker /\ r4 q = VMarker) \/ P (w4 q) (r4 q) (t4 q)).
Definition cq_of (P : hval -> hval -> str -> Prop) (c : cq) : Prop :=
  colname (fst c) /\ Forall (mq_of P) (snd c) /\ NoDup (map k4 (snd c)).
Definition grid2_of (P : hval -> hval -> str -> Prop) (w r : hval) (t : str) : Prop :=
  exists (mq : list q4) (cs : list cq) (rows : list (list (hval * hval * str))),
    w = meta_grid (map pw mq) (map colw cs) (map (map w3) rows) /\
    r = meta_grid (map pr mq) (map colr cs) (map (map r3) rows) /\
    t = (60 :: 60 :: meta_text (map pw mq) (map colw cs) (map (map t3) rows) ++ [62; 62])%list /\
    Forall (mq_of P) mq /\ NoDup (map k4 mq) /\ ~ In VERK (map k4 mq) /\
    cs <> [] /\ Forall (cq_of P) cs /\ NoDup (map fst cs) /\
    Forall (fun cells => length cells = length cs /\ Forall (fun x => P (w3 x) (r3 x) (t3 x)) cells) rows.

Fixpoint wrv (n : nat) (w r : hval) (t : str) : Prop :=
  match n with
  | O => (w = r /\ zv 0 w t) \/ dtt w r t
  | S n' => (w = r /\ zv (S n') w t) \/ dtt w r t
            \/ (exists l : list (hval * hval * str), w = VList (map w3 l) /\ r = VList (map r3 l) /\
                  t = (91 :: join [44] (map t3 l) ++ [93])%list /\ Forall (fun x => wrv n' (w3 x) (r3 x) (t3 x)) l)
            \/ (exists l : list q4, w = VDict (map pkv (map pw l)) /\ r = VDict (map pkv (map pr l)) /\
                  t = (123 :: body_text (map pw l) ++ [125])%list /\ NoDup (map k4 l) /\
                  Forall (fun x => colname (k4 x) /\ wrv n' (w4 x) (r4 x) (t4 x)) l)
            \/ grid2_of (wrv n') w r t
  end.

Lemma body_text_pw_pr l : body_text (map pw l) = body_text (map pr l).
Proof.
  assert (M : forall l, more_text (map pw l) = more_text (map pr l)).
  { induction l0 as [|x l0 IH]; [reflexivity|]. cbn [map more_text concat]. fold (more_text (map pw l0)). fold (more_text (map pr l0)). rewrite IH. reflexivity. }
  destruct l as [|x l]; [reflexivity|]. cbn [map body_text]. rewrite M. reflexivity.
Qed.
Lemma keys_pw l : map fst (map pkv (map pw l)) = map k4 l.
Proof. induction l as [|x l IH]; [reflexivity|]. cbn [map pw pkv fst]. rewrite IH. reflexivity. Qed.
Lemma keys_pr l : map fst (map pkv (map pr l)) = map k4 l.
Proof. induction l as [|x l IH]; [reflexivity|]. cbn [map pr pkv fst]. rewrite IH. reflexivity. Qed.

(* the tag text of an item does not depend on the side: both values are markers or neither is *)
Definition meq (q : q4) : Prop := mtext (pw q) = mtext (pr q).
Lemma wrv_mtext n k w r t : wrv n w r t -> mtext (k, w, t) = mtext (k, r, t).
Proof.
  intro H. destruct n as [|n]; cbn [wrv] in H.
  - destruct H as [[E _]|[y [m [d [h [mi [s [us [off [zn [sg [hh [mm [_ [_ [_ [Ew [Er _]]]]]]]]]]]]]]]]]]; subst; reflexivity.
  - destruct H as [[E _]|[[y [m [d [h [mi [s [us [off [zn [sg [hh [mm [_ [_ [_ [Ew [Er _]]]]]]]]]]]]]]]]]|[[l [Ew [Er _]]]|[[l [Ew [Er _]]]|[mq [cs [rows [Ew [Er _]]]]]]]]]; subst; reflexivity.
Qed.
Lemma mq_meq n q : mq_of (wrv n) q -> meq q.
Proof. destruct q as [[[k w] r] t]. unfold mq_of, meq, pw, pr, k4, w4, r4, t4. cbn [fst snd]. intros [_ [[Ew Er]|H]]; [subst; reflexivity|exact (wrv_mtext n k w r t H)]. Qed.

Lemma mmore_eq l : Forall meq l -> mmore (map pw l) = mmore (map pr l).
Proof. induction 1 as [|q l Hq _ IH]; [reflexivity|]. cbn [map mmore concat]. fold (mmore (map pw l)). fold (mmore (map pr l)). unfold meq in Hq. rewrite IH, Hq. reflexivity. Qed.
Lemma mpart_eq l : Forall meq l -> mpart (map pw l) = mpart (map pr l).
Proof.
  intro H. destruct l as [|q l]; [reflexivity|]. inversion H as [|? ? Hq Hl]; subst. cbn [map mpart mbody]. unfold meq in Hq.
  rewrite Hq, (mmore_eq l Hl). reflexivity.
Qed.
Lemma ctext_eq l : Forall (fun c : cq => Forall meq (snd c)) l -> map ctext (map colw l) = map ctext (map colr l).
Proof.
  induction 1 as [|c l Hc _ IH]; [reflexivity|]. cbn [map]. rewrite IH. unfold ctext, colw, colr. cbn [fst snd]. rewrite (mpart_eq (snd c) Hc). reflexivity.
Qed.
Lemma meta_text_eq mq cs rts : Forall meq mq -> Forall (fun c : cq => Forall meq (snd c)) cs ->
  meta_text (map pw mq) (map colw cs) rts = meta_text (map pr mq) (map colr cs) rts.
Proof. intros Hm Hc. unfold meta_text, htext. rewrite (mpart_eq mq Hm), (ctext_eq cs Hc). reflexivity. Qed.

Lemma mkeys_pw l : mkeys (map pw l) = map k4 l. Proof. exact (keys_pw l). Qed.
Lemma mkeys_pr l : mkeys (map pr l) = map k4 l. Proof. exact (keys_pr l). Qed.

Lemma mqs_dump N f q : mq_of (wr_sem N) q -> mitem_dump (S (N + f)) (pw q).
Proof. destruct q as [[[k w] r] t]. unfold mq_of, pw, k4, w4, r4, t4. cbn [fst snd]. intros [_ [[Ew _]|H]]; [left; exact Ew|right; exact (proj1 H f)]. Qed.
Lemma mqs_read N g q : mq_of (wr_sem N) q -> mitem_ok (N + g) (pr q).
Proof. destruct q as [[[k w] r] t]. unfold mq_of, pr, k4, w4, r4, t4. cbn [fst snd]. intros [Hk [[_ Er]|H]]; (split; [exact Hk|]); [left; exact Er|right; exact (proj2 H g)]. Qed.

(* a grid over triples, semantically: the w side is written as the text, the text (as a nested grid) is read as the r side *)
Lemma grid_two_sided_sem N (mq : list q4) (cs : list cq) (rows : list (list (hval * hval * str))) :
  Forall (mq_of (wr_sem N)) mq -> Forall meq mq -> NoDup (map k4 mq) -> ~ In VERK (map k4 mq) ->
  cs <> [] -> Forall (cq_of (wr_sem N)) cs -> Forall (fun c : cq => Forall meq (snd c)) cs -> NoDup (map fst cs) ->
  Forall (fun cells => length cells = length cs /\ Forall (fun x => wr_sem N (w3 x) (r3 x) (t3 x)) cells) rows ->
  (forall f, zdump_grid (S (S (N + f))) V30 (map pkv (map pw mq)) (map (fun c => (fst c, map pkv (snd c))) (map colw cs))
                        (map (fun cells => combine (map fst (map colw cs)) cells) (map (map w3) rows))
             = Ok (meta_text (map pw mq) (map colw cs) (map (map t3) rows))) /\
  (forall k rest, p_scalar (S (S (S (N + k)))) true (60 :: 60 :: meta_text (map pw mq) (map colw cs) (map (map t3) rows) ++ 62 :: 62 :: rest)
                  = Some (Ok (meta_grid (map pr mq) (map colr cs) (map (map r3) rows)), rest)).
Proof.
  intros Hm Em Hmn Hmv Hne Hc Ec Hcn Hrows.
  assert (NW : map fst (map colw cs) = map fst cs) by (rewrite map_map; reflexivity).
  assert (NR : map fst (map colr cs) = map fst cs) by (rewrite map_map; reflexivity).
  split.
  - intro f. apply grid_meta_dumps.
    + clear -Hm. induction Hm as [|q l Hq _ IH]; cbn [map]; constructor; [apply mqs_dump; exact Hq|exact IH].
    + destruct cs; [contradiction|discriminate].
    + clear -Hc. induction Hc as [|c l [_ [Hq _]] _ IH]; cbn [map]; constructor; [|exact IH].
      unfold col_dump_ok, colw. cbn [snd]. clear -Hq. induction Hq as [|q l Hq _ IH]; cbn [map]; constructor; [apply mqs_dump; exact Hq|exact IH].
    + rewrite NW. exact Hcn.
    + rewrite NW. clear -Hrows. induction Hrows as [|cells rows [Hl Hcs] _ IH]; cbn [map]; constructor; [|exact IH]. split; [rewrite !map_length; exact Hl|].
      clear -Hcs. induction Hcs as [|x l Hx _ IH]; cbn [map]; constructor; [exact (proj1 Hx f)|exact IH].
  - intros k rest. rewrite (meta_text_eq mq cs _ Em Ec).
    apply (scalar_inner_grid (N + k) (map pr mq) (map colr cs) (map (map r3) rows) (map (map t3) rows) rest).
    + clear -Hm. induction Hm as [|q l Hq _ IH]; cbn [map]; constructor; [apply mqs_read; exact Hq|exact IH].
    + rewrite mkeys_pr. exact Hmn.
    + rewrite mkeys_pr. exact Hmv.
    + split; [destruct cs; [contradiction|discriminate]|]. split; [|split; [rewrite NR; exact Hcn|]].
      * clear -Hc. induction Hc as [|c l [Hk [Hq _]] _ IH]; cbn [map]; constructor; [|exact IH].
        split; [exact Hk|]. unfold colr. cbn [snd]. clear -Hq. induction Hq as [|q l Hq _ IH]; cbn [map]; constructor; [apply mqs_read; exact Hq|exact IH].
      * clear -Hc. induction Hc as [|c l [_ [_ Hnd]] _ IH]; cbn [map]; constructor; [|exact IH]. unfold colr. cbn [snd]. rewrite mkeys_pr. exact Hnd.
    + rewrite NR. clear -Hrows. induction Hrows as [|cells rows [Hl Hcs] _ IH]; cbn [map]; constructor; [|exact IH]. split; [rewrite !map_length; exact Hl|].
      clear -Hcs. induction Hcs as [|x l Hx _ IH]; cbn [map]; constructor; [apply readsd_reads; exact (proj2 Hx k)|exact IH].
Qed.

Theorem wrv_sem : forall n w r t, wrv n w r t -> wr_sem (2 * n) w r t.
Proof.
  induction n as [|n IH]; intros w r t H.
  - destruct H as [[E H]|H]; [subst r; exact (zv_sem 0 w t H)|apply dtt_sem; exact H].
  - destruct H as [[E H]|[H|[[l [Ew [Er [Et H]]]]|[[l [Ew [Er [Et [Hnd H]]]]]|[mq [cs [rows [Ew [Er [Et [Hm [Hmn [Hmv [Hne [Hc [Hcn Hrows]]]]]]]]]]]]]]]].
    + subst r. exact (zv_sem (S n) w t H).
    + apply dtt_sem. exact H.
    + (* list *) subst w r t. rewrite two_S. split.
      * intro f. cbn [Nat.add].
        assert (E : res_map (zdump (S (S (2 * n + f))) false) (map w3 l) = Ok (map t3 l)).
        { apply res_map_forall2. clear -H IH. induction H as [|x l Hx _ IH2]; cbn [map]; constructor; [|exact IH2].
          pose proof (proj1 (IH _ _ _ Hx) (S f)) as D. rewrite Nat.add_succ_r in D. exact D. }
        remember (S (S (2 * n + f))) as f1. cbn [zdump]. subst f1. rewrite E. reflexivity.
      * intros k rest Hd. cbn [Nat.add List.app]. rewrite <- app_assoc. cbn [List.app].
        apply (scalar_list (S (2 * n + k)) (map r3 l) (map t3 l) rest); [|exact Hd].
        clear -H IH. induction H as [|x l Hx _ IH2]; cbn [map]; constructor; [|exact IH2].
        apply readsd_reads. pose proof (proj2 (IH _ _ _ Hx) (S k)) as R. rewrite Nat.add_succ_r in R. exact R.
    + (* dict *) subst w r t. rewrite two_S. split.
      * intro f. cbn [Nat.add].
        assert (E : res_map (fun kv : str * hval => do t <- zdump (S (S (2 * n + f))) false (snd kv); Ok (fst kv ++ 58 :: t)) (map pkv (map pw l)) = Ok (map ptext (map pw l))).
        { apply res_map_forall2. clear -H IH. induction H as [|x l [Hk Hx] _ IH2]; cbn [map]; constructor; [|exact IH2].
          cbn [pw pkv ptext snd fst]. pose proof (proj1 (IH _ _ _ Hx) (S f)) as D. rewrite Nat.add_succ_r in D. rewrite D. reflexivity. }
        remember (S (S (2 * n + f))) as f1. cbn [zdump]. subst f1.
        rewrite (dict_of_nodup (map pkv (map pw l))) by (rewrite keys_pw; exact Hnd).
        match goal with |- context [res_map ?F (map pkv (map pw l))] => replace (res_map F (map pkv (map pw l))) with (Ok (map ptext (map pw l)) : res (list str)) by (symmetry; exact E) end.
        cbn [bind]. rewrite join_ptext. reflexivity.
      * intros k rest Hd. cbn [Nat.add List.app]. rewrite <- app_assoc. cbn [List.app]. rewrite body_text_pw_pr.
        apply (scalar_dict (S (2 * n + k)) (map pr l) rest); [|rewrite keys_pr; exact Hnd|exact Hd].
        clear -H IH. induction H as [|x l [Hk Hx] _ IH2]; cbn [map]; constructor; [|exact IH2].
        split; [exact Hk|]. cbn [pr]. pose proof (proj2 (IH _ _ _ Hx) (S k)) as R. rewrite Nat.add_succ_r in R. exact R.
    + (* nested grid *) subst w r t. rewrite two_S.
      assert (Ms : forall l, Forall (mq_of (wrv n)) l -> Forall (mq_of (wr_sem (2 * n))) l).
      { intros l Hl. eapply Forall_impl; [|exact Hl]. intros q [Hk [E|Hz]]; (split; [exact Hk|]); [left; exact E|right; apply IH; exact Hz]. }
      assert (Me : forall l, Forall (mq_of (wrv n)) l -> Forall meq l).
      { intros l Hl. eapply Forall_impl; [|exact Hl]. intros q Hq. exact (mq_meq n q Hq). }
      assert (G : (forall f, zdump_grid (S (S (2 * n + f))) V30 (map pkv (map pw mq)) (map (fun c => (fst c, map pkv (snd c))) (map colw cs))
                        (map (fun cells => combine (map fst (map colw cs)) cells) (map (map w3) rows))
                     = Ok (meta_text (map pw mq) (map colw cs) (map (map t3) rows))) /\
                  (forall k rest, p_scalar (S (S (S (2 * n + k)))) true (60 :: 60 :: meta_text (map pw mq) (map colw cs) (map (map t3) rows) ++ 62 :: 62 :: rest)
                     = Some (Ok (meta_grid (map pr mq) (map colr cs) (map (map r3) rows)), rest))).
      { apply grid_two_sided_sem; [apply Ms; exact Hm|apply Me; exact Hm|exact Hmn|exact Hmv|exact Hne| | |exact Hcn|].
        - eapply Forall_impl; [|exact Hc]. intros c [A [B C]]. split; [exact A|]. split; [apply Ms; exact B|exact C].
        - eapply Forall_impl; [|exact Hc]. intros c [_ [B _]]. apply Me. exact B.
        - eapply Forall_impl; [|exact Hrows]. intros cells [Hl Hcs]. split; [exact Hl|]. eapply Forall_impl; [|exact Hcs]. intros x Hx. apply IH. exact Hx. }
      destruct G as [D R]. split.
      * intro f. cbn [Nat.add]. remember (S (S (2 * n + f))) as f1. unfold meta_grid. cbn [zdump]. subst f1.
        unfold meta_grid in D. rewrite (D f). reflexivity.
      * intros k rest Hd. cbn [Nat.add List.app]. rewrite <- app_assoc. cbn [List.app]. apply R.
Qed.
Print Assumptions wrv_sem.

(* ---------- metadata items, columns, whole grids ---------- *)
Definition mq_ok (n : nat) (q : q4) : Prop := mq_of (wrv n) q.



Definition cq_ok (n : nat) (c : cq) : Prop := cq_of (wrv n) c.


Lemma meta_text_w_r n mq cs rts : Forall (mq_ok n) mq -> Forall (cq_ok n) cs ->
  meta_text (map pw mq) (map colw cs) rts = meta_text (map pr mq) (map colr cs) rts.
Proof.
  intros Hm Hc. apply meta_text_eq.
  - eapply Forall_impl; [|exact Hm]. intros q Hq. exact (mq_meq n q Hq).
  - eapply Forall_impl; [|exact Hc]. intros c [_ [B _]]. eapply Forall_impl; [|exact B]. intros q Hq. exact (mq_meq n q Hq).
Qed.


Lemma wrv_cellwr n w r t : wrv n w r t -> cellwr n (w, r) t.
Proof. intro H. destruct (wrv_sem n w r t H) as [D R]. split; [exact D|]. intro k. apply readsd_reads. apply R. Qed.

Lemma mq_dump n f q : mq_ok n q -> mitem_dump (S (2 * n + f)) (pw q).
Proof. destruct q as [[[k w] r] t]. unfold mq_ok, pw, k4, w4, r4, t4. cbn [fst snd]. intros [_ [[Ew _]|H]]; [left; exact Ew|right; exact (proj1 (wrv_sem n w r t H) f)]. Qed.
Lemma mq_read n g q : mq_ok n q -> mitem_ok (2 * n + g) (pr q).
Proof. destruct q as [[[k w] r] t]. unfold mq_ok, pr, k4, w4, r4, t4. cbn [fst snd]. intros [Hk [[_ Er]|H]]; (split; [exact Hk|]); [left; exact Er|right; exact (proj2 (wrv_sem n w r t H) g)]. Qed.

Theorem full_grid_two_sided n (mq : list q4) (cs : list cq) (rows : list (list (hval * hval))) rts :
  Forall (mq_ok n) mq -> NoDup (map k4 mq) -> ~ In VERK (map k4 mq) ->
  cs <> [] -> Forall (cq_ok n) cs -> NoDup (map fst cs) ->
  Forall2 (fun cells ts => length cells = length (map fst cs) /\ Forall2 (cellwr n) cells ts) rows rts ->
  (forall f, zdump_grid (S (S (2 * n + f))) V30 (map pkv (map pw mq)) (map (fun c => (fst c, map pkv (snd c))) (map colw cs))
                        (map (fun cells => combine (map fst cs) (map fst cells)) rows) = Ok (meta_text (map pw mq) (map colw cs) rts)) /\
  ((2 * n <= length (meta_text (map pw mq) (map colw cs) rts))%nat ->
   zparse_grid (meta_text (map pw mq) (map colw cs) rts) = Ok (meta_grid (map pr mq) (map colr cs) (map (map snd) rows))).
Proof.
  intros Hm Hmn Hmv Hne Hc Hcn Hrows.
  assert (NW : map fst (map colw cs) = map fst cs) by (rewrite map_map; reflexivity).
  assert (NR : map fst (map colr cs) = map fst cs) by (rewrite map_map; reflexivity).
  split.
  - intro f.
    replace (map (fun cells : list (hval * hval) => combine (map fst cs) (map fst cells)) rows)
      with (map (fun cells => combine (map fst (map colw cs)) cells) (map (map fst) rows)) by (rewrite NW, map_map; reflexivity).
    apply grid_meta_dumps.
    + clear -Hm. induction Hm as [|q l Hq _ IH]; cbn [map]; constructor; [apply mq_dump; exact Hq|exact IH].
    + destruct cs; [contradiction|discriminate].
    + clear -Hc. induction Hc as [|c l [_ [Hq _]] _ IH]; cbn [map]; constructor; [|exact IH].
      unfold col_dump_ok, colw. cbn [snd]. clear -Hq. induction Hq as [|q l Hq _ IH]; cbn [map]; constructor; [apply mq_dump; exact Hq|exact IH].
    + rewrite NW. exact Hcn.
    + rewrite NW. clear -Hrows. induction Hrows as [|cells ts rows rts [Hl Hcs] _ IH]; cbn [map]; constructor; [|exact IH]. split; [rewrite map_length; exact Hl|].
      clear -Hcs. induction Hcs as [|v t vs ts Hvt _ IH]; cbn [map]; constructor; [exact (proj1 Hvt f)|exact IH].
  - intro Hn. rewrite (meta_text_w_r n mq cs rts Hm Hc) in *. unfold zparse_grid.
    assert (SV : sniff_version (meta_text (map pr mq) (map colr cs) rts) = Some V30) by reflexivity. rewrite SV.
    assert (P3 : pre3_of V30 = Ok false) by (vm_compute; reflexivity). rewrite P3. cbn [negb].
    assert (R : forall k, p_grid (S (S (2 * n + k))) true (meta_text (map pr mq) (map colr cs) rts) = Some (Ok (meta_grid (map pr mq) (map colr cs) (map (map snd) rows)), [])).
    { intro k. apply grid_meta_reads.
      - clear -Hm. induction Hm as [|q l Hq _ IH]; cbn [map]; constructor; [apply mq_read; exact Hq|exact IH].
      - rewrite mkeys_pr. exact Hmn.
      - rewrite mkeys_pr. exact Hmv.
      - split; [destruct cs; [contradiction|discriminate]|]. split; [|split; [rewrite NR; exact Hcn|]].
        + clear -Hc. induction Hc as [|c l [Hk [Hq _]] _ IH]; cbn [map]; constructor; [|exact IH].
          split; [exact Hk|]. unfold colr. cbn [snd]. clear -Hq. induction Hq as [|q l Hq _ IH]; cbn [map]; constructor; [apply mq_read; exact Hq|exact IH].
        + clear -Hc. induction Hc as [|c l [_ [_ Hnd]] _ IH]; cbn [map]; constructor; [|exact IH]. unfold colr. cbn [snd]. rewrite mkeys_pr. exact Hnd.
      - rewrite NR. clear -Hrows. induction Hrows as [|cells ts rows rts [Hl Hcs] _ IH]; cbn [map]; constructor; [|exact IH]. split; [rewrite map_length; exact Hl|].
        clear -Hcs. induction Hcs as [|v t vs ts Hvt _ IH]; cbn [map]; constructor; [exact (proj2 Hvt k)|exact IH]. }
    specialize (R (length (meta_text (map pr mq) (map colr cs) rts) - 2 * n)%nat).
    replace (2 * n + (length (meta_text (map pr mq) (map colr cs) rts) - 2 * n))%nat with (length (meta_text (map pr mq) (map colr cs) rts)) in R by lia.
    rewrite R. reflexivity.
Qed.
Print Assumptions full_grid_two_sided.
