(* JSON numbers in every spelling NUMBER_RE is meant to accept: sign, integer digits, optional fraction, optional exponent
   (e or E, optional sign), optional unit after one blank (property C05). *)
From Coq Require Import Lia ZifyBool String.
From HS Require Import Base.Prelude Gen.VersionData Gen.JsonData Model.Value Model.Version Model.Json Proofs.PreludeP Proofs.JsonP.
Open Scope N_scope.

Definition frac_ok (fr : str) : Prop := fr = [] \/ exists fp, fr = 46 :: fp /\ fp <> [] /\ forallb ascii_digit fp = true.
Definition exp_ok (ex : str) : Prop :=
  ex = [] \/ exists e sg ed, ex = e :: sg ++ ed /\ (e = 101 \/ e = 69) /\ (sg = [] \/ sg = [43] \/ sg = [45]) /\ ed <> [] /\ forallb ascii_digit ed = true.
Definition gnum_shape (tok : str) : Prop :=
  exists (neg : bool) (ip fr ex : str),
    tok = (if neg then [45] else []) ++ ip ++ fr ++ ex /\ ip <> [] /\ forallb ascii_digit ip = true /\ frac_ok fr /\ exp_ok ex.

Definition nodigit_hd (x : str) : Prop := match x with [] => True | c :: _ => is_digit c = false end.
Lemma span_stop a x : forallb is_digit a = true -> nodigit_hd x -> span is_digit (a ++ x) = (a, x).
Proof. intros Ha Hx. destruct x as [|c r]; [rewrite app_nil_r; apply span_all; exact Ha|apply span_app; assumption]. Qed.

Definition after_num (rest : str) : Prop := rest = [] \/ exists u, rest = 32 :: u.
Lemma after_num_nodigit rest : after_num rest -> nodigit_hd rest.
Proof. intros [E|[u E]]; subst; [exact I|]. cbn [nodigit_hd]. apply not_digit. lia. Qed.

Lemma exp_hd ex rest : exp_ok ex -> after_num rest ->
  match (ex ++ rest) with [] => True | c :: _ => is_digit c = false /\ c <> 58 /\ c <> 46 end.
Proof.
  intros [E|[e [sg [ed [E [He _]]]]]] Hr; subst ex.
  - cbn [app]. destruct Hr as [E|[u E]]; subst; [exact I|]. repeat split; try discriminate; try (apply not_digit; lia).
  - cbn [app]. destruct He; subst e; (repeat split; try discriminate; try (apply not_digit; lia)).
Qed.

Lemma opt_frac_spelled fr ex rest : frac_ok fr -> exp_ok ex -> after_num rest -> opt_frac (fr ++ ex ++ rest) = (fr, ex ++ rest).
Proof.
  intros Hf He Hr. pose proof (exp_hd ex rest He Hr) as Hh. destruct Hf as [E|[fp [E [Hne Hd]]]]; subst fr.
  - cbn [app]. unfold opt_frac, dot_digits. destruct (ex ++ rest) as [|c r]; [reflexivity|]. destruct Hh as [_ [H1 H2]].
    rewrite (hd_is_other 58 c) by exact H1. rewrite (hd_is_other 46 c) by exact H2. reflexivity.
  - cbn [app]. unfold opt_frac. rewrite (hd_is_other 58 46) by discriminate. unfold dot_digits. rewrite hd_is_same.
    rewrite (span_stop fp (ex ++ rest) (forallb_ascii_digit fp Hd)) by (destruct (ex ++ rest); [exact I|exact (proj1 Hh)]).
    destruct fp; [contradiction|reflexivity].
Qed.

Lemma ascii_digit_not_sign c : ascii_digit c = true -> (c =? 43) || (c =? 45) = false.
Proof. unfold ascii_digit. intro H. lia. Qed.

Ltac usesp := match goal with SP : span is_digit ?z = ?v |- context [span is_digit ?z'] => replace (span is_digit z') with v by (symmetry; exact SP) end; reflexivity.
Lemma opt_exp_spelled ex rest : exp_ok ex -> after_num rest -> opt_exp (ex ++ rest) = (ex, rest).
Proof.
  intros [E|[e [sg [ed [E [He [Hs [Hne Hd]]]]]]]] Hr; subst ex.
  - cbn [app]. unfold opt_exp. destruct Hr as [E|[u E]]; subst rest; [reflexivity|].
    rewrite (hd_is_other 58 32) by discriminate. reflexivity.
  - assert (SP : span is_digit (ed ++ rest) = (ed, rest)) by (apply span_stop; [apply forallb_ascii_digit; exact Hd|apply after_num_nodigit; exact Hr]).
    assert (E58 : e <> 58) by (destruct He; subst; discriminate).
    assert (EE : (e =? 101) || (e =? 69) = true) by (destruct He; subst; reflexivity).
    unfold opt_exp. cbn [app]. rewrite (hd_is_other 58 e) by exact E58.
    destruct ed as [|d0 ed0]; [contradiction|].
    destruct Hs as [E|[E|E]]; subst sg; cbn [app exp_part]; rewrite EE.
    + assert (D0 : ascii_digit d0 = true) by (cbn [forallb] in Hd; apply andb_true_iff in Hd; exact (proj1 Hd)).
      rewrite (ascii_digit_not_sign d0 D0). change (d0 :: ed0 ++ rest) with ((d0 :: ed0) ++ rest). usesp.
    + cbv beta iota. cbn [N.eqb Pos.eqb orb]. cbv beta iota. change (d0 :: ed0 ++ rest) with ((d0 :: ed0) ++ rest). usesp.
    + cbv beta iota. cbn [N.eqb Pos.eqb orb]. cbv beta iota. change (d0 :: ed0 ++ rest) with ((d0 :: ed0) ++ rest). usesp.
Qed.

Lemma number_body_spelled sign ip fr ex rest :
  ip <> [] -> forallb ascii_digit ip = true -> frac_ok fr -> exp_ok ex -> after_num rest ->
  number_body sign (ip ++ fr ++ ex ++ rest) = Some (sign ++ ip ++ fr ++ ex, match rest with [] => None | _ :: u => Some u end).
Proof.
  intros Hip Dip Hf He Hr. unfold number_body.
  assert (X : nodigit_hd (fr ++ ex ++ rest)).
  { destruct Hf as [E|[fp [E _]]]; subst fr; cbn [app]; [|cbn [nodigit_hd]; apply not_digit; lia].
    pose proof (exp_hd ex rest He Hr) as Hh. destruct (ex ++ rest); [exact I|exact (proj1 Hh)]. }
  rewrite (span_stop ip _ (forallb_ascii_digit ip Dip) X).
  destruct ip as [|c0 ip0]; [contradiction|].
  rewrite (opt_frac_spelled fr ex rest Hf He Hr), (opt_exp_spelled ex rest He Hr).
  destruct Hr as [E|[u E]]; subst rest.
  - cbn [hd_is at_end]. reflexivity.
  - rewrite (hd_is_other 58 32) by discriminate. rewrite hd_is_same. reflexivity.
Qed.

Lemma mem_colon_frac fr : frac_ok fr -> mem_colon fr = false.
Proof. intros [E|[fp [E [_ Hd]]]]; subst; [reflexivity|]. cbn. apply mem_colon_digits. exact Hd. Qed.
Lemma mem_colon_exp ex : exp_ok ex -> mem_colon ex = false.
Proof.
  intros [E|[e [sg [ed [E [He [Hs [_ Hd]]]]]]]]; subst; [reflexivity|].
  change (e :: sg ++ ed) with ([e] ++ sg ++ ed). rewrite !mem_colon_app, (mem_colon_digits ed Hd).
  destruct He; subst e; destruct Hs as [E|[E|E]]; subst sg; reflexivity.
Qed.

Lemma match_number_spelled tok rest : gnum_shape tok -> after_num rest ->
  match_number (tok ++ rest) = Some (tok, match rest with [] => None | _ :: u => Some u end) /\ mem_colon tok = false.
Proof.
  intros [neg [ip [fr [ex [-> [Hip [Dip [Hf He]]]]]]]] Hr. split.
  - unfold match_number. destruct neg; cbn [app].
    + rewrite hd_is_same. rewrite <- !app_assoc.
      rewrite (number_body_spelled [45] ip fr ex rest Hip Dip Hf He Hr). reflexivity.
    + destruct ip as [|c ip']; [contradiction|]. cbn [app].
      assert (Hc : ascii_digit c = true) by (simpl in Dip; now apply andb_true_iff in Dip as [H1 _]).
      rewrite hd_is_other by (unfold ascii_digit in Hc; lia).
      change (c :: (ip' ++ fr ++ ex) ++ rest) with (((c :: ip') ++ fr ++ ex) ++ rest). rewrite <- !app_assoc.
      rewrite (number_body_spelled [] (c :: ip') fr ex rest Hip Dip Hf He Hr). reflexivity.
  - rewrite !mem_colon_app, (mem_colon_digits ip Dip), (mem_colon_frac fr Hf), (mem_colon_exp ex He). destruct neg; reflexivity.
Qed.

(* a spelled number is none of the words n:INF, n:-INF, n:NaN *)
Lemma gnum_hd tok : gnum_shape tok -> exists c r, tok = c :: r /\ (ascii_digit c = true \/ (c = 45 /\ exists d r', r = d :: r' /\ ascii_digit d = true)).
Proof.
  intros [neg [ip [fr [ex [-> [Hip [Dip _]]]]]]]. destruct ip as [|d ip']; [contradiction|].
  assert (Hd : ascii_digit d = true) by (simpl in Dip; now apply andb_true_iff in Dip as [H1 _]).
  destruct neg; cbn [app]; eexists; eexists; (split; [reflexivity|]); [right; split; [reflexivity|eexists; eexists; split; [reflexivity|exact Hd]]|left; exact Hd].
Qed.

Theorem rt_num_spelled pre3 tok u : gnum_shape tok ->
  jparse_str pre3 (110 :: 58 :: tok ++ match u with Some x => 32 :: x | None => [] end) = Ok (VNum NkFin tok tok u).
Proof.
  intros Hs. set (tail := match u with Some x => 32 :: x | None => [] end).
  destruct (gnum_hd tok Hs) as [c [r [Et Hc]]].
  assert (NW : forall w, (w = [73; 78; 70] \/ w = [45; 73; 78; 70] \/ w = [78; 97; 78]) -> str_eqb (110 :: 58 :: tok ++ tail) (110 :: 58 :: w) = false).
  { intros w Hw. destruct (str_eqb (110 :: 58 :: tok ++ tail) (110 :: 58 :: w)) eqn:E; [|reflexivity]. exfalso.
    apply str_eqb_eq in E. rewrite Et in E. cbn [app] in E.
    destruct Hc as [Hc|[Hc [d [r' [Er Hd]]]]].
    - destruct Hw as [Hw|[Hw|Hw]]; subst w; inversion E; subst c; vm_compute in Hc; discriminate.
    - subst c r. cbn [app] in E. destruct Hw as [Hw|[Hw|Hw]]; subst w; inversion E; subst d; vm_compute in Hd; discriminate. }
  assert (NI : str_eqb (110 :: 58 :: tok ++ tail) (s_ "n:INF") = false) by (apply (NW [73; 78; 70]); left; reflexivity).
  assert (NM : str_eqb (110 :: 58 :: tok ++ tail) (s_ "n:-INF") = false) by (apply (NW [45; 73; 78; 70]); right; left; reflexivity).
  assert (NN : str_eqb (110 :: 58 :: tok ++ tail) (s_ "n:NaN") = false) by (apply (NW [78; 97; 78]); right; right; reflexivity).
  unfold jparse_str.
  assert (M1 : str_eqb (110 :: 58 :: tok ++ tail) marker_str = false) by reflexivity.
  assert (M2 : str_eqb (110 :: 58 :: tok ++ tail) na_str = false) by reflexivity.
  assert (M3 : str_eqb (110 :: 58 :: tok ++ tail) remove2_str = false) by reflexivity.
  assert (M4 : str_eqb (110 :: 58 :: tok ++ tail) remove3_str = false) by reflexivity.
  rewrite M1, M2, M3, M4. cbn [orb]. rewrite NI, NM, NN.
  change (s_ "n:") with [110; 58]. cbn [strip_prefix N.eqb Pos.eqb].
  assert (Hrest : after_num tail) by (unfold tail; destruct u; [right; eauto | left; reflexivity]).
  destruct (match_number_spelled tok _ Hs Hrest) as [Hm Hcn]. rewrite Hm, Hcn.
  unfold tail. destruct u; reflexivity.
Qed.

Example rt_num_spelled_ex :
  jparse_str false (s_ "n:-12.5E-3 kW") = Ok (VNum NkFin (s_ "-12.5E-3") (s_ "-12.5E-3") (Some (s_ "kW"))) /\
  jparse_str true (s_ "n:7e10") = Ok (VNum NkFin (s_ "7e10") (s_ "7e10") None) /\ gnum_shape (s_ "-12.5E-3").
Proof.
  split; [vm_compute; reflexivity|]. split; [vm_compute; reflexivity|].
  exists true, (s_ "12"), (s_ ".5"), (s_ "E-3"). split; [reflexivity|]. split; [discriminate|]. split; [reflexivity|]. split.
  - right. exists (s_ "5"). split; [reflexivity|]. split; [discriminate|reflexivity].
  - right. exists 69, [45], (s_ "3"). split; [reflexivity|]. split; [right; reflexivity|]. split; [right; right; reflexivity|]. split; [discriminate|reflexivity].
Qed.
Print Assumptions rt_num_spelled.
