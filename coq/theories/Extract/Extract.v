(* Extraction of the executable model.  ExtrOcamlBasic only: bool, option,
   unit, prod, list, sumbool, sumor, comparison map to OCaml's; N, Z, positive,
   nat, ascii, string keep their extracted inductive datatypes. *)
From Coq Require Import Extraction ExtrOcamlBasic.
From HS Require Import Base.Prelude Model.Command.
Extraction "hsmodel.ml" run_command str_of_Z.
