From HS Require Import Base.Prelude Model.ZincParse.
Theorem C09_placeholder : True. Proof. exact I. Qed.
