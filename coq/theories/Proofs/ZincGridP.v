(* Whole grids through the grid rule of the ZINC reader model *)
From Coq Require Import String.
From Coq Require Import List NArith Bool Lia Arith.
From HS Require Import Base.Prelude Model.Value Model.Escape Model.Version Model.Json Model.ZincParse.
From HS Require Import Proofs.VersionP Proofs.EscapeP Proofs.JsonP Proofs.ZincParseP Proofs.ZincNumP Proofs.ZincListP.
Import ListNotations.
Open Scope N_scope.

(* ---------- a comma-separated run of items closed by a terminator, for any item parser ---------- *)
Section Delimited.
  Context {A : Type}.
  Variable p : parser A.
  Variable term : N.                       (* the character that ends the run *)
  Variable item : A -> str -> Prop.        (* x is written t *)
  Hypothesis item_reads : forall x t, item x t -> forall rest, delim_ns rest -> p (t ++ rest) = Some (Ok x, rest).
  Hypothesis item_hd : forall x t, item x t -> match t with c :: _ => is_sp c = false | [] => False end.
  Hypothesis term_ns : forall r, delim_ns (term :: r).
  Hypothesis term_stop : forall r, pthen value_sep p (term :: r) = None.

  Lemma g_sep_item x t rest : item x t -> delim_ns rest -> pthen value_sep p (44 :: t ++ rest) = Some (Ok x, rest).
  Proof.
    intros Hi Hd. pose proof (comma_with_blanks 0 0 (t ++ rest)) as V. cbn [blanks repeat List.app] in V.
    unfold pthen, pmap, pand. rewrite V.
    - rewrite (item_reads x t Hi rest Hd). reflexivity.
    - pose proof (item_hd x t Hi) as H. destruct t as [|c t']; [contradiction|exact H].
  Qed.

  Lemma g_items_delim ts r : delim_ns (items_text ts ++ term :: r).
  Proof. destruct ts as [|t ts]; cbn [items_text map concat List.app]; [apply term_ns|apply delim_comma]. Qed.

  Lemma g_many : forall xs ts, Forall2 item xs ts -> forall r fuel, (length ts < fuel)%nat ->
    pmany_fuel fuel (pthen value_sep p) (items_text ts ++ term :: r) = (Ok xs, term :: r).
  Proof.
    induction 1 as [|x t xs ts Hxt Hrest IH]; intros r fuel Hf.
    - cbn [items_text map concat List.app]. destruct fuel as [|f]; [cbn in Hf; lia|]. cbn [pmany_fuel]. rewrite term_stop. reflexivity.
    - destruct fuel as [|f]; [cbn in Hf; lia|]. cbn [items_text map concat List.app]. fold (items_text ts).
      rewrite <- app_assoc. cbn [pmany_fuel].
      rewrite (g_sep_item x t (items_text ts ++ term :: r) Hxt (g_items_delim ts r)).
      assert (L : Nat.ltb (length (items_text ts ++ term :: r)) (length (44 :: t ++ items_text ts ++ term :: r)) = true).
      { apply Nat.ltb_lt. cbn [length]. rewrite !app_length. cbn [length]. lia. }
      rewrite L. rewrite (IH r f) by (cbn in Hf; lia). reflexivity.
  Qed.

  Lemma g_delimited x t xs ts r : item x t -> Forall2 item xs ts ->
    pdelimited p value_sep (join [44] (t :: ts) ++ term :: r) = Some (Ok (x :: xs), term :: r).
  Proof.
    intros Hx Hxs. rewrite join_items, <- app_assoc. unfold pdelimited, pmap, pand.
    rewrite (item_reads x t Hx (items_text ts ++ term :: r) (g_items_delim ts r)). unfold pmany.
    rewrite (g_many xs ts Hxs r) by (rewrite app_length; pose proof (items_len ts); lia). reflexivity.
  Qed.
End Delimited.

(* ---------- cells ---------- *)
Definition hs_cell (scalar : parser hval) : parser hval := por [ (fun t => Some (Ok VNull, t)); scalar ].

Lemma cell_reads g v t : reads g v t -> forall rest, delim_ns rest -> hs_cell (p_scalar (S g) true) (t ++ rest) = Some (Ok v, rest).
Proof.
  intros Hr rest Hd. destruct (reads_hd g v t Hr) as [c [t' [E _]]]. unfold hs_cell, por. cbn [por_pick].
  rewrite (Hr rest Hd).
  assert (L : Nat.ltb (length rest) (length (t ++ rest)) = true) by (apply Nat.ltb_lt; subst t; rewrite app_length; cbn [length]; lia).
  rewrite L. reflexivity.
Qed.
Lemma cell_hd g v t : reads g v t -> match t with c :: _ => is_sp c = false | [] => False end.
Proof. intro Hr. destruct (reads_hd g v t Hr) as [c [t' [E Hc]]]. subst t. exact (proj1 (nosp_hd c Hc)). Qed.
Lemma lf_ns r : delim_ns (10 :: r).
Proof. right. eexists. eexists. split; [reflexivity|]. cbn; tauto. Qed.
Lemma sep_stop_lf {A} (p : parser A) r : pthen value_sep p (10 :: r) = None.
Proof. reflexivity. Qed.

(* a row: cells, commas, line feed *)
Definition hs_row (scalar : parser hval) : parser (list hval) := pbefore (pdelimited (hs_cell scalar) value_sep) (pthen spaces nl).

Lemma row_reads g v t vs ts r : reads g v t -> Forall2 (reads g) vs ts ->
  hs_row (p_scalar (S g) true) (join [44] (t :: ts) ++ 10 :: r) = Some (Ok (v :: vs), r).
Proof.
  intros Hv Hvs. unfold hs_row, pbefore, pmap, pand.
  rewrite (g_delimited (hs_cell (p_scalar (S g) true)) 10 (reads g) (cell_reads g) (cell_hd g) lf_ns (sep_stop_lf _) v t vs ts r Hv Hvs).
  assert (E : pthen spaces nl (10 :: r) = Some (Ok tt, r)) by reflexivity. rewrite E. reflexivity.
Qed.

Lemma row_none_nil g : hs_row (p_scalar (S g) true) [] = None.
Proof.
  unfold hs_row, pbefore, pmap, pand, pdelimited, pmap, pand, hs_cell, por. cbn [por_pick]. rewrite scalar_none_nil. reflexivity.
Qed.

(* rows *)
Definition row_ok (g : nat) (cells : list hval) (ts : list str) : Prop := cells <> [] /\ Forall2 (reads g) cells ts.
Definition rows_text (rts : list (list str)) : str := concat (map (fun ts => join [44] ts ++ [10])%list rts).

Lemma rows_many g : forall rows rts, Forall2 (row_ok g) rows rts -> forall fuel, (length rts < fuel)%nat ->
  pmany_fuel fuel (hs_row (p_scalar (S g) true)) (rows_text rts) = (Ok rows, []).
Proof.
  induction 1 as [|cells ts rows rts Hrow Hrest IH]; intros fuel Hf.
  - destruct fuel as [|f]; [cbn in Hf; lia|]. cbn [rows_text map concat pmany_fuel]. rewrite row_none_nil. reflexivity.
  - destruct fuel as [|f]; [cbn in Hf; lia|]. cbn [rows_text map concat]. fold (rows_text rts).
    destruct Hrow as [Hne Hall]. destruct Hall as [|v t vs ts' Hv Hvs]; [contradiction|].
    rewrite <- app_assoc. cbn [List.app pmany_fuel]. rewrite (row_reads g v t vs ts' (rows_text rts) Hv Hvs).
    assert (L : Nat.ltb (length (rows_text rts)) (length (join [44] (t :: ts') ++ 10 :: rows_text rts)) = true).
    { apply Nat.ltb_lt. rewrite app_length. cbn [length]. lia. }
    rewrite L, (IH f) by (cbn in Hf; lia). reflexivity.
Qed.

(* ---------- columns ---------- *)
Definition colname (n : str) : Prop :=
  match n with c :: r => ((97 <=? c) && (c <=? 122) = true) /\ Forall (fun x => is_id_rest x = true) r | [] => False end.
Definition hs_meta_opt (scalar : parser hval) (p_meta : parser (list (str * hval))) : parser (list (str * hval)) :=
  pmap (fun o => match o with Some m => m | None => [] end) (popt (pthen (plit [32]) p_meta)).
Definition col_is (x : str * list (str * hval)) (t : str) : Prop := colname t /\ x = (t, []).

Lemma ns_hd rest : delim_ns rest -> match rest with c :: _ => is_id_rest c = false /\ c <> 32 | [] => True end.
Proof. intros [E|[c [r' [E Hc]]]]; subst; [exact I|]. dl Hc; split; try reflexivity; discriminate. Qed.

Lemma p_id_name n rest : colname n -> delim_ns rest -> p_id (n ++ rest) = Some (Ok n, rest).
Proof.
  intros Hn Hd. destruct n as [|c r]; [contradiction|]. destruct Hn as [Hc Hr]. cbn [List.app]. unfold p_id. rewrite Hc.
  rewrite (span_all is_id_rest r rest Hr); [reflexivity|]. pose proof (ns_hd rest Hd) as H. destruct rest; [exact I|tauto].
Qed.

Section Cols.
  Variable p_meta : parser (list (str * hval)).
  Let p_col : parser (str * list (str * hval)) :=
    pand p_id (pmap (fun o => match o with Some m => m | None => [] end) (popt (pthen (plit [32]) p_meta))).

  Lemma col_reads x t : col_is x t -> forall rest, delim_ns rest -> p_col (t ++ rest) = Some (Ok x, rest).
  Proof.
    intros [Hn E] rest Hd. subst x. unfold p_col, pand. rewrite (p_id_name t rest Hn Hd).
    assert (O : pmap (fun o : option (list (str * hval)) => match o with Some m => m | None => [] end) (popt (pthen (plit [32]) p_meta)) rest = Some (Ok [], rest)).
    { unfold pmap, popt, pthen, pmap, pand, plit. pose proof (ns_hd rest Hd) as H. destruct rest as [|c r]; [reflexivity|]. cbn [strip_prefix].
      destruct H as [_ H]. destruct (N.eqb_spec 32 c); [subst; contradiction|reflexivity]. }
    rewrite O. reflexivity.
  Qed.
  Lemma col_hd x t : col_is x t -> match t with c :: _ => is_sp c = false | [] => False end.
  Proof.
    intros [Hn _]. destruct t as [|c r]; [contradiction|]. destruct Hn as [Hc _]. unfold is_sp.
    apply andb_true_iff in Hc. destruct Hc as [H1 _]. apply N.leb_le in H1. destruct (N.eqb_spec c 32); [lia|reflexivity].
  Qed.

  Lemma cols_read x t xs ts r : col_is x t -> Forall2 col_is xs ts ->
    pbefore (pmap (fun l => dict_of l) (pdelimited p_col value_sep)) (pthen spaces nl) (join [44] (t :: ts) ++ 10 :: r)
    = Some (Ok (dict_of (x :: xs)), r).
  Proof.
    intros Hx Hxs. unfold pbefore, pmap, pand.
    rewrite (g_delimited p_col 10 col_is col_reads col_hd lf_ns (sep_stop_lf _) x t xs ts r Hx Hxs).
    assert (E : pthen spaces nl (10 :: r) = Some (Ok tt, r)) by reflexivity. rewrite E. reflexivity.
  Qed.
End Cols.

(* ---------- the grid rule spelled out (as in Model/ZincParse.v) ---------- *)
Definition optm (o : option (list (str * hval))) : list (str * hval) := match o with Some m => m | None => [] end.
Definition g_meta_item (scalar : parser hval) : parser (str * hval) :=
  por [ pmap (fun k => (k, VMarker)) p_id;
        pand p_id (pthen spaces (pthen (plit [58]) (pthen spaces scalar))) ].
Definition g_meta (scalar : parser hval) : parser (list (str * hval)) :=
  pmap (fun l => dict_of l) (pdelimited (g_meta_item scalar) (plit [32])).
Definition g_grid_meta (scalar : parser hval) : parser (str * list (str * hval)) :=
  pand (pthen (plit (s_ "ver:")) p_str)
       (pbefore (pmap (fun o => match o with Some m => m | None => [] end) (popt (pthen (plit [32]) (g_meta scalar))))
                (pthen spaces nl)).
Definition g_col (scalar : parser hval) : parser (str * list (str * hval)) :=
  pand p_id (pmap (fun o => match o with Some m => m | None => [] end) (popt (pthen (plit [32]) (g_meta scalar)))).
Definition g_cols (scalar : parser hval) : parser (list (str * list (str * hval))) :=
  pbefore (pmap (fun l => dict_of l) (pdelimited (g_col scalar) value_sep)) (pthen spaces nl).
Definition g_action (x : (str * list (str * hval)) * (list (str * list (str * hval)) * list (list hval))) : res hval :=
  let '(vm, (cols, rows)) := x in
  let '(ver, meta) := vm in
  do pv <- parse_ver ver;
  do p3 <- pre3_of ver;
  let meta' := remove_key (s_ "ver") meta in
  let rows' := map (fun cells => dict_of (combine (map fst cols) cells)) rows in
  let all_vals := map snd meta' ++ flat_map (fun c => map snd (snd c)) cols ++ flat_map (fun r => map snd r) rows' in
  if p3 && existsb is_v3_only all_vals then Raise ValueError
  else Ok (VGrid (vstr pv) meta' cols rows').

Lemma p_grid_unfold f v t : p_grid (S f) v t =
  pact g_action (pand (g_grid_meta (p_scalar f v)) (pand (g_cols (p_scalar f v)) (pmany (hs_row (p_scalar f v))))) t.
Proof. reflexivity. Qed.

Definition V30 : str := [51; 46; 48].
Definition header30 : str := (s_ "ver:" ++ DQ :: V30 ++ [DQ; 10])%list.

Lemma header_reads scalar r : g_grid_meta scalar (header30 ++ r) = Some (Ok (V30, []), r).
Proof.
  unfold g_grid_meta, header30.
  assert (S1 : pthen (plit (s_ "ver:")) p_str ((s_ "ver:" ++ DQ :: V30 ++ [DQ; 10]) ++ r) = Some (Ok V30, 10 :: r)).
  { unfold pthen, pmap, pand. 
    assert (L : plit (s_ "ver:") ((s_ "ver:" ++ DQ :: V30 ++ [DQ; 10]) ++ r) = Some (Ok tt, DQ :: V30 ++ DQ :: 10 :: r)) by reflexivity.
    rewrite L. unfold p_str, hs_str.
    rewrite (quoted_roundtrip DQ str_esc_letters false esc_str_char dq_ne dq_32 every_char_str V30 V30 (10 :: r) eq_refl). reflexivity. }
  assert (S2 : pbefore (pmap (fun o : option (list (str * hval)) => match o with Some m => m | None => [] end) (popt (pthen (plit [32]) (g_meta scalar))))
                       (pthen spaces nl) (10 :: r) = Some (Ok [], r)) by reflexivity.
  unfold pand. rewrite S1, S2. reflexivity.
Qed.

Lemma rows_len rts : (length rts <= length (rows_text rts))%nat.
Proof. induction rts as [|t rts IH]; cbn [rows_text map concat length]; [lia|]. fold (rows_text rts). rewrite !app_length. cbn [length]. lia. Qed.

Lemma map_fst_combine {A B} : forall (l : list A) (m : list B), length l = length m -> map fst (combine l m) = l.
Proof. induction l as [|a l IH]; intros [|b m] H; cbn in *; try discriminate; [reflexivity|]. rewrite IH by lia. reflexivity. Qed.

Lemma ver30_facts : exists pv, parse_ver V30 = Ok pv /\ pre3_of V30 = Ok false /\ vstr pv = V30.
Proof. eexists. split; [vm_compute; reflexivity|]. split; vm_compute; reflexivity. Qed.

Definition grid_row_ok (g : nat) (names : list str) (cells : list hval) (ts : list str) : Prop :=
  length cells = length names /\ Forall2 (reads g) cells ts.

Theorem grid_reads g names rows rts :
  names <> [] -> Forall colname names -> NoDup names -> Forall2 (grid_row_ok g names) rows rts ->
  p_grid (S (S g)) true (header30 ++ join [44] names ++ 10 :: rows_text rts)
  = Some (Ok (VGrid V30 [] (map (fun n => (n, [])) names) (map (fun cells => combine names cells) rows)), []).
Proof.
  intros Hne Hnames Hnd Hrows. rewrite p_grid_unfold.
  set (sc := p_scalar (S g) true).
  destruct names as [|n ns]; [contradiction|]. inversion Hnames as [|? ? Hn Hns]; subst.
  assert (HC : g_cols sc (join [44] (n :: ns) ++ 10 :: rows_text rts) = Some (Ok (dict_of (map (fun x => (x, [])) (n :: ns))), rows_text rts)).
  { unfold g_cols. cbn [map].
    apply (cols_read (g_meta sc) (n, []) n (map (fun x => (x, [])) ns) ns (rows_text rts)); [split; [exact Hn|reflexivity]|].
    clear -Hns. induction Hns as [|x l Hx _ IH]; cbn [map]; constructor; [split; [exact Hx|reflexivity]|exact IH]. }
  assert (HR : pmany (hs_row sc) (rows_text rts) = Some (Ok rows, [])).
  { unfold pmany. rewrite (rows_many g rows rts); [reflexivity| |pose proof (rows_len rts); lia].
    clear -Hrows Hne. induction Hrows as [|cells ts rows rts [Hl Hc] _ IH]; constructor; [|exact IH].
    split; [|exact Hc]. destruct cells; [cbn in Hl; discriminate|discriminate]. }
  unfold pact. unfold pand at 1. rewrite header_reads. unfold pand. rewrite HC, HR.
  destruct ver30_facts as [pv [PV [P3 VS]]].
  unfold g_action. rewrite PV, P3. cbn [bind andb]. rewrite VS.
  assert (DC : dict_of (map (fun x : str => (x, @nil (str * hval))) (n :: ns)) = map (fun x => (x, [])) (n :: ns)).
  { apply dict_of_nodup. rewrite map_map. cbn [fst]. rewrite map_id. exact Hnd. }
  rewrite DC. 
  assert (MF : map fst (map (fun x : str => (x, @nil (str * hval))) (n :: ns)) = n :: ns) by (rewrite map_map; cbn [fst]; apply map_id).
  rewrite MF.
  assert (RW : map (fun cells => dict_of (combine (n :: ns) cells)) rows = map (fun cells => combine (n :: ns) cells) rows).
  { clear -Hrows Hnd. induction Hrows as [|cells ts rows rts [Hl _] _ IH]; [reflexivity|]. cbn [map]. rewrite IH. f_equal.
    apply dict_of_nodup. rewrite map_fst_combine by (symmetry; exact Hl). exact Hnd. }
  rewrite RW. reflexivity.
Qed.

(* ---------- the writer's text for such a grid ---------- *)
From HS Require Import Model.ZincDump Proofs.PreludeP Proofs.ZincDumpP.

Lemma res_map_map {A B C} (h : A -> B) (k : B -> res C) l : res_map k (map h l) = res_map (fun x => k (h x)) l.
Proof. induction l as [|x l IH]; cbn [map res_map]; [reflexivity|]. rewrite IH. reflexivity. Qed.
Lemma res_map_ext_in {A B} (k k' : A -> res B) l : (forall x, In x l -> k x = k' x) -> res_map k l = res_map k' l.
Proof. induction l as [|x l IH]; intro H; cbn [res_map]; [reflexivity|]. rewrite (H x (or_introl eq_refl)), IH; [reflexivity|]. intros y Hy. apply H. right. exact Hy. Qed.
Lemma res_map_forall2 {A B} (k : A -> res B) : forall l r, Forall2 (fun x y => k x = Ok y) l r -> res_map k l = Ok r.
Proof. induction 1 as [|x y l r Hxy _ IH]; cbn [res_map]; [reflexivity|]. rewrite Hxy, IH. reflexivity. Qed.
Lemma res_map_names (names : list str) : res_map (fun c : str * list (str * hval) => match snd c with [] => Ok (fst c) | _ :: _ => Raise TypeError end) (map (fun n => (n, [])) names) = Ok names.
Proof. induction names as [|n ns IH]; cbn [map res_map]; [reflexivity|]. cbn [snd fst]. cbn [bind]. rewrite IH. reflexivity. Qed.

Lemma assoc_combine names : forall cells, NoDup names -> length cells = length names ->
  map (fun n => match assoc n (combine names cells) with Some x => x | None => VNull end) names = cells.
Proof.
  induction names as [|n ns IH]; intros [|c cs] Hnd Hl; cbn in Hl; try discriminate; [reflexivity|].
  inversion Hnd as [|? ? Hnotin Hnd']; subst. cbn [combine map assoc]. rewrite str_eqb_refl. f_equal.
  transitivity (map (fun n0 => match assoc n0 (combine ns cs) with Some x => x | None => VNull end) ns); [|apply IH; [exact Hnd'|lia]].
  apply map_ext_in. intros x Hx.
  destruct (str_eqb_spec n x) as [E|_]; [subst; contradiction|reflexivity].
Qed.

Lemma join_lines (a b : str) rs : join [10] (a :: b :: rs ++ [[]]) = (a ++ 10 :: b ++ 10 :: concat (map (fun r => r ++ [10]) rs))%list.
Proof.
  assert (G : forall rs0 b0, join [10] (b0 :: rs0 ++ [[]]) = (b0 ++ 10 :: concat (map (fun r => r ++ [10]) rs0))%list).
  { induction rs0 as [|r rs0 IH]; intro b0; cbn [List.app map concat].
    - cbn [join List.app]. reflexivity.
    - rewrite join_cons_cons, IH. cbn [List.app]. rewrite <- app_assoc. reflexivity. }
  change (a :: b :: rs ++ [[]])%list with (a :: (b :: rs) ++ [[]])%list. rewrite G. cbn [map concat]. rewrite <- app_assoc. reflexivity.
Qed.

Definition dump_row_ok (f : nat) (names : list str) (cells : list hval) (ts : list str) : Prop :=
  length cells = length names /\ Forall2 (fun v t => zdump f false v = Ok t) cells ts.

Lemma res_map_plain_names (K : str * list (str * hval) -> res str) names :
  (forall n, K (n, []) = Ok n) -> res_map K (map (fun n => (n, [])) names) = Ok names.
Proof. intro H. induction names as [|x l IH]; cbn [map res_map]; [reflexivity|]. rewrite H, IH. reflexivity. Qed.

Theorem grid_dumps f names rows rts :
  names <> [] -> NoDup names -> Forall2 (dump_row_ok f names) rows rts ->
  zdump_grid (S f) V30 [] (map (fun n => (n, [])) names) (map (fun cells => combine names cells) rows)
  = Ok (header30 ++ join [44] names ++ 10 :: rows_text rts).
Proof.
  intros Hne Hnd Hrows. cbn [zdump_grid].
  assert (P3 : pre3_of V30 = Ok false) by (vm_compute; reflexivity). rewrite P3. cbn [bind].
  assert (VS : zdump_str V30 = Ok (DQ :: V30 ++ [DQ])) by (vm_compute; reflexivity). rewrite VS. cbn [bind].
  destruct names as [|n ns]; [contradiction|]. cbn [map]. 
  change ((n, @nil (str * hval)) :: map (fun n0 : str => (n0, [])) ns) with (map (fun n0 : str => (n0, @nil (str * hval))) (n :: ns)).
  set (names := n :: ns) in *.
  assert (RS : res_map (fun row : list (str * hval) =>
                  do cells <- res_map (fun c : str * list (str * hval) => zdump f false (match assoc (fst c) row with Some x => x | None => VNull end))
                                      (map (fun n0 : str => (n0, [])) names);
                  Ok (join [44] cells)) (map (fun cells => combine names cells) rows) = Ok (map (join [44]) rts)).
  { rewrite res_map_map. clear -Hrows Hnd. induction Hrows as [|cells ts rows rts [Hl Hc] _ IH]; cbn [res_map map]; [reflexivity|].
    rewrite res_map_map. cbn [fst].
    assert (E : res_map (fun x : str => zdump f false (match assoc x (combine names cells) with Some x0 => x0 | None => VNull end)) names = Ok ts).
    { rewrite <- (res_map_map (fun x : str => match assoc x (combine names cells) with Some x0 => x0 | None => VNull end) (zdump f false)).
      rewrite (assoc_combine names cells Hnd Hl). apply res_map_forall2. exact Hc. }
    rewrite E. cbn [bind]. rewrite IH. reflexivity. }
  erewrite res_map_plain_names by (intro; reflexivity). cbn [bind]. rewrite RS. cbn [bind].
  unfold NL1. cbn [List.app]. rewrite join_lines. unfold header30, rows_text. rewrite map_map.
  rewrite <- !app_assoc. cbn [List.app]. reflexivity.
Qed.

(* ---------- round trip of whole grids ---------- *)
(* leaf cells: written the same at every fuel, read back at every fuel *)
Definition leafc (v : hval) (t : str) : Prop := (forall f, zdump (S f) false v = Ok t) /\ leafr v t.
Fixpoint zcell (n : nat) (v : hval) (t : str) : Prop :=
  match n with
  | O => leafc v t
  | S n' => leafc v t \/ exists vs ts, v = VList vs /\ t = (91 :: join [44] ts ++ [93])%list /\ Forall2 (zcell n') vs ts
  end.

Lemma zcell_zrt : forall n v t, zcell n v t -> zrt n v t.
Proof.
  induction n as [|n IH]; intros v t H; [exact (proj2 H)|]. destruct H as [H|[vs [ts [Ev [Et H]]]]]; [left; exact (proj2 H)|].
  right. exists vs, ts. split; [exact Ev|]. split; [exact Et|]. clear -H IH. induction H; constructor; [apply IH; assumption|assumption].
Qed.
Lemma zcell_reads n v t : zcell n v t -> forall k, reads (n + k) v t.
Proof. intro H. apply zrt_reads. apply zcell_zrt. exact H. Qed.
Lemma zcell_dump : forall n v t, zcell n v t -> forall f, zdump (S (n + f)) false v = Ok t.
Proof.
  induction n as [|n IH]; intros v t H f; [exact (proj1 H _)|]. destruct H as [H|[vs [ts [Ev [Et H]]]]]; [exact (proj1 H _)|].
  subst v t. cbn [Nat.add].
  assert (E : res_map (zdump (S (n + f)) false) vs = Ok ts).
  { apply res_map_forall2. clear -H IH. induction H; constructor; [apply IH; assumption|assumption]. }
  remember (S (n + f)) as f1. cbn [zdump]. rewrite E. reflexivity.
Qed.

Definition grid_cells_ok (n : nat) (names : list str) (cells : list hval) (ts : list str) : Prop :=
  length cells = length names /\ Forall2 (zcell n) cells ts.
Definition plain_grid (names : list str) (rows : list (list hval)) : hval :=
  VGrid V30 [] (map (fun x => (x, [])) names) (map (fun cells => combine names cells) rows).
Definition plain_text (names : list str) (rts : list (list str)) : str := (header30 ++ join [44] names ++ 10 :: rows_text rts)%list.

Theorem grid_roundtrip n names rows rts :
  names <> [] -> Forall colname names -> NoDup names -> Forall2 (grid_cells_ok n names) rows rts ->
  (forall f, zdump_grid (S (S (n + f))) V30 [] (map (fun x => (x, [])) names) (map (fun cells => combine names cells) rows) = Ok (plain_text names rts)) /\
  (forall k, p_grid (S (S (n + k))) true (plain_text names rts) = Some (Ok (plain_grid names rows), [])).
Proof.
  intros Hne Hcn Hnd Hrows. split.
  - intro f. apply grid_dumps; [exact Hne|exact Hnd|].
    clear -Hrows. induction Hrows as [|cells ts rows rts [Hl Hc] _ IH]; constructor; [|exact IH]. split; [exact Hl|].
    clear -Hc. induction Hc; constructor; [apply zcell_dump; assumption|assumption].
  - intro k. apply grid_reads; [exact Hne|exact Hcn|exact Hnd|].
    clear -Hrows. induction Hrows as [|cells ts rows rts [Hl Hc] _ IH]; constructor; [|exact IH]. split; [exact Hl|].
    clear -Hc. induction Hc; constructor; [apply zcell_reads; assumption|assumption].
Qed.

(* the top-level reader (zincparser.parse_grid: version sniffing, the grid rule, nothing but blanks left) *)
Theorem grid_roundtrip_top n names rows rts :
  names <> [] -> Forall colname names -> NoDup names -> Forall2 (grid_cells_ok n names) rows rts ->
  (n <= length (plain_text names rts))%nat ->
  zparse_grid (plain_text names rts) = Ok (plain_grid names rows).
Proof.
  intros Hne Hcn Hnd Hrows Hn. destruct (grid_roundtrip n names rows rts Hne Hcn Hnd Hrows) as [_ R].
  unfold zparse_grid.
  assert (SV : sniff_version (plain_text names rts) = Some V30) by reflexivity. rewrite SV.
  assert (P3 : pre3_of V30 = Ok false) by (vm_compute; reflexivity). rewrite P3. cbn [negb].
  specialize (R (length (plain_text names rts) - n)%nat).
  replace (n + (length (plain_text names rts) - n))%nat with (length (plain_text names rts)) in R by lia.
  rewrite R. reflexivity.
Qed.

(* ---------- the leaf kinds ---------- *)
From HS Require Import Proofs.ZincDateP.

Lemma leafc_str s e : escape_str s = Ok e -> leafc (VStr s) (DQ :: e ++ [DQ]).
Proof.
  intro He. split.
  - intro f. cbn [zdump]. unfold zdump_str. rewrite He. reflexivity.
  - intros g rest _. cbn [List.app]. rewrite <- app_assoc. cbn [List.app]. apply scalar_str. exact He.
Qed.
Lemma leafc_uri s e : escape_uri s = Ok e -> leafc (VUri s) (BQ :: e ++ [BQ]).
Proof.
  intro He. split.
  - intro f. cbn [zdump]. unfold zdump_uri. rewrite He. reflexivity.
  - intros g rest _. cbn [List.app]. rewrite <- app_assoc. cbn [List.app]. apply scalar_uri. exact He.
Qed.
Lemma leafc_number sg ip fp ex u : ntok_ok sg ip fp ex u -> leafc (nval sg ip fp ex u) (mant sg ip fp ex ++ upt u).
Proof.
  intro Hok. split.
  - intro f. unfold nval. cbn [zdump znum_text]. destruct u as [[|c u']|]; cbn [upt]; [|reflexivity|rewrite app_nil_r; reflexivity].
    destruct Hok as [_ [_ [_ [[Hne _] _]]]]. contradiction.
  - intros g rest Hd. rewrite <- app_assoc. apply scalar_number; [exact Hok|apply delim_ns_delim; exact Hd].
Qed.
Lemma leafc_date y m d : valid_date y m d = true -> leafc (VDate y m d) (iso_date y m d).
Proof. intro Hv. split; [intro f; reflexivity|]. intros g rest Hd. apply scalar_date; [exact Hv|apply delim_ns_delim; exact Hd]. Qed.
Lemma leafc_time h mi s us : time_ok h mi s us -> leafc (VTime h mi s us) (iso_time h mi s us).
Proof. intro Hv. split; [intro f; reflexivity|]. intros g rest Hd. apply scalar_time; [exact Hv|apply delim_ns_delim; exact Hd]. Qed.
Lemma leafc_null : leafc VNull [78].
Proof. split; [intro f; reflexivity|]. intros g rest Hd. apply scalar_null. apply delim_ns_delim; exact Hd. Qed.
Lemma leafc_marker : leafc VMarker [77].
Proof. split; [intro f; reflexivity|]. intros g rest Hd. apply scalar_marker. apply delim_ns_delim; exact Hd. Qed.
Lemma leafc_remove : leafc VRemove [82].
Proof. split; [intro f; reflexivity|]. intros g rest Hd. apply scalar_remove. apply delim_ns_delim; exact Hd. Qed.
Lemma leafc_na : leafc VNA [78; 65].
Proof. split; [intro f; reflexivity|]. intros g rest Hd. apply scalar_na. apply delim_ns_delim; exact Hd. Qed.
Lemma leafc_bool b : leafc (VBool b) [if b then 84 else 70].
Proof. split; [intro f; reflexivity|]. intros g rest Hd. destruct b; [apply scalar_true|apply scalar_false]; apply delim_ns_delim; exact Hd. Qed.
Lemma leafc_ref name : Forall (fun c => is_zref_char c = true) name -> leafc (VRef name None) (64 :: name).
Proof. intro Hn. split; [intro f; reflexivity|]. intros g rest Hd. cbn [List.app]. apply scalar_ref_plain; assumption. Qed.
