(* Model of hszinc/zoneinfo.py: _map_timezones over the REGENERATED lists (HAYSTACK_TIMEZONES of the source,
   pytz.all_timezones of this host), timezone(), timezone_name() with its three paths, and the date-time
   text both writers emit / both readers read.  pytz is an oracle: `zoff z i` is the UTC offset (seconds)
   zone z has at instant i (what zoneinfo._utcoffset_at computes), None when pytz does not know z.
   Calendar arithmetic is not modelled: a written date-time is (local time, offset, zone name) where
   local = instant + offset - isoformat() / iso8601.parse_date are a bijection between that triple and text.
   Executable definitions only; proofs in Proofs/TZP.v. *)
From Coq Require Import List NArith ZArith Bool.
From HS Require Import Base.Prelude Gen.TzData.
Import ListNotations.
Open Scope N_scope.

Definition mem_str (x : str) (l : list str) : bool := existsb (str_eqb x) l.
Fixpoint remove_str (x : str) (l : list str) : list str :=
  match l with
  | [] => []
  | y :: l' => if str_eqb x y then remove_str x l' else y :: remove_str x l'
  end.
Fixpoint nodup_str (l : list str) : list str :=
  match l with
  | [] => []
  | x :: l' => if mem_str x l' then nodup_str l' else x :: nodup_str l'
  end.
Definition SLASH : N := 47.
(* full_tz.split('/', 1) *)
Fixpoint split_slash (t : str) : option (str * str) :=
  match t with
  | [] => None
  | c :: t' => if c =? SLASH then Some ([], t')
               else match split_slash t' with Some (a, b) => Some (c :: a, b) | None => None end
  end.
Definition has_slash (t : str) : bool := existsb (fun c => c =? SLASH) t.

(* _map_timezones: (haystack name, pytz name) in insertion order *)
Fixpoint map_go (todo : list str) (all : list str) (acc : list (str * str)) : list (str * str) :=
  match all with
  | [] => rev acc
  | full :: rest =>
      match todo with
      | [] => rev acc
      | _ =>
          if mem_str full todo then map_go (remove_str full todo) rest ((full, full) :: acc)
          else match split_slash full with
               | None => map_go todo rest acc
               | Some (_, suffix) =>
                   if has_slash suffix then map_go todo rest acc
                   else if mem_str suffix todo then map_go (remove_str suffix todo) rest ((suffix, full) :: acc)
                   else map_go todo rest acc
               end
      end
  end.
Definition map_timezones (hay all : list str) : list (str * str) := map_go (nodup_str hay) all [].
Definition tz_map : list (str * str) := map_timezones haystack_timezones pytz_all_timezones.

Fixpoint lookup (n : str) (m : list (str * str)) : option str :=
  match m with [] => None | (k, z) :: m' => if str_eqb k n then Some z else lookup n m' end.
Fixpoint rlookup (z : str) (m : list (str * str)) : option str :=
  match m with [] => None | (k, y) :: m' => if str_eqb y z then Some k else rlookup z m' end.

(* a tz-aware date-time: instant (UTC, microseconds), UTC offset (seconds), tzinfo.zone when the tzinfo has one *)
Record adt := mkAdt { inst : Z ; off : Z ; zone : option str }.
Definition UTC : str := [85; 84; 67].

Section Oracle.
  Variable zoff : str -> Z -> option Z.

  Definition offset_matches (z : str) (d : adt) : bool :=
    match zoff z (inst d) with Some o => Z.eqb o (off d) | None => false end.

  (* timezone_name *)
  Definition tz_name (m : list (str * str)) (d : adt) : res str :=
    let fast := match zone d with
                | Some z => match rlookup z m with
                            | Some hay => if offset_matches z d then Some hay else None
                            | None => None
                            end
                | None => None
                end in
    match fast with
    | Some hay => Ok hay
    | None =>
        if Z.eqb (off d) 0 then Ok UTC
        else match find (fun kz => offset_matches (snd kz) d) m with
             | Some (hay, _) => Ok hay
             | None => Raise ValueError
             end
    end.

  (* what is written: isoformat() (local time and offset) and the zone name *)
  Record dttext := mkText { local : Z ; toff : Z ; tname : option str }.
  Definition write (m : list (str * str)) (d : adt) : res dttext :=
    do n <- tz_name m d; Ok (mkText (inst d + off d * 1000000) (off d) (Some n)).
  (* what is read: iso8601.parse_date, then astimezone(timezone(name)) when the name is known *)
  Definition read (m : list (str * str)) (t : dttext) : adt :=
    let i := (local t - toff t * 1000000)%Z in
    match tname t with
    | Some n => match lookup n m with
                | Some z => match zoff z i with
                            | Some o => mkAdt i o (Some z)
                            | None => mkAdt i (toff t) None
                            end
                | None => mkAdt i (toff t) None
                end
    | None => mkAdt i (toff t) None
    end.
End Oracle.

(* ---- wire ---- *)
From Coq Require Import String.
Local Open Scope string_scope.
(* (tz-map): the map on this host *)
Definition cmd_tz_map (_ : list sexp) : sexp := SList (map (fun kz => SList [SStr (fst kz); SStr (snd kz)]) tz_map).
(* (tz-name instant offset zone-or-none (z o) ...): timezone_name with the oracle's answers for this instant *)
Definition cmd_tz_name (args : list sexp) : sexp :=
  match args with
  | SInt i :: SInt o :: z :: table =>
      let tbl := flat_map (fun e => match e with SList [SStr k; SInt v] => [(k, v)] | _ => [] end) table in
      let zoff := fun (k : str) (_ : Z) => (fix go (l : list (str * Z)) := match l with [] => None | (a, b) :: l' => if str_eqb a k then Some b else go l' end) tbl in
      let zn := if is_sym "none" z then None else match z with SStr t => Some t | _ => None end in
      let d := mkAdt i o zn in
      match write zoff tz_map d with
      | Ok t => let r := read zoff tz_map t in
                SList [sym "ok"; sopt SStr (tname t); SInt (local t); SInt (inst r); SInt (off r); sopt SStr (zone r)]
      | Raise e => sres (fun _ : unit => sym "none") (Raise e)
      end
  | _ => bad_request
  end.
