(* Dates and times through the scalar alternation of the ZINC reader model *)
From Coq Require Import String.
From Coq Require Import List NArith Bool Lia Arith.
From HS Require Import Base.Prelude Model.Value Model.Escape Model.Version Model.Json Model.ZincParse.
From HS Require Import Proofs.VersionP Proofs.EscapeP Proofs.JsonP Proofs.ZincParseP Proofs.ZincNumP.
Import ListNotations.
Open Scope N_scope.

(* a run of digits followed by something that is neither part of a number nor of a unit: the number rule reads the digits only *)
Lemma p_number_digits ip tail : digs ip -> numstop tail -> (match tail with c :: _ => is_unit_char c = false | [] => True end) ->
  p_number (ip ++ tail) = Some (Ok (VNum NkFin ip ip None), tail).
Proof.
  intros Hip Hn Hu.
  pose proof (p_decimal_tok false ip None None tail Hip I I Hn) as D.
  pose proof (consts_none false ip None None tail Hip) as C.
  unfold mant in D, C. cbn [sgn fpt ext List.app] in D, C. rewrite !app_nil_r in D, C.
  assert (U : p_unit tail = None).
  { unfold p_unit, pspan1. destruct tail as [|c r]; [reflexivity|]. cbn [span]. rewrite Hu. reflexivity. }
  unfold p_number. unfold por at 1. rewrite por_pick_skip.
  2:{ unfold pmap, pand. rewrite D, U. reflexivity. }
  erewrite por_pick_start.
  2:{ apply pmap_ok. exact D. }
  rewrite por_pick_skip by exact C. reflexivity.
Qed.

Lemma adig_mod x : is_ascii_digit (48 + x mod 10) = true.
Proof. unfold is_ascii_digit. pose proof (N.mod_upper_bound x 10 ltac:(discriminate)). apply andb_true_iff. split; apply N.leb_le; lia. Qed.
Lemma d2_digs n : digs (d2 n).
Proof. split; [discriminate|]. unfold d2. repeat constructor; apply adig_mod. Qed.
Lemma d4_digs n : digs (d4 n).
Proof. split; [discriminate|]. unfold d4. repeat constructor; apply adig_mod. Qed.
Lemma d6_digs n : digs (d6 n).
Proof. split; [discriminate|]. unfold d6. repeat constructor; apply adig_mod. Qed.

(* ---------------- dates ---------------- *)
Lemma p_date_str_iso y m d rest : y < 10000 -> m < 100 -> d < 100 ->
  p_date_str (iso_date y m d ++ rest) = Some (Ok (d4 y, d2 m, d2 d), rest).
Proof.
  intros Hy Hm Hd. unfold iso_date. rewrite <- !app_assoc. cbn [List.app]. unfold p_date_str.
  rewrite (four_digits_d4 y _ Hy), hd_is_same, (two_digits_d2 m _ Hm), hd_is_same, (two_digits_d2 d _ Hd). reflexivity.
Qed.

Lemma delim_not_T rest : delim rest -> pchar (fun c => (c =? 84) || (c =? 116)) rest = None.
Proof. intro H. apply delim_hd in H. unfold pchar. destruct rest as [|c r]; [reflexivity|]. dl H; reflexivity. Qed.

Section Date.
  Variables (y m d : N) (rest : str).
  Hypothesis Hv : valid_date y m d = true.
  Hypothesis Hd : delim rest.
  Let t := (iso_date y m d ++ rest)%list.

  Lemma date_bounds : y < 10000 /\ m < 100 /\ d < 100.
  Proof.
    unfold valid_date in Hv. repeat (apply andb_true_iff in Hv; destruct Hv as [Hv ?]).
    repeat match goal with H : (_ <=? _) = true |- _ => apply N.leb_le in H end.
    assert (days_in_month y m <= 31) by (unfold days_in_month; repeat match goal with |- context [if ?b then _ else _] => destruct b end; lia).
    lia.
  Qed.

  Lemma date_p_date : p_date t = Some (Ok (VDate y m d), rest).
  Proof.
    destruct date_bounds as [By [Bm Bd]]. unfold t, p_date, pact. rewrite (p_date_str_iso y m d rest By Bm Bd).
    rewrite (int_d4 y By), (int_d2 m Bm), (int_d2 d Bd), Hv. reflexivity.
  Qed.
  Lemma date_p_datetime : p_datetime t = None.
  Proof.
    destruct date_bounds as [By [Bm Bd]]. unfold t, p_datetime, p_iso_datetime, pmap, pact, pand.
    rewrite (p_date_str_iso y m d rest By Bm Bd), (delim_not_T rest Hd). reflexivity.
  Qed.
End Date.

Lemma adig_facts g : is_ascii_digit g = true -> is_digit g = true /\ (g =? 45) = false /\ (g =? 58) = false.
Proof. intro H. dcases H; repeat split; reflexivity. Qed.

(* four digits then anything: not a time; two digits then a colon: not a date *)
Lemma four_digs_no_time a b c e tail : is_ascii_digit a = true -> is_ascii_digit b = true -> is_ascii_digit c = true ->
  p_time (a :: b :: c :: e :: tail) = None.
Proof.
  intros Ha Hb Hc. destruct (adig_facts a Ha) as [A1 _]. destruct (adig_facts b Hb) as [B1 _]. destruct (adig_facts c Hc) as [_ [_ C3]].
  unfold p_time, pact, p_time_str, two_digits, hd_is. rewrite A1, B1. cbn [andb]. rewrite C3. reflexivity.
Qed.
Lemma two_digs_colon_no_date a b tail : p_date_str (a :: b :: 58 :: tail) = None.
Proof. unfold p_date_str, four_digits. destruct tail as [|x r]; [reflexivity|]. assert (E : is_digit 58 = false) by reflexivity. rewrite E, andb_false_r. reflexivity. Qed.


Theorem scalar_date f v3 y m d rest : valid_date y m d = true -> delim rest ->
  p_scalar (S f) v3 (iso_date y m d ++ rest) = Some (Ok (VDate y m d), rest).
Proof.
  intros Hv Hd. pose proof (date_p_date y m d rest Hv) as PD. pose proof (date_p_datetime y m d rest Hv Hd) as PDT.
  destruct (date_bounds y m d Hv) as [By [Bm Bd]].
  (* the number rule reads the year only *)
  assert (PN : p_number (iso_date y m d ++ rest) = Some (Ok (VNum NkFin (d4 y) (d4 y) None), 45 :: d2 m ++ 45 :: d2 d ++ rest)).
  { unfold iso_date. rewrite <- !app_assoc. cbn [List.app]. apply p_number_digits; [apply d4_digs| |reflexivity]. cbn. repeat split; discriminate. }
  assert (PX : p_xstr (iso_date y m d ++ rest) = None).
  { unfold iso_date. rewrite <- !app_assoc. cbn [List.app]. apply p_xstr_none; [apply digs_not40; exact (proj2 (d4_digs y))|]. split; [reflexivity|discriminate]. }
  assert (PT : p_time (iso_date y m d ++ rest) = None).
  { unfold iso_date, d4. cbn [List.app]. apply four_digs_no_time; apply adig_mod. }
  assert (L : Nat.le (length rest) (length (45 :: d2 m ++ 45 :: d2 d ++ rest))) by (cbn [length]; rewrite !app_length; cbn [length]; rewrite app_length; lia).
  revert PD PDT PN PX PT L. unfold iso_date, d4. cbn [List.app].
  pose proof (adig_mod (y / 1000)) as Ha. set (a := 48 + (y / 1000) mod 10) in *.
  set (tl := (48 + (y / 100) mod 10 :: 48 + (y / 10) mod 10 :: 48 + y mod 10 :: 45 :: d2 m ++ 45 :: d2 d ++ rest)).
  set (nrest := (45 :: d2 m ++ 45 :: d2 d ++ rest)).
  clearbody tl nrest. clearbody a.
  dcases Ha; intros PD PDT PN PX PT L; cbn [p_scalar]; destruct v3; cbv zeta; unfold scalars_2_0, por.
  all: try (rewrite por_pick_skip by reflexivity; rewrite por_pick_skip by exact PX; do 3 rewrite por_pick_skip by reflexivity;
            rewrite por_pick_skip by exact PDT; erewrite por_pick_start by exact PD;
            rewrite por_pick_skip by exact PT; rewrite por_pick_skip by reflexivity;
            erewrite por_pick_keep by first [exact PN | exact L];
            apply por_pick_rest_none; repeat (apply Forall_cons; [reflexivity|]); apply Forall_nil).
  all: (do 4 rewrite por_pick_skip by reflexivity;
        rewrite por_pick_skip by exact PDT; erewrite por_pick_start by exact PD;
        rewrite por_pick_skip by exact PT; rewrite por_pick_skip by reflexivity;
        erewrite por_pick_keep by first [exact PN | exact L];
        apply por_pick_rest_none; repeat (apply Forall_cons; [reflexivity|]); apply Forall_nil).
Qed.

(* ---------------- times ---------------- *)
Definition time_ok (h mi s us : N) : Prop := h <= 23 /\ mi <= 59 /\ s <= 59 /\ us < 1000000.

Lemma delim_not_digit rest : delim rest -> match rest with c :: _ => is_digit c = false /\ c <> 46 | [] => True end.
Proof. intro H. apply delim_hd in H. destruct rest as [|c r]; [exact I|]. dl H; split; try reflexivity; discriminate. Qed.

Lemma p_time_str_iso h mi s us rest : time_ok h mi s us -> delim rest ->
  p_time_str (iso_time h mi s us ++ rest) =
  Some (Ok (d2 h, d2 mi, d2 s, if us =? 0 then None else Some (d6 us)), rest).
Proof.
  intros [Hh [Hm [Hs Hu]]] Hd. unfold iso_time. rewrite <- !app_assoc. cbn [List.app]. unfold p_time_str.
  rewrite (two_digits_d2 h _ ltac:(lia)), hd_is_same, (two_digits_d2 mi _ ltac:(lia)), hd_is_same, (two_digits_d2 s _ ltac:(lia)).
  pose proof (delim_not_digit rest Hd) as Hr.
  destruct (us =? 0) eqn:E; cbn [List.app].
  - destruct rest as [|c r]; [reflexivity|]. destruct Hr as [_ Hc]. rewrite (hd_is_other 46 c r Hc). reflexivity.
  - rewrite hd_is_same.
    assert (Sp : span is_digit (d6 us ++ rest) = (d6 us, rest)).
    { destruct rest as [|c r]; [rewrite app_nil_r; apply span_digits_d6; exact Hu|].
      apply JsonP.span_app; [apply forallb_d6_digits; exact Hu|exact (proj1 Hr)]. }
    rewrite Sp. reflexivity.
Qed.

Theorem scalar_time f v3 h mi s us rest : time_ok h mi s us -> delim rest ->
  p_scalar (S f) v3 (iso_time h mi s us ++ rest) = Some (Ok (VTime h mi s us), rest).
Proof.
  intros Hok Hd. pose proof (p_time_str_iso h mi s us rest Hok Hd) as TS. destruct Hok as [Hh [Hm [Hs Hu]]].
  assert (PT : p_time (iso_time h mi s us ++ rest) = Some (Ok (VTime h mi s us), rest)).
  { unfold p_time, pact. rewrite TS. rewrite (int_d2 h ltac:(lia)), (int_d2 mi ltac:(lia)), (int_d2 s ltac:(lia)).
    assert (B : (h <=? 23) && (mi <=? 59) && (s <=? 59) = true) by (rewrite !andb_true_iff; repeat split; apply N.leb_le; assumption).
    destruct (us =? 0) eqn:E.
    - rewrite B. apply N.eqb_eq in E. subst us. reflexivity.
    - cbn [length d6 Nat.ltb Nat.leb]. rewrite B, (usec_d6 us Hu). reflexivity. }
  assert (PDS : p_date_str (iso_time h mi s us ++ rest) = None).
  { unfold iso_time, d2. cbn [List.app]. apply two_digs_colon_no_date. }
  assert (PD : p_date (iso_time h mi s us ++ rest) = None) by (unfold p_date, pact; rewrite PDS; reflexivity).
  assert (PDT : p_datetime (iso_time h mi s us ++ rest) = None) by (unfold p_datetime, p_iso_datetime, pmap, pact, pand; rewrite PDS; reflexivity).
  set (nrest := (58 :: d2 mi ++ [58] ++ d2 s ++ (if us =? 0 then [] else 46 :: d6 us) ++ rest)%list).
  assert (PN : p_number (iso_time h mi s us ++ rest) = Some (Ok (VNum NkFin (d2 h) (d2 h) None), nrest)).
  { unfold iso_time, nrest. rewrite <- !app_assoc. cbn [List.app]. apply p_number_digits; [apply d2_digs| |reflexivity]. cbn. repeat split; discriminate. }
  assert (PX : p_xstr (iso_time h mi s us ++ rest) = None).
  { unfold iso_time. rewrite <- !app_assoc. cbn [List.app]. apply p_xstr_none; [apply digs_not40; exact (proj2 (d2_digs h))|]. split; [reflexivity|discriminate]. }
  assert (L : Nat.le (length rest) (length nrest)).
  { unfold nrest. cbn [length List.app]. rewrite !app_length. cbn [length]. rewrite !app_length. lia. }
  clearbody nrest.
  revert PT PD PDT PN PX. unfold iso_time, d2. cbn [List.app].
  pose proof (adig_mod (h / 10)) as Ha. set (a := 48 + (h / 10) mod 10) in *.
  set (tl := (48 + h mod 10 :: 58 :: (48 + (mi / 10) mod 10 :: 48 + mi mod 10 :: [58] ++ [48 + (s / 10) mod 10; 48 + s mod 10] ++ (if us =? 0 then [] else 46 :: d6 us)) ++ rest)).
  clearbody tl. clearbody a.
  dcases Ha; intros PT PD PDT PN PX; cbn [p_scalar]; destruct v3; cbv zeta; unfold scalars_2_0, por.
  all: try (rewrite por_pick_skip by reflexivity; rewrite por_pick_skip by exact PX; do 3 rewrite por_pick_skip by reflexivity;
            rewrite por_pick_skip by exact PDT; rewrite por_pick_skip by exact PD; erewrite por_pick_start by exact PT;
            rewrite por_pick_skip by reflexivity;
            erewrite por_pick_keep by first [exact PN | exact L];
            apply por_pick_rest_none; repeat (apply Forall_cons; [reflexivity|]); apply Forall_nil).
  all: (do 4 rewrite por_pick_skip by reflexivity;
        rewrite por_pick_skip by exact PDT; rewrite por_pick_skip by exact PD; erewrite por_pick_start by exact PT;
        rewrite por_pick_skip by reflexivity;
        erewrite por_pick_keep by first [exact PN | exact L];
        apply por_pick_rest_none; repeat (apply Forall_cons; [reflexivity|]); apply Forall_nil).
Qed.
