(* Proofs about the filter grammar of Model/Filter.v: the parser inverts a printer of filters over presence
   atoms - and binds tighter than or, both fold to the left over any number of operands, parentheses
   override, `not` applies to a path, keywords are recognised at word boundaries only. *)
From Coq Require Import String.
From Coq Require Import List NArith ZArith Bool Lia Arith.
From HS Require Import Base.Prelude Model.Value Model.Escape Model.Json Model.Filter.
From HS Require Import Proofs.EscapeP.
Import ListNotations.
Open Scope N_scope.

(* ---------- names the printer may use: lower-case letters only, not the word "not" ---------- *)
Definition simple_name (n : str) : Prop := n <> [] /\ Forall (fun c => is_lower c = true) n /\ n <> KW_NOT.

Lemma lower_is_id c : is_lower c = true -> is_id_rest c = true.
Proof. intro H. unfold is_id_rest, is_alpha. rewrite H, orb_true_r. reflexivity. Qed.
Lemma lower_is_kw c : is_lower c = true -> is_kw_char c = true.
Proof. intro H. unfold is_kw_char, is_alpha. rewrite H, orb_true_r. reflexivity. Qed.
Lemma lower_not_ws c : is_lower c = true -> is_ws c = false.
Proof. unfold is_lower, is_ws. intro H. apply andb_true_iff in H. destruct H as [H1 H2]. apply N.leb_le in H1.
  repeat (apply orb_false_iff; split); apply N.eqb_neq; lia. Qed.

(* what may follow a name / a term in printed text: nothing, a blank, or a closing parenthesis *)
Definition stop (r : str) : Prop := r = [] \/ exists r', r = 32 :: r' \/ r = 41 :: r' \/ r = 45 :: r'.
Lemma stop_hd_not_id r : stop r -> match r with c :: _ => is_id_rest c = false /\ is_kw_char c = false | [] => True end.
Proof. intros [E|[r' [E|[E|E]]]]; subst; [exact I|split; reflexivity|split; reflexivity|split; reflexivity]. Qed.

Lemma last_default {A} (l : list A) d1 d2 : l <> [] -> last l d1 = last l d2.
Proof. induction l as [|a l IH]; [contradiction|]. intros _. destruct l as [|b l]; [reflexivity|]. cbn [last] in *. apply IH. discriminate. Qed.
Lemma last_cons {A} (c : A) n p : last (c :: n) p = last n c.
Proof. destruct n as [|a n]; [reflexivity|]. change (last (c :: a :: n) p) with (last (a :: n) p). apply last_default. discriminate. Qed.

(* ---------- run / span over a name ---------- *)
Lemma run_name f : forall n p r fuel, Forall (fun c => f c = true) n ->
  (match r with c :: _ => f c = false | [] => True end) -> (length n + length r <= fuel)%nat ->
  run f (mkInp p (n ++ r)) fuel = (n, mkInp (last n p) r).
Proof.
  induction n as [|c n IH]; intros p r fuel Hn Hr Hf; cbn [List.app].
  - destruct fuel as [|fuel]; cbn [run]; [destruct r; [reflexivity|cbn in Hf; lia]|]. cbn [rest]. destruct r as [|c r]; [reflexivity|]. rewrite Hr. reflexivity.
  - inversion Hn; subst. destruct fuel as [|fuel]; [cbn in Hf; lia|]. cbn [run rest]. rewrite H1.
    rewrite (IH c r fuel H2 Hr) by (cbn in Hf; lia). rewrite last_cons. reflexivity.
Qed.

Lemma ws_nows p r : (match r with c :: _ => is_ws c = false | [] => True end) -> ws (mkInp p r) = mkInp p r.
Proof. intro H. unfold ws. cbn [rest]. destruct r as [|c r]; [reflexivity|]. cbn [length skip_ws rest]. rewrite H. reflexivity. Qed.
Lemma ws_one_blank p c r : is_ws c = false -> ws (mkInp p (32 :: c :: r)) = mkInp 32 (c :: r).
Proof. intro H. unfold ws. cbn [rest length skip_ws]. cbn [is_ws N.eqb]. cbn [rest]. rewrite H. reflexivity. Qed.

(* p_name on a printed name *)
Lemma p_name_simple n p r : simple_name n -> stop r ->
  p_name (mkInp p (n ++ r)) = Some (n, mkInp (last n p) r).
Proof.
  intros [Hne [Hl _]] Hs. destruct n as [|c n]; [contradiction|]. inversion Hl; subst. unfold p_name.
  rewrite ws_nows by (cbn [List.app]; apply lower_not_ws; assumption). cbn [rest List.app]. rewrite H1.
  unfold span_of. cbn [rest].
  rewrite (run_name is_id_rest n c r (length (n ++ r))).
  - rewrite last_cons. reflexivity.
  - eapply Forall_impl; [|exact H2]. intros a Ha. apply lower_is_id. exact Ha.
  - pose proof (stop_hd_not_id r Hs) as Q. destruct r; [exact I|tauto].
  - rewrite app_length. lia.
Qed.

(* paths: names joined by "->" *)
Definition steps_text (ns : list str) : str := concat (map (fun n => 45 :: 62 :: n) ns).
Definition path_text (p : list str) : str := match p with [] => [] | n :: ns => (n ++ steps_text ns)%list end.
Definition path_ok (p : list str) : Prop := p <> [] /\ Forall simple_name p.

(* ---------- the printer: single blanks, parentheses only where the grammar needs them ---------- *)
Definition T_AND : str := [32; 97; 110; 100; 32].      (* " and " *)
Definition T_OR : str := [32; 111; 114; 32].           (* " or " *)
Fixpoint and_terms (e : fexpr) : list fexpr := match e with FAnd a b => and_terms a ++ [b] | _ => [e] end.
Fixpoint or_terms (e : fexpr) : list fexpr := match e with FOr a b => or_terms a ++ [b] | _ => [e] end.

Fixpoint size (e : fexpr) : nat := match e with FAnd a b | FOr a b => S (size a + size b) | _ => 1%nat end.

(* comparison atoms: name, one blank, operator, one blank, literal *)
Definition op_text (op : cmpop) : str :=
  match op with CEq => [61; 61] | CNe => [33; 61] | CLe => [60; 61] | CGe => [62; 61] | CLt => [60] | CGt => [62] end.
Definition pr_val (v : hval) : str :=
  match v with
  | VBool true => [116; 114; 117; 101]
  | VBool false => [102; 97; 108; 115; 101]
  | VNum NkFin d _ None => d
  | VStr s => match escape_str s with Ok e => DQ :: e ++ [DQ] | Raise _ => [] end
  | _ => []
  end.
(* literals the printer may use: booleans, unsigned digit runs, every string *)
Definition val_ok (v : hval) : Prop :=
  match v with
  | VBool _ => True
  | VNum NkFin d d' None => d' = d /\ d <> [] /\ Forall (fun c => is_dig c = true) d
  | VStr _ => True
  | _ => False
  end.
Definition pr_cmp (n : str) (op : cmpop) (v : hval) : str := n ++ 32 :: op_text op ++ 32 :: pr_val v.

Fixpoint pr_term (e : fexpr) : str :=
  match e with
  | FHas p => path_text p
  | FMissing p => 110 :: 111 :: 116 :: 32 :: path_text p
  | FCmp op p v => pr_cmp (path_text p) op v
  | FAnd a b => 40 :: pr_and_i a ++ T_AND ++ pr_term b ++ [41]
  | FOr a b => 40 :: pr_or_i a ++ T_OR ++ pr_and_i b ++ [41]
  end
with pr_and_i (e : fexpr) : str :=
  match e with
  | FAnd a b => pr_and_i a ++ T_AND ++ pr_term b
  | FOr a b => 40 :: pr_or_i a ++ T_OR ++ pr_and_i b ++ [41]
  | FHas p => path_text p
  | FMissing p => 110 :: 111 :: 116 :: 32 :: path_text p
  | FCmp op p v => pr_cmp (path_text p) op v
  end
with pr_or_i (e : fexpr) : str :=
  match e with
  | FOr a b => pr_or_i a ++ T_OR ++ pr_and_i b
  | FAnd a b => pr_and_i a ++ T_AND ++ pr_term b
  | FHas p => path_text p
  | FMissing p => 110 :: 111 :: 116 :: 32 :: path_text p
  | FCmp op p v => pr_cmp (path_text p) op v
  end.

Fixpoint printable (e : fexpr) : Prop :=
  match e with
  | FHas p | FMissing p => path_ok p
  | FCmp op p v => path_ok p /\ val_ok v
  | FAnd a b | FOr a b => printable a /\ printable b
  end.

(* what may follow a term in printed text *)
Inductive follow : str -> Prop :=
| F_end : follow []
| F_close r : follow (41 :: r)
| F_and r : follow (T_AND ++ r)
| F_or r : follow (T_OR ++ r).
Lemma follow_stop r : follow r -> stop r.
Proof. intro H. destruct H as [|x|x|x].
  - left; reflexivity.
  - right. eexists. right. left. reflexivity.
  - right. eexists. left. reflexivity.
  - right. eexists. left. reflexivity.
Qed.

Lemma follow_no_arrow p r : follow r -> lit [45; 62] (mkInp p r) = None.
Proof. intro H; destruct H as [|x|x|x]; reflexivity. Qed.
Lemma follow_no_cmpop p r : follow r -> p_cmpop (mkInp p r) = None.
Proof. intro H; destruct H as [|x|x|x]; reflexivity. Qed.
Lemma kw_and_yes p r : keyword KW_AND (mkInp p (T_AND ++ r)) = Some (tt, mkInp 100 (32 :: r)).
Proof. reflexivity. Qed.
Lemma kw_or_yes p r : keyword KW_OR (mkInp p (T_OR ++ r)) = Some (tt, mkInp 114 (32 :: r)).
Proof. reflexivity. Qed.
Lemma kw_and_no p r : follow r -> (forall r', r <> T_AND ++ r') -> keyword KW_AND (mkInp p r) = None.
Proof. intros F H. destruct F as [|x|x|x]; try (unfold keyword; match goal with |- context [is_kw_char ?c] => destruct (is_kw_char c) end; reflexivity); exfalso; eapply H; reflexivity. Qed.
Lemma kw_or_no p r : follow r -> (forall r', r <> T_OR ++ r') -> keyword KW_OR (mkInp p r) = None.
Proof. intros F H. destruct F as [|x|x|x]; try (unfold keyword; match goal with |- context [is_kw_char ?c] => destruct (is_kw_char c) end; reflexivity); exfalso; eapply H; reflexivity. Qed.

(* ---------- terms ---------- *)

(* Keyword("not") does not fire at the start of a printed name *)
Lemma kw_not_name n r p : simple_name n -> stop r -> keyword KW_NOT (mkInp p (n ++ r)) = None.
Proof.
  intros [Hne [Hl Hnot]] Hs. destruct n as [|a n]; [contradiction|]. inversion Hl as [|? ? Ha Hn]; subst.
  unfold keyword. rewrite ws_nows by (cbn [List.app]; apply lower_not_ws; exact Ha).
  cbn [prev]. destruct (is_kw_char p); [reflexivity|].
  unfold KW_NOT. cbn [List.app eat rest].
  destruct (a =? 110) eqn:E1; [|reflexivity].
  destruct n as [|b n].
  - cbn [List.app]. destruct Hs as [E|[r' [E|[E|E]]]]; subst; reflexivity.
  - inversion Hn as [|? ? Hb Hn2]; subst. cbn [List.app eat rest]. destruct (b =? 111) eqn:E2; [|reflexivity].
    destruct n as [|c n].
    + cbn [List.app]. destruct Hs as [E|[r' [E|[E|E]]]]; subst; reflexivity.
    + inversion Hn2 as [|? ? Hc Hn3]; subst. cbn [List.app eat rest]. destruct (c =? 116) eqn:E3; [|reflexivity].
      destruct n as [|d n].
      * exfalso. apply Hnot. apply N.eqb_eq in E1. apply N.eqb_eq in E2. apply N.eqb_eq in E3. subst. reflexivity.
      * inversion Hn3 as [|? ? Hd Hn4]; subst. cbn [List.app rest]. rewrite (lower_is_kw d Hd). reflexivity.
Qed.

Lemma lit_paren_name n r p : simple_name n -> lit [40] (mkInp p (n ++ r)) = None.
Proof.
  intros [Hne [Hl _]]. destruct n as [|a n]; [contradiction|]. inversion Hl as [|? ? Ha Hn]; subst.
  unfold lit. rewrite ws_nows by (cbn [List.app]; apply lower_not_ws; exact Ha). cbn [List.app eat rest].
  destruct (a =? 40) eqn:E; [|reflexivity]. apply N.eqb_eq in E. subst. discriminate.
Qed.

Lemma p_path_simple n p r : simple_name n -> follow r -> p_path (mkInp p (n ++ r)) = Some ([n], mkInp (last n p) r).
Proof.
  intros Hn Hf. unfold p_path. rewrite (p_name_simple n p r Hn (follow_stop r Hf)).
  destruct (length (rest (mkInp (last n p) r))) as [|fuel]; cbn [p_path_rest]; [reflexivity|].
  rewrite (follow_no_arrow _ r Hf). reflexivity.
Qed.

(* ---------- paths: names joined by "->" ---------- *)

Lemma steps_stop ns r : stop r -> stop (steps_text ns ++ r).
Proof. intro H. destruct ns as [|n ns]; cbn [steps_text map concat List.app]; [exact H|]. right. eexists. right. right. reflexivity. Qed.

Lemma steps_len ns : (length ns <= length (steps_text ns))%nat.
Proof. induction ns as [|n ns IH]; cbn [steps_text map concat length]; [lia|]. fold (steps_text ns). cbn [List.app length]. rewrite app_length. lia. Qed.

Lemma path_rest_steps : forall ns q r fuel, Forall simple_name ns -> stop r -> (forall q', lit [45; 62] (mkInp q' r) = None) ->
  (length ns <= fuel)%nat -> exists q', p_path_rest fuel (mkInp q (steps_text ns ++ r)) = (ns, mkInp q' r).
Proof.
  induction ns as [|n ns IH]; intros q r fuel Hn Hs Hno Hf.
  - exists q. cbn [steps_text map concat List.app]. destruct fuel as [|f]; cbn [p_path_rest]; [reflexivity|]. rewrite Hno. reflexivity.
  - inversion Hn as [|? ? Hn1 Hns]; subst. destruct fuel as [|f]; [cbn in Hf; lia|].
    cbn [steps_text map concat]. fold (steps_text ns). rewrite <- app_assoc. cbn [List.app p_path_rest].
    assert (L : lit [45; 62] (mkInp q (45 :: 62 :: n ++ steps_text ns ++ r)) = Some (tt, mkInp 62 (n ++ steps_text ns ++ r))) by reflexivity.
    rewrite L. rewrite (p_name_simple n 62 (steps_text ns ++ r) Hn1 (steps_stop ns r Hs)).
    destruct (IH (last n 62) r f Hns Hs Hno) as [q' Hq]; [cbn in Hf; lia|]. rewrite Hq. exists q'. reflexivity.
Qed.

Lemma p_path_multi p q r : path_ok p -> stop r -> (forall q', lit [45; 62] (mkInp q' r) = None) ->
  exists q', p_path (mkInp q (path_text p ++ r)) = Some (p, mkInp q' r).
Proof.
  intros [Hne Hall] Hs Hno. destruct p as [|n ns]; [contradiction|]. inversion Hall as [|? ? Hn Hns]; subst.
  cbn [path_text]. rewrite <- app_assoc. unfold p_path. rewrite (p_name_simple n q (steps_text ns ++ r) Hn (steps_stop ns r Hs)).
  cbn [rest]. destruct (path_rest_steps ns (last n q) r (length (steps_text ns ++ r)) Hns Hs Hno) as [q' Hq].
  { rewrite app_length. pose proof (steps_len ns). lia. }
  rewrite Hq. exists q'. reflexivity.
Qed.

Lemma p_name_ws i j : ws i = ws j -> p_name i = p_name j.
Proof. intro H. unfold p_name. rewrite H. reflexivity. Qed.
Lemma p_path_ws i j : ws i = ws j -> p_path i = p_path j.
Proof. intro H. unfold p_path. rewrite (p_name_ws i j H). reflexivity. Qed.

Lemma path_hd p : path_ok p -> exists n ns, p = n :: ns /\ simple_name n /\ Forall simple_name ns.
Proof. intros [Hne Hall]. destruct p as [|n ns]; [contradiction|]. inversion Hall; subst. exists n, ns. split; [reflexivity|split; assumption]. Qed.

Section Term.
  Variable inner : fparser fexpr.

  Lemma term_has n p r : simple_name n -> follow r ->
    p_term_with inner (mkInp p (n ++ r)) = Some (FHas [n], mkInp (last n p) r).
  Proof.
    intros Hn Hf. unfold p_term_with. rewrite (lit_paren_name n r p Hn). rewrite (kw_not_name n r p Hn (follow_stop r Hf)).
    rewrite (p_path_simple n p r Hn Hf). rewrite (follow_no_cmpop _ r Hf). reflexivity.
  Qed.
End Term.

Lemma p_name_after_blank n p r : simple_name n -> stop r ->
  p_name (mkInp p (32 :: n ++ r)) = Some (n, mkInp (last n 32) r).
Proof.
  intros Hn Hs. destruct Hn as [Hne [Hl Hnot]]. destruct n as [|a n]; [contradiction|]. inversion Hl as [|? ? Ha Hn2]; subst.
  unfold p_name. cbn [List.app]. rewrite (ws_one_blank p a (n ++ r) (lower_not_ws a Ha)). cbn [rest]. rewrite Ha.
  unfold span_of. cbn [rest]. rewrite (run_name is_id_rest n a r (length (n ++ r))).
  - rewrite last_cons. reflexivity.
  - eapply Forall_impl; [|exact Hn2]. intros c Hc. apply lower_is_id. exact Hc.
  - pose proof (stop_hd_not_id r Hs) as Q. destruct r; [exact I|tauto].
  - rewrite app_length. lia.
Qed.

Section Term2.
  Variable inner : fparser fexpr.

  Lemma term_missing n p r : simple_name n -> follow r -> is_kw_char p = false ->
    p_term_with inner (mkInp p (110 :: 111 :: 116 :: 32 :: n ++ r)) = Some (FMissing [n], mkInp (last n 32) r).
  Proof.
    intros Hn Hf Hp. unfold p_term_with.
    assert (L : lit [40] (mkInp p (110 :: 111 :: 116 :: 32 :: n ++ r)) = None) by reflexivity. rewrite L.
    assert (K : keyword KW_NOT (mkInp p (110 :: 111 :: 116 :: 32 :: n ++ r)) = Some (tt, mkInp 116 (32 :: n ++ r))).
    { unfold keyword. rewrite ws_nows by reflexivity. cbn [prev]. rewrite Hp. reflexivity. }
    rewrite K. unfold p_path. rewrite (p_name_after_blank n 116 r Hn (follow_stop r Hf)).
    destruct (length (rest (mkInp (last n 32) r))) as [|fuel]; cbn [p_path_rest]; [reflexivity|].
    rewrite (follow_no_arrow _ r Hf). reflexivity.
  Qed.

  Lemma term_paren body e q p r :
    inner (mkInp 40 (body ++ 41 :: r)) = Some (e, mkInp q (41 :: r)) ->
    p_term_with inner (mkInp p (40 :: body ++ 41 :: r)) = Some (e, mkInp 41 r).
  Proof.
    intro H. unfold p_term_with.
    assert (L : lit [40] (mkInp p (40 :: body ++ 41 :: r)) = Some (tt, mkInp 40 (body ++ 41 :: r))) by reflexivity.
    rewrite L, H. reflexivity.
  Qed.
End Term2.

(* ---------- comparison atoms ---------- *)
Lemma dig_cases c : is_dig c = true ->
  c = 48 \/ c = 49 \/ c = 50 \/ c = 51 \/ c = 52 \/ c = 53 \/ c = 54 \/ c = 55 \/ c = 56 \/ c = 57.
Proof. unfold is_dig. intro H. apply andb_true_iff in H as [H1 H2]. apply N.leb_le in H1. apply N.leb_le in H2. lia. Qed.

Lemma p_val_bool b p r : exists q, p_val (mkInp p (32 :: pr_val (VBool b) ++ r)) = Some (VBool b, mkInp q r).
Proof. destruct b; eexists; reflexivity. Qed.

Lemma p_val_str s p r : exists q, p_val (mkInp p (32 :: pr_val (VStr s) ++ r)) = Some (VStr s, mkInp q r).
Proof.
  unfold pr_val, escape_str.
  destruct (esc_all_total DQ str_esc_letters false esc_str_char every_char_str s) as [e He]. rewrite He.
  cbn [List.app]. rewrite <- app_assoc. cbn [List.app].
  pose proof (quoted_roundtrip DQ str_esc_letters false esc_str_char dq_ne dq_32 every_char_str s e r He) as Q.
  set (t := (e ++ DQ :: r)%list) in *.
  unfold p_val.
  assert (R1 : p_ref (mkInp p (32 :: DQ :: t)) = None) by reflexivity. rewrite R1.
  assert (R2 : p_number (mkInp p (32 :: DQ :: t)) = None) by reflexivity. rewrite R2.
  assert (R3 : lit [78; 65] (mkInp p (32 :: DQ :: t)) = None) by reflexivity. rewrite R3.
  assert (R4 : lit [78] (mkInp p (32 :: DQ :: t)) = None) by reflexivity. rewrite R4.
  assert (R5 : lit [77] (mkInp p (32 :: DQ :: t)) = None) by reflexivity. rewrite R5.
  assert (R6 : lit [116; 114; 117; 101] (mkInp p (32 :: DQ :: t)) = None) by reflexivity. rewrite R6.
  assert (R7 : lit [102; 97; 108; 115; 101] (mkInp p (32 :: DQ :: t)) = None) by reflexivity. rewrite R7.
  unfold p_qstr, to_inp_result. change (ws (mkInp p (32 :: DQ :: t))) with (mkInp 32 (DQ :: t)). cbn [rest].
  unfold hs_str. rewrite Q. eexists. reflexivity.
Qed.

Lemma span_run_all f : forall u rest, Forall (fun c => f c = true) u ->
  (match rest with c :: _ => f c = false | [] => True end) -> span f (u ++ rest) = (u, rest).
Proof.
  induction u as [|c u IH]; intros rest Hu Hr; cbn [List.app].
  - destruct rest as [|c r]; cbn [span]; [reflexivity|]. rewrite Hr. reflexivity.
  - inversion Hu; subst. cbn [span]. rewrite H1. rewrite (IH rest H2 Hr). reflexivity.
Qed.
Lemma dig_is_dig_us c : is_dig c = true -> is_dig_us c = true.
Proof. intro H. unfold is_dig_us. rewrite H. reflexivity. Qed.

Lemma decimal_digits c d r : is_dig c = true -> Forall (fun x => is_dig x = true) d -> follow r ->
  p_decimal_text (c :: d ++ r) = Some (c :: d, r).
Proof.
  intros Hc Hd Hf.
  assert (Sp : span is_dig_us (c :: d ++ r) = (c :: d, r)).
  { apply (span_run_all is_dig_us (c :: d) r).
    - constructor; [apply dig_is_dig_us; exact Hc|]. eapply Forall_impl; [|exact Hd]. intros x Hx. apply dig_is_dig_us. exact Hx.
    - destruct Hf as [|x|x|x]; [exact I|reflexivity|reflexivity|reflexivity]. }
  unfold p_decimal_text.
  destruct (dig_cases c Hc) as [E|[E|[E|[E|[E|[E|[E|[E|[E|E]]]]]]]]]; subst c; cbv iota beta; rewrite Sp;
    destruct Hf as [|x|x|x]; cbn; rewrite ?app_nil_r; reflexivity.
Qed.

Lemma p_val_num d p r : d <> [] -> Forall (fun c => is_dig c = true) d -> follow r ->
  exists q, p_val (mkInp p (32 :: d ++ r)) = Some (VNum NkFin d d None, mkInp q r).
Proof.
  intros Hne Hd Hf. destruct d as [|c d]; [contradiction|]. inversion Hd as [|? ? Hc Hd']; subst.
  cbn [List.app]. unfold p_val.
  assert (W : ws (mkInp p (32 :: c :: d ++ r)) = mkInp 32 (c :: d ++ r)).
  { apply ws_one_blank. destruct (dig_cases c Hc) as [E|[E|[E|[E|[E|[E|[E|[E|[E|E]]]]]]]]]; subst c; reflexivity. }
  assert (R1 : p_ref (mkInp p (32 :: c :: d ++ r)) = None).
  { unfold p_ref, lit. rewrite W. cbn [eat rest].
    destruct (dig_cases c Hc) as [E|[E|[E|[E|[E|[E|[E|[E|[E|E]]]]]]]]]; subst c; reflexivity. }
  rewrite R1. unfold p_number. rewrite W. unfold to_inp_result. cbn [rest].
  rewrite (decimal_digits c d r Hc Hd' Hf).
  destruct Hf as [|x|x|x]; eexists; reflexivity.
Qed.

Lemma p_val_ok v p r : val_ok v -> follow r -> exists q, p_val (mkInp p (32 :: pr_val v ++ r)) = Some (v, mkInp q r).
Proof.
  intros Hv Hf. destruct v; cbn [val_ok] in Hv; try contradiction.
  - apply p_val_bool.
  - destruct k; try contradiction. destruct unit; try contradiction. destruct Hv as [E [Hne Hd]]. subst jtok.
    cbn [pr_val]. apply p_val_num; assumption.
  - apply p_val_str.
Qed.

Lemma p_cmpop_text op p t : p_cmpop (mkInp p (32 :: op_text op ++ 32 :: t)) = Some (op, mkInp (last (op_text op) 0) (32 :: t)).
Proof. destruct op; reflexivity. Qed.
Lemma no_arrow_before_op op p t : lit [45; 62] (mkInp p (32 :: op_text op ++ t)) = None.
Proof. destruct op; reflexivity. Qed.

Section Term3.
  Variable inner : fparser fexpr.
  Lemma term_cmp n op v p r : simple_name n -> val_ok v -> follow r ->
    exists q, p_term_with inner (mkInp p (pr_cmp n op v ++ r)) = Some (FCmp op [n] v, mkInp q r).
  Proof.
    intros Hn Hv Hf. unfold pr_cmp. rewrite <- app_assoc. cbn [List.app]. rewrite <- app_assoc. cbn [List.app].
    assert (St : stop (32 :: op_text op ++ 32 :: pr_val v ++ r)) by (right; eexists; left; reflexivity).
    unfold p_term_with. rewrite (lit_paren_name n _ p Hn). rewrite (kw_not_name n _ p Hn St).
    assert (P : p_path (mkInp p (n ++ 32 :: op_text op ++ 32 :: pr_val v ++ r)) = Some ([n], mkInp (last n p) (32 :: op_text op ++ 32 :: pr_val v ++ r))).
    { unfold p_path. rewrite (p_name_simple n p _ Hn St). cbn [rest length]. cbn [p_path_rest].
      rewrite no_arrow_before_op. reflexivity. }
    rewrite P. rewrite p_cmpop_text.
    destruct (p_val_ok v (last (op_text op) 0) r Hv Hf) as [q Hq]. rewrite Hq. exists q. reflexivity.
  Qed.
End Term3.

(* ---------- chains ---------- *)
Section Chain.
  Variable operand : fparser fexpr.
  Variable k : str.           (* the keyword *)
  Variable sep : str.         (* " k " *)
  Variable mk : fexpr -> fexpr -> fexpr.
  Variable prt : fexpr -> str.
  Hypothesis kw_yes : forall p r, keyword k (mkInp p (sep ++ r)) = Some (tt, mkInp (last k 0) (32 :: r)).
  (* an operand is read back, after the blank that follows the keyword, whatever legal text follows it *)
  Variable okop : fexpr -> Prop.
  Variable fol : str -> Prop.    (* what may follow an operand *)
  Hypothesis op_ok : forall t r, okop t -> fol r -> exists q, operand (mkInp (last k 0) (32 :: prt t ++ r)) = Some (t, mkInp q r).

  Fixpoint chain_text (ts : list fexpr) : str := match ts with [] => [] | t :: ts' => sep ++ prt t ++ chain_text ts' end.

  Lemma follow_chain ts r : fol r -> (forall r', fol (sep ++ r')) -> fol (chain_text ts ++ r).
  Proof. intros Hr Hs. destruct ts as [|t ts]; cbn [chain_text List.app]; [exact Hr|]. rewrite <- app_assoc. apply Hs. Qed.

  Lemma fold_chain : forall ts fuel acc p r,
    Forall okop ts -> fol r -> (forall r', fol (sep ++ r')) ->
    keyword k (mkInp (match ts with [] => p | _ => p end) r) = None ->
    (forall q, keyword k (mkInp q r) = None) ->
    (length ts <= fuel)%nat ->
    exists q, fold_more fuel k mk operand acc (mkInp p (chain_text ts ++ r)) = (fold_left mk ts acc, mkInp q r).
  Proof.
    induction ts as [|t ts IH]; intros fuel acc p r Hok Hr Hs _ Hno Hf; cbn [chain_text List.app fold_left].
    - exists p. destruct fuel as [|fuel]; cbn [fold_more]; [reflexivity|]. rewrite Hno. reflexivity.
    - inversion Hok; subst. destruct fuel as [|fuel]; [cbn in Hf; lia|]. cbn [fold_more].
      rewrite <- !app_assoc. rewrite kw_yes.
      destruct (op_ok t (chain_text ts ++ r) H1 (follow_chain ts r Hr Hs)) as [q Hq]. rewrite Hq.
      apply IH; try assumption. apply Hno. cbn in Hf. lia.
  Qed.
End Chain.

(* ---------- spines ---------- *)
Fixpoint and_spine (e : fexpr) : fexpr * list fexpr :=
  match e with FAnd a b => let '(h, l) := and_spine a in (h, l ++ [b]) | _ => (e, []) end.
Fixpoint or_spine (e : fexpr) : fexpr * list fexpr :=
  match e with FOr a b => let '(h, l) := or_spine a in (h, l ++ [b]) | _ => (e, []) end.
Definition is_and (e : fexpr) : bool := match e with FAnd _ _ => true | _ => false end.
Definition is_or (e : fexpr) : bool := match e with FOr _ _ => true | _ => false end.
Definition is_atom (e : fexpr) : bool := match e with FAnd _ _ | FOr _ _ => false | _ => true end.

Lemma chain_text_app sep prt l1 l2 : chain_text sep prt (l1 ++ l2) = chain_text sep prt l1 ++ chain_text sep prt l2.
Proof. induction l1 as [|t l1 IH]; cbn [List.app chain_text]; [reflexivity|]. rewrite IH, !app_assoc. reflexivity. Qed.

Lemma and_spine_spec e : let '(h, l) := and_spine e in
  e = fold_left FAnd l h /\ is_and h = false /\ pr_and_i e = pr_and_i h ++ chain_text T_AND pr_term l /\
  (printable e -> printable h /\ Forall printable l) /\
  (l <> [] -> (size h < size e)%nat /\ Forall (fun t => (size t < size e)%nat) l) /\ (l = [] -> h = e).
Proof.
  induction e as [p|p|op p v|a IHa b IHb|a IHa b IHb]; cbn [and_spine];
    [(split; [reflexivity|]; split; [reflexivity|]; split; [cbn [chain_text]; rewrite app_nil_r; reflexivity|]; split; [intro P; split; [exact P|constructor]|]; split; [intro H; contradiction|reflexivity])|(split; [reflexivity|]; split; [reflexivity|]; split; [cbn [chain_text]; rewrite app_nil_r; reflexivity|]; split; [intro P; split; [exact P|constructor]|]; split; [intro H; contradiction|reflexivity])|(split; [reflexivity|]; split; [reflexivity|]; split; [cbn [chain_text]; rewrite app_nil_r; reflexivity|]; split; [intro P; split; [exact P|constructor]|]; split; [intro H; contradiction|reflexivity])| |(split; [reflexivity|]; split; [reflexivity|]; split; [cbn [chain_text]; rewrite app_nil_r; reflexivity|]; split; [intro P; split; [exact P|constructor]|]; split; [intro H; contradiction|reflexivity])].
  destruct (and_spine a) as [h l]. destruct IHa as [E [Hh [Hp [Hpr [Hs Hn]]]]].
  split; [rewrite fold_left_app; cbn [fold_left]; rewrite <- E; reflexivity|]. split; [exact Hh|]. split.
  - cbn [pr_and_i]. rewrite Hp, chain_text_app. cbn [chain_text]. rewrite !app_nil_r, <- !app_assoc. reflexivity.
  - split; [|split].
    + cbn [printable]. intros [Pa Pb]. destruct (Hpr Pa) as [Ph Pl]. split; [exact Ph|]. apply Forall_app. split; [exact Pl|constructor; [exact Pb|constructor]].
    + intros _. cbn [size]. destruct l as [|t l'].
      * rewrite (Hn eq_refl). split; [lia|]. cbn [List.app]. constructor; [lia|constructor].
      * destruct (Hs ltac:(discriminate)) as [S1 S2]. split; [lia|]. apply Forall_app. split.
        -- eapply Forall_impl; [|exact S2]. cbn beta. intros; lia.
        -- constructor; [lia|constructor].
    + intro E0. destruct l; discriminate.
Qed.

Lemma or_spine_spec e : let '(h, l) := or_spine e in
  e = fold_left FOr l h /\ is_or h = false /\ pr_or_i e = pr_or_i h ++ chain_text T_OR pr_and_i l /\
  (printable e -> printable h /\ Forall printable l) /\
  (l <> [] -> (size h < size e)%nat /\ Forall (fun t => (size t < size e)%nat) l) /\ (l = [] -> h = e).
Proof.
  induction e as [p|p|op p v|a IHa b IHb|a IHa b IHb]; cbn [or_spine];
    [(split; [reflexivity|]; split; [reflexivity|]; split; [cbn [chain_text]; rewrite app_nil_r; reflexivity|]; split; [intro P; split; [exact P|constructor]|]; split; [intro H; contradiction|reflexivity])|(split; [reflexivity|]; split; [reflexivity|]; split; [cbn [chain_text]; rewrite app_nil_r; reflexivity|]; split; [intro P; split; [exact P|constructor]|]; split; [intro H; contradiction|reflexivity])|(split; [reflexivity|]; split; [reflexivity|]; split; [cbn [chain_text]; rewrite app_nil_r; reflexivity|]; split; [intro P; split; [exact P|constructor]|]; split; [intro H; contradiction|reflexivity])|(split; [reflexivity|]; split; [reflexivity|]; split; [cbn [chain_text]; rewrite app_nil_r; reflexivity|]; split; [intro P; split; [exact P|constructor]|]; split; [intro H; contradiction|reflexivity])| ].
  destruct (or_spine a) as [h l]. destruct IHa as [E [Hh [Hp [Hpr [Hs Hn]]]]].
  split; [rewrite fold_left_app; cbn [fold_left]; rewrite <- E; reflexivity|]. split; [exact Hh|]. split.
  - cbn [pr_or_i]. rewrite Hp, chain_text_app. cbn [chain_text]. rewrite !app_nil_r, <- !app_assoc. reflexivity.
  - split; [|split].
    + cbn [printable]. intros [Pa Pb]. destruct (Hpr Pa) as [Ph Pl]. split; [exact Ph|]. apply Forall_app. split; [exact Pl|constructor; [exact Pb|constructor]].
    + intros _. cbn [size]. destruct l as [|t l'].
      * rewrite (Hn eq_refl). split; [lia|]. cbn [List.app]. constructor; [lia|constructor].
      * destruct (Hs ltac:(discriminate)) as [S1 S2]. split; [lia|]. apply Forall_app. split.
        -- eapply Forall_impl; [|exact S2]. cbn beta. intros; lia.
        -- constructor; [lia|constructor].
    + intro E0. destruct l; discriminate.
Qed.

(* ---------- every sub-parser looks at its input only after skipping blanks ---------- *)
Lemma ws_blank p x : ws (mkInp p (32 :: x)) = ws (mkInp 32 x).
Proof. reflexivity. Qed.
Lemma term_ws inner i j : ws i = ws j -> p_term_with inner i = p_term_with inner j.
Proof. intro H. unfold p_term_with, lit, keyword, p_path, p_name. rewrite H. reflexivity. Qed.
Lemma and_ws inner i j : ws i = ws j -> p_and_with inner i = p_and_with inner j.
Proof. intro H. unfold p_and_with. rewrite (term_ws inner i j H). reflexivity. Qed.

Definition follow_or (r : str) : Prop := r = [] \/ exists r', r = 41 :: r'.
Lemma follow_or_follow r : follow_or r -> follow r.
Proof. intros [E|[r' E]]; subst; constructor. Qed.

Lemma chain_len sep prt ts : (1 <= length sep)%nat -> (length ts <= length (chain_text sep prt ts))%nat.
Proof. intro H. induction ts as [|t ts IH]; cbn [chain_text length]; [lia|]. rewrite !app_length. lia. Qed.

Lemma pr_term_compound t : is_atom t = false -> pr_term t = 40 :: pr_or_i t ++ [41].
Proof. destruct t; try discriminate; intros _; cbn [pr_term pr_or_i]; rewrite <- ?app_assoc; reflexivity. Qed.
Lemma pr_and_nonand h : is_and h = false -> pr_and_i h = pr_term h.
Proof. destruct h; try discriminate; intros _; reflexivity. Qed.
Lemma pr_or_nonor h : is_or h = false -> pr_or_i h = pr_and_i h.
Proof. destruct h; try discriminate; intros _; reflexivity. Qed.

(* ---------- terms over paths ---------- *)
Section TermPath.
  Variable inner : fparser fexpr.

  Lemma term_has_path p q r : path_ok p -> follow r ->
    exists q', p_term_with inner (mkInp q (path_text p ++ r)) = Some (FHas p, mkInp q' r).
  Proof.
    intros Hp Hf. destruct (path_hd p Hp) as [n [ns [E [Hn Hns]]]].
    destruct (p_path_multi p q r Hp (follow_stop r Hf) (fun q' => follow_no_arrow q' r Hf)) as [q' Hq].
    exists q'. unfold p_term_with. rewrite Hq. subst p. cbn [path_text] in *. rewrite <- app_assoc.
    rewrite (lit_paren_name n (steps_text ns ++ r) q Hn).
    rewrite (kw_not_name n (steps_text ns ++ r) q Hn (steps_stop ns r (follow_stop r Hf))).
    rewrite (follow_no_cmpop _ r Hf). reflexivity.
  Qed.

  Lemma term_missing_path p q r : path_ok p -> follow r -> is_kw_char q = false ->
    exists q', p_term_with inner (mkInp q (110 :: 111 :: 116 :: 32 :: path_text p ++ r)) = Some (FMissing p, mkInp q' r).
  Proof.
    intros Hp Hf Hk.
    destruct (p_path_multi p 32 r Hp (follow_stop r Hf) (fun q' => follow_no_arrow q' r Hf)) as [q' Hq].
    exists q'. unfold p_term_with.
    assert (L : lit [40] (mkInp q (110 :: 111 :: 116 :: 32 :: path_text p ++ r)) = None) by reflexivity. rewrite L.
    assert (K : keyword KW_NOT (mkInp q (110 :: 111 :: 116 :: 32 :: path_text p ++ r)) = Some (tt, mkInp 116 (32 :: path_text p ++ r))).
    { unfold keyword. rewrite ws_nows by reflexivity. cbn [prev]. rewrite Hk. reflexivity. }
    rewrite K. rewrite (p_path_ws (mkInp 116 (32 :: path_text p ++ r)) (mkInp 32 (path_text p ++ r)) (ws_blank 116 _)). rewrite Hq. reflexivity.
  Qed.

  Lemma term_cmp_path p op v q r : path_ok p -> val_ok v -> follow r ->
    exists q', p_term_with inner (mkInp q (pr_cmp (path_text p) op v ++ r)) = Some (FCmp op p v, mkInp q' r).
  Proof.
    intros Hp Hv Hf. destruct (path_hd p Hp) as [n [ns [E [Hn Hns]]]].
    unfold pr_cmp. rewrite <- app_assoc. cbn [List.app]. rewrite <- app_assoc. cbn [List.app].
    set (R := (32 :: op_text op ++ 32 :: pr_val v ++ r)%list).
    assert (St : stop R) by (right; eexists; left; reflexivity).
    destruct (p_path_multi p q R Hp St (fun q' => no_arrow_before_op op q' _)) as [q1 Hq].
    destruct (p_val_ok v (last (op_text op) 0) r Hv Hf) as [q2 Hv2].
    exists q2. unfold p_term_with. rewrite Hq. unfold R at 3. rewrite p_cmpop_text, Hv2.
    subst p. cbn [path_text]. rewrite <- app_assoc.
    rewrite (lit_paren_name n (steps_text ns ++ R) q Hn).
    rewrite (kw_not_name n (steps_text ns ++ R) q Hn (steps_stop ns R St)). reflexivity.
  Qed.
End TermPath.

Section Main.
  Variable fuel : nat.
  Let inner : fparser fexpr := fun j => p_filter fuel j.
  Hypothesis A : forall e, printable e -> (size e <= fuel)%nat -> forall r, follow_or r ->
    exists q, inner (mkInp 40 (pr_or_i e ++ r)) = Some (e, mkInp q r).

  Definition okterm (t : fexpr) : Prop := printable t /\ (is_atom t = true \/ (size t <= fuel)%nat).
  Definition okand (x : fexpr) : Prop := printable x /\ ((size x <= fuel)%nat \/ (is_or x = false /\ (size x <= S fuel)%nat)).

  Lemma term_ok t p r : okterm t -> follow r -> is_kw_char p = false ->
    exists q, p_term_with inner (mkInp p (pr_term t ++ r)) = Some (t, mkInp q r).
  Proof.
    intros [Hp Hs] Hf Hk. destruct t as [pp|pp|op pp v|a b|a b]; cbn [printable] in Hp.
    - cbn [pr_term]. apply term_has_path; assumption.
    - cbn [pr_term List.app]. apply term_missing_path; assumption.
    - cbn [pr_term]. destruct Hp as [Hn Hv]. apply term_cmp_path; assumption.
    - destruct Hs as [Hs|Hs]; [discriminate|]. rewrite pr_term_compound by reflexivity.
      destruct (A (FAnd a b) Hp Hs (41 :: r) (or_intror (ex_intro _ r eq_refl))) as [q Hq].
      eexists. cbn [List.app]. rewrite <- app_assoc. cbn [List.app]. eapply term_paren. exact Hq.
    - destruct Hs as [Hs|Hs]; [discriminate|]. rewrite pr_term_compound by reflexivity.
      destruct (A (FOr a b) Hp Hs (41 :: r) (or_intror (ex_intro _ r eq_refl))) as [q Hq].
      eexists. cbn [List.app]. rewrite <- app_assoc. cbn [List.app]. eapply term_paren. exact Hq.
  Qed.

  Lemma and_ok x p r : okand x -> follow r -> (forall r', r <> T_AND ++ r') -> is_kw_char p = false ->
    exists q, p_and_with inner (mkInp p (pr_and_i x ++ r)) = Some (x, mkInp q r).
  Proof.
    intros [Hp Hs] Hf Hna Hk. pose proof (and_spine_spec x) as S. destruct (and_spine x) as [h l].
    destruct S as [E [Hh [Hpr [Hpp [Hsz Hnil]]]]]. destruct (Hpp Hp) as [Ph Pl].
    assert (Oh : okterm h).
    { split; [exact Ph|]. destruct l as [|t l'].
      - rewrite (Hnil eq_refl). destruct x; try (left; reflexivity); [discriminate Hh || (rewrite (Hnil eq_refl) in Hh; discriminate)|].
        right. destruct Hs as [Hs|[Ho _]]; [exact Hs|discriminate].
      - right. destruct (Hsz ltac:(discriminate)) as [S1 _]. destruct Hs as [Hs|[_ Hs]]; lia. }
    assert (Ol : Forall okterm l).
    { destruct l as [|t l']; [constructor|]. destruct (Hsz ltac:(discriminate)) as [_ S2].
      apply Forall_forall. intros y Hy. split; [rewrite Forall_forall in Pl; exact (Pl y Hy)|]. right.
      rewrite Forall_forall in S2. specialize (S2 y Hy). destruct Hs as [Hs|[_ Hs]]; lia. }
    rewrite Hpr, (pr_and_nonand h Hh), <- app_assoc.
    assert (Ffol : forall r', follow (T_AND ++ r')) by (intro; constructor).
    destruct (term_ok h p (chain_text T_AND pr_term l ++ r) Oh (follow_chain T_AND pr_term follow l r Hf Ffol) Hk) as [q Hq].
    unfold p_and_with. rewrite Hq. cbn [rest].
    assert (Hno : forall q0, keyword KW_AND (mkInp q0 r) = None) by (intro q0; apply kw_and_no; assumption).
    destruct (fold_chain (p_term_with inner) KW_AND T_AND FAnd pr_term
                (fun p0 r0 => kw_and_yes p0 r0) okterm follow
                (fun t r0 Ht Hr0 => let '(ex_intro _ q1 H1) := term_ok t 32 r0 Ht Hr0 eq_refl in
                                    ex_intro _ q1 (eq_trans (term_ws inner _ _ (ws_blank 100 (pr_term t ++ r0))) H1))
                l (length (chain_text T_AND pr_term l ++ r)) h q r Ol Hf Ffol (Hno _) Hno) as [q2 H2].
    { rewrite app_length. pose proof (chain_len T_AND pr_term l ltac:(cbn; lia)). lia. }
    rewrite H2. exists q2. rewrite <- E. reflexivity.
  Qed.

  Lemma or_ok e p r : printable e -> (size e <= S fuel)%nat -> follow_or r -> is_kw_char p = false ->
    exists q, p_or_with inner (mkInp p (pr_or_i e ++ r)) = Some (e, mkInp q r).
  Proof.
    intros Hp Hs Hfo Hk. pose proof (follow_or_follow r Hfo) as Hf.
    pose proof (or_spine_spec e) as S. destruct (or_spine e) as [h l].
    destruct S as [E [Hh [Hpr [Hpp [Hsz Hnil]]]]]. destruct (Hpp Hp) as [Ph Pl].
    assert (Oh : okand h).
    { split; [exact Ph|]. destruct l as [|t l'].
      - right. split; [exact Hh|]. rewrite (Hnil eq_refl). exact Hs.
      - left. destruct (Hsz ltac:(discriminate)) as [S1 _]. lia. }
    assert (Ol : Forall okand l).
    { destruct l as [|t l']; [constructor|]. destruct (Hsz ltac:(discriminate)) as [_ S2].
      apply Forall_forall. intros y Hy. split; [rewrite Forall_forall in Pl; exact (Pl y Hy)|]. left.
      rewrite Forall_forall in S2. specialize (S2 y Hy). lia. }
    rewrite Hpr, (pr_or_nonor h Hh), <- app_assoc.
    assert (Ffol : forall r', follow (T_OR ++ r')) by (intro; constructor).
    assert (NotAnd : forall ts r', chain_text T_OR pr_and_i ts ++ r <> T_AND ++ r').
    { intros ts r'. destruct ts as [|t ts]; cbn [chain_text List.app].
      - destruct Hfo as [E0|[r0 E0]]; subst; discriminate.
      - discriminate. }
    set (fol := fun r0 : str => follow r0 /\ forall r', r0 <> T_AND ++ r').
    assert (Fr : fol r).
    { split; [exact Hf|]. intros r' E0. destruct Hfo as [E1|[r0 E1]]; subst; discriminate. }
    assert (Fsep : forall r', fol (T_OR ++ r')) by (intro r'; split; [constructor|intros r2 E0; discriminate]).
    destruct (follow_chain T_OR pr_and_i fol l r Fr Fsep) as [F1 F2].
    destruct (and_ok h p (chain_text T_OR pr_and_i l ++ r) Oh F1 F2 Hk) as [q Hq].
    unfold p_or_with. rewrite Hq. cbn [rest].
    assert (Hno : forall q0, keyword KW_OR (mkInp q0 r) = None).
    { intro q0. apply kw_or_no; [exact Hf|]. intros r' E0. destruct Hfo as [E1|[r0 E1]]; subst; discriminate. }
    destruct (fold_chain (p_and_with inner) KW_OR T_OR FOr pr_and_i
                (fun p0 r0 => kw_or_yes p0 r0) okand fol
                (fun t r0 Ht Hr0 => let '(ex_intro _ q1 H1) := and_ok t 32 r0 Ht (proj1 Hr0) (proj2 Hr0) eq_refl in
                                    ex_intro _ q1 (eq_trans (and_ws inner _ _ (ws_blank 114 (pr_and_i t ++ r0))) H1))
                l (length (chain_text T_OR pr_and_i l ++ r)) h q r Ol Fr Fsep (Hno _) Hno) as [q2 H2].
    { rewrite app_length. pose proof (chain_len T_OR pr_and_i l ltac:(cbn; lia)). lia. }
    rewrite H2. exists q2. rewrite <- E. reflexivity.
  Qed.
End Main.

(* ---------- all nesting depths ---------- *)
Lemma size_pos e : (1 <= size e)%nat.
Proof. destruct e; cbn [size]; lia. Qed.

Theorem p_filter_prints : forall fuel e, printable e -> (size e <= S fuel)%nat ->
  forall p r, is_kw_char p = false -> follow_or r ->
  exists q, p_filter (S fuel) (mkInp p (pr_or_i e ++ r)) = Some (e, mkInp q r).
Proof.
  induction fuel as [|f IH]; intros e Hp Hs p r Hk Hr; cbn [p_filter].
  - apply (or_ok 0); try assumption. intros e' _ Hs'. pose proof (size_pos e'). lia.
  - apply (or_ok (S f)); try assumption. intros e' Hp' Hs' r' Hr'. apply IH; try assumption. reflexivity.
Qed.

Lemma path_text_len p : path_ok p -> (1 <= length (path_text p))%nat.
Proof.
  intros [Hne Hall]. destruct p as [|n ns]; [contradiction|]. inversion Hall as [|? ? [Hn _] _]; subst.
  cbn [path_text]. rewrite app_length. destruct n; [contradiction|]. cbn [length]. lia.
Qed.

Lemma size_le_text e : printable e ->
  (size e <= length (pr_term e))%nat /\ (size e <= length (pr_and_i e))%nat /\ (size e <= length (pr_or_i e))%nat.
Proof.
  induction e as [p|p|op p v|a IHa b IHb|a IHa b IHb]; cbn [printable]; intro H.
  - pose proof (path_text_len p H). cbn [size pr_term pr_and_i pr_or_i]. repeat split; lia.
  - cbn [size pr_term pr_and_i pr_or_i length]. repeat split; lia.
  - destruct H as [H _]. pose proof (path_text_len p H). cbn [size pr_term pr_and_i pr_or_i]. unfold pr_cmp. rewrite app_length. repeat split; lia.
  - destruct H as [Ha Hb]. destruct (IHa Ha) as [A1 [A2 A3]]. destruct (IHb Hb) as [B1 [B2 B3]].
    cbn [size pr_term pr_and_i pr_or_i length]. rewrite !app_length. cbn [length T_AND]. repeat split; lia.
  - destruct H as [Ha Hb]. destruct (IHa Ha) as [A1 [A2 A3]]. destruct (IHb Hb) as [B1 [B2 B3]].
    cbn [size pr_term pr_and_i pr_or_i length]. rewrite !app_length. cbn [length T_OR]. repeat split; lia.
Qed.

(* the parser inverts the printer: `and` binds tighter than `or`, both fold to the left over any number of
   operands, parentheses override, `not` applies to a path - for every filter over presence atoms *)
Theorem fparse_print e : printable e -> fparse (pr_or_i e) = Some e.
Proof.
  intro Hp. unfold fparse.
  destruct (p_filter_prints (length (pr_or_i e)) e Hp) with (p := 0) (r := @nil N) as [q Hq].
  - destruct (size_le_text e Hp) as [_ [_ H]]. lia.
  - reflexivity.
  - left. reflexivity.
  - rewrite app_nil_r in Hq. rewrite Hq. reflexivity.
Qed.

(* readable corollaries *)
Definition has (n : str) := FHas [n].
Lemma printable_has n : simple_name n -> printable (has n).
Proof. intro H. cbn [has printable]. split; [discriminate|constructor; [exact H|constructor]]. Qed.
Corollary chain_and_left ns n0 : Forall simple_name (n0 :: ns) ->
  fparse (pr_or_i (fold_left FAnd (map has ns) (has n0))) = Some (fold_left FAnd (map has ns) (has n0)).
Proof.
  intro H. apply fparse_print. inversion H as [|? ? H0 Hns]; subst. clear H.
  assert (G : forall acc, printable acc -> printable (fold_left FAnd (map has ns) acc)).
  { induction Hns as [|n ns Hn Hns IH]; intros acc Ha; cbn [map fold_left]; [exact Ha|]. apply IH. split; [exact Ha|apply printable_has; exact Hn]. }
  apply G. apply printable_has. exact H0.
Qed.
