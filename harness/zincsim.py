"""ZINC codec checks shared by C01, C03, C04, C07, C08, C09."""
import math

import codec
import jsonsim
from codec import canon, fbits
from common import Sym


def H():
    return codec.H()


def canon_z(v):
    """canonical form of a value after a ZINC round trip: everything exact except coordinates (six decimals)"""
    h = H()
    if isinstance(v, bool) or v is None:
        return canon(v)
    if isinstance(v, (int, float)):
        return ('num', fbits(v), None)
    if isinstance(v, h.Quantity):
        return ('num', fbits(v.value), v.unit if v.unit else None)
    if isinstance(v, h.Coordinate):
        return ('coord', fbits(float('%f' % v.latitude)), fbits(float('%f' % v.longitude)))
    if isinstance(v, list):
        return ('list',) + tuple(canon_z(x) for x in v)
    if isinstance(v, h.Grid):
        cols = list(v.column.keys())
        return ('grid', str(v.version), tuple((k, canon_z(x)) for k, x in v.metadata.items()),
                tuple((c, tuple((k, canon_z(x)) for k, x in m.items())) for c, m in v.column.items()),
                tuple(tuple((c, canon_z(row.get(c))) for c in cols) for row in v))
    if isinstance(v, dict) or (hasattr(v, 'items') and not isinstance(v, str)):
        return ('dict',) + tuple((k, canon_z(x)) for k, x in v.items())
    return canon(v)


def expected_z(g):
    return jsonsim.dt_to_spec(canon_z(g))


def model_zdump(ctx, grids):
    return ctx.model.ask_parallel([[Sym('zdump'), codec.enc_grid(g)] for g in grids])
