(* Grids nested in cells: the grid rule with text left over, and the <<...>> alternative of the scalar rule *)
From Coq Require Import String.
From Coq Require Import List NArith Bool Lia Arith Setoid.
From HS Require Import Base.Prelude Model.Value Model.Escape Model.Version Model.Json Model.ZincParse Model.ZincDump.
From HS Require Import Proofs.PreludeP Proofs.VersionP Proofs.EscapeP Proofs.JsonP Proofs.ZincParseP Proofs.ZincDumpP Proofs.ZincNumP Proofs.ZincListP Proofs.ZincGridP Proofs.ZincDictP Proofs.ZincMetaP.
Import ListNotations.
Open Scope N_scope.

(* rows followed by something that is not a row *)
Lemma rows_many_tail g r : hs_row (p_scalar (S g) true) r = None ->
  forall rows rts, Forall2 (row_ok g) rows rts -> forall fuel, (length rts < fuel)%nat ->
  pmany_fuel fuel (hs_row (p_scalar (S g) true)) (rows_text rts ++ r) = (Ok rows, r).
Proof.
  intro Hr. induction 1 as [|cells ts rows rts Hrow Hrest IH]; intros fuel Hf.
  - destruct fuel as [|f]; [cbn in Hf; lia|]. cbn [rows_text map concat List.app pmany_fuel]. rewrite Hr. reflexivity.
  - destruct fuel as [|f]; [cbn in Hf; lia|]. cbn [rows_text map concat]. fold (rows_text rts).
    destruct Hrow as [Hne Hall]. destruct Hall as [|v t vs ts' Hv Hvs]; [contradiction|].
    rewrite <- !app_assoc. cbn [List.app pmany_fuel]. rewrite (row_reads g v t vs ts' (rows_text rts ++ r) Hv Hvs).
    assert (L : Nat.ltb (length (rows_text rts ++ r)) (length (join [44] (t :: ts') ++ 10 :: rows_text rts ++ r)) = true).
    { apply Nat.ltb_lt. rewrite (app_length (join [44] (t :: ts'))). cbn [length]. lia. }
    rewrite L, (IH f) by (cbn in Hf; lia). reflexivity.
Qed.

(* ">>" does not start a row *)
Lemma row_none_close g rest : hs_row (p_scalar (S g) true) (62 :: 62 :: rest) = None.
Proof.
  unfold hs_row, pbefore, pmap, pand, pdelimited, pmap, pand.
  assert (C : hs_cell (p_scalar (S g) true) (62 :: 62 :: rest) = Some (Ok VNull, 62 :: 62 :: rest)).
  { unfold hs_cell, por. cbn [por_pick]. rewrite (scalar_none_delim g true 62 (62 :: rest)) by (cbn; tauto). reflexivity. }
  rewrite C. unfold pmany.
  assert (M : pmany_fuel (S (length (62 :: 62 :: rest))) (pthen value_sep (hs_cell (p_scalar (S g) true))) (62 :: 62 :: rest) = (Ok [], 62 :: 62 :: rest)).
  { cbn [pmany_fuel]. assert (E : pthen value_sep (hs_cell (p_scalar (S g) true)) (62 :: 62 :: rest) = None) by reflexivity. rewrite E. reflexivity. }
  rewrite M. assert (E2 : pthen spaces nl (62 :: 62 :: rest) = None) by reflexivity. rewrite E2. reflexivity.
Qed.

Theorem grid_meta_reads_tail g mps cols rows rts r :
  hs_row (p_scalar (S g) true) r = None ->
  Forall (mitem_ok g) mps -> NoDup (mkeys mps) -> ~ In VERK (mkeys mps) ->
  cols_ok g cols ->
  Forall2 (grid_row_ok g (map fst cols)) rows rts ->
  p_grid (S (S g)) true (meta_text mps cols rts ++ r) = Some (Ok (meta_grid mps cols rows), r).
Proof.
  intros Hr Hm Hmn Hmv [Hne [Hco [Hcn Hcm]]] Hrows. rewrite p_grid_unfold. unfold meta_text, meta_grid.
  set (sc := p_scalar (S g) true).
  destruct cols as [|c cs]; [contradiction|].
  assert (CV : forall l, Forall (fun c0 : str * list (str * hval * str) => NoDup (mkeys (snd c0))) l -> map cval l = map (fun c0 => (fst c0, map pkv (snd c0))) l).
  { intros l Hl. induction Hl as [|c0 l Hc0 _ IH]; [reflexivity|]. cbn [map]. rewrite IH. unfold cval. rewrite (dict_of_nodup (map pkv (snd c0)) Hc0). reflexivity. }
  rewrite <- ?app_assoc. cbn [List.app]. rewrite <- ?app_assoc.
  assert (HC : g_cols sc (join [44] (map ctext (c :: cs)) ++ 10 :: rows_text rts ++ r) = Some (Ok (dict_of (map cval (c :: cs))), rows_text rts ++ r)).
  { cbn [map]. inversion Hco as [|? ? Hc Hcs]; subst.
    apply (cols_meta_reads g (cval c) (ctext c) (map cval cs) (map ctext cs) (rows_text rts ++ r)); [exists c; split; [exact Hc|split; reflexivity]|].
    clear -Hcs. induction Hcs as [|x l Hx _ IH]; cbn [map]; constructor; [exists x; split; [exact Hx|split; reflexivity]|exact IH]. }
  assert (HR : pmany (hs_row sc) (rows_text rts ++ r) = Some (Ok rows, r)).
  { unfold pmany. rewrite (rows_many_tail g r Hr rows rts); [reflexivity| |rewrite app_length; pose proof (rows_len rts); lia].
    clear -Hrows Hne. induction Hrows as [|cells ts rows rts [Hl Hc] _ IH]; constructor; [|exact IH].
    split; [|exact Hc]. destruct cells; [cbn in Hl; discriminate|discriminate]. }
  unfold pact. unfold pand at 1. rewrite (header_meta_reads g mps _ Hm). unfold pand. rewrite HC, HR.
  destruct ver30_facts as [pv [PV [P3 VS]]].
  unfold g_action. rewrite PV, P3. cbn [bind andb]. rewrite VS.
  rewrite (dict_of_nodup (map pkv mps) Hmn).
  change (s_ "ver") with VERK. rewrite (remove_key_absent VERK (map pkv mps) Hmv).
  rewrite (CV (c :: cs) Hcm).
  assert (NK : map fst (map (fun c0 : str * list (str * hval * str) => (fst c0, map pkv (snd c0))) (c :: cs)) = map fst (c :: cs)) by (rewrite map_map; reflexivity).
  rewrite (dict_of_nodup (map (fun c0 : str * list (str * hval * str) => (fst c0, map pkv (snd c0))) (c :: cs))) by (rewrite NK; exact Hcn).
  rewrite NK.
  assert (RW : map (fun cells => dict_of (combine (map fst (c :: cs)) cells)) rows = map (fun cells => combine (map fst (c :: cs)) cells) rows).
  { clear -Hrows Hcn. induction Hrows as [|cells ts rows rts [Hl _] _ IH]; [reflexivity|]. cbn [map]. cbn [map] in IH. rewrite IH. f_equal.
    apply dict_of_nodup. rewrite map_fst_combine by (symmetry; exact Hl). exact Hcn. }
  rewrite RW. reflexivity.
Qed.

Lemma meta_text_hd mps cols rts r : exists t, (meta_text mps cols rts ++ r)%list = 118 :: t.
Proof. unfold meta_text, htext. change (s_ "ver:") with [118; 101; 114; 58]. cbn [List.app]. eexists. reflexivity. Qed.

Theorem scalar_inner_grid g mps cols rows rts rest :
  Forall (mitem_ok g) mps -> NoDup (mkeys mps) -> ~ In VERK (mkeys mps) -> cols_ok g cols ->
  Forall2 (grid_row_ok g (map fst cols)) rows rts ->
  p_scalar (S (S (S g))) true (60 :: 60 :: meta_text mps cols rts ++ 62 :: 62 :: rest) = Some (Ok (meta_grid mps cols rows), rest).
Proof.
  intros Hm Hmn Hmv Hc Hrows.
  pose proof (grid_meta_reads_tail g mps cols rows rts (62 :: 62 :: rest) (row_none_close g rest) Hm Hmn Hmv Hc Hrows) as G.
  assert (IG : hs_inner_grid (p_grid (S (S g)) true) (60 :: 60 :: meta_text mps cols rts ++ 62 :: 62 :: rest) = Some (Ok (meta_grid mps cols rows), rest)).
  { unfold hs_inner_grid.
    assert (L : plit [60; 60] (60 :: 60 :: meta_text mps cols rts ++ 62 :: 62 :: rest) = Some (Ok tt, meta_text mps cols rts ++ 62 :: 62 :: rest)) by reflexivity.
    destruct (meta_text_hd mps cols rts (62 :: 62 :: rest)) as [t Et].
    assert (S1 : spaces (meta_text mps cols rts ++ 62 :: 62 :: rest) = Some (Ok tt, meta_text mps cols rts ++ 62 :: 62 :: rest)) by (rewrite Et; reflexivity).
    assert (T : pthen spaces (plit [62; 62]) (62 :: 62 :: rest) = Some (Ok tt, rest)) by reflexivity.
    assert (B : pbefore (p_grid (S (S g)) true) (pthen spaces (plit [62; 62])) (meta_text mps cols rts ++ 62 :: 62 :: rest) = Some (Ok (meta_grid mps cols rows), rest)).
    { unfold pbefore, pmap, pand. rewrite G, T. reflexivity. }
    unfold pthen at 1 2. unfold pmap, pand. rewrite L, S1, B. reflexivity. }
  destruct (date_letters 60 (60 :: meta_text mps cols rts ++ 62 :: 62 :: rest) eq_refl) as [D1 [D2 D3]].
  rewrite p_scalar_3_0. set (T := (meta_text mps cols rts ++ 62 :: 62 :: rest)%list) in *. clearbody T.
  unfold por.
  do 5 rewrite por_pick_skip by reflexivity.
  rewrite por_pick_skip by exact D1. rewrite por_pick_skip by exact D2. rewrite por_pick_skip by exact D3.
  do 9 rewrite por_pick_skip by reflexivity.
  apply por_pick_take; [exact IG|apply Forall_nil].
Qed.

(* ---------- values with nested grids: a semantic cell / item notion and the general round-trip theorem ---------- *)
Definition vsem (n : nat) (v : hval) (t : str) : Prop :=
  (forall f, zdump (S (n + f)) false v = Ok t) /\ (forall k, readsd (n + k) v t).
Definition msem (n : nat) (p : str * hval * str) : Prop := let '(k, v, t) := p in colname k /\ (v = VMarker \/ vsem n v t).
Definition mcsem (n : nat) (c : str * list (str * hval * str)) : Prop := colname (fst c) /\ Forall (msem n) (snd c) /\ NoDup (mkeys (snd c)).

Lemma msem_ok n k p : msem n p -> mitem_ok (n + k) p.
Proof. destruct p as [[k0 v] t]. intros [Hk [E|Hz]]; (split; [exact Hk|]); [left; exact E|right; exact (proj2 Hz k)]. Qed.
Lemma msem_dump n f p : msem n p -> mitem_dump (S (n + f)) p.
Proof. destruct p as [[k0 v] t]. intros [Hk [E|Hz]]; [left; exact E|right; exact (proj1 Hz f)]. Qed.

Definition grid_sem_ok (n : nat) (mps : list (str * hval * str)) (cols : list (str * list (str * hval * str)))
                       (rows : list (list hval)) (rts : list (list str)) : Prop :=
  Forall (msem n) mps /\ NoDup (mkeys mps) /\ ~ In VERK (mkeys mps) /\
  cols <> [] /\ Forall (mcsem n) cols /\ NoDup (map fst cols) /\
  Forall2 (grid_gcells_ok n (map fst cols)) rows rts.

Lemma sem_cols_ok n k cols : cols <> [] -> Forall (mcsem n) cols -> NoDup (map fst cols) -> cols_ok (n + k) cols.
Proof.
  intros Hne Hc Hcn. split; [exact Hne|]. split; [|split; [exact Hcn|]].
  - eapply Forall_impl; [|exact Hc]. intros c [A [B _]]. split; [exact A|]. eapply Forall_impl; [|exact B]. intros p Hp. apply msem_ok. exact Hp.
  - eapply Forall_impl; [|exact Hc]. intros c [_ [_ C]]. exact C.
Qed.
Lemma sem_rows_reads n k names rows rts : Forall2 (grid_gcells_ok n names) rows rts -> Forall2 (grid_row_ok (n + k) names) rows rts.
Proof.
  intro Hrows. induction Hrows as [|cells ts rows rts [Hl Hcs] _ IH]; constructor; [|exact IH]. split; [exact Hl|].
  clear -Hcs. induction Hcs as [|v t vs ts Hvt _ IH]; constructor; [exact (proj2 Hvt k)|exact IH].
Qed.
Lemma sem_rows_dump n f names rows rts : Forall2 (grid_gcells_ok n names) rows rts -> Forall2 (dump_row_ok (S (n + f)) names) rows rts.
Proof.
  intro Hrows. induction Hrows as [|cells ts rows rts [Hl Hcs] _ IH]; constructor; [|exact IH]. split; [exact Hl|].
  clear -Hcs. induction Hcs as [|v t vs ts Hvt _ IH]; constructor; [exact (proj1 Hvt f)|exact IH].
Qed.

Theorem grid_sem_roundtrip n mps cols rows rts : grid_sem_ok n mps cols rows rts ->
  (forall f, zdump_grid (S (S (n + f))) V30 (map pkv mps) (map (fun c => (fst c, map pkv (snd c))) cols)
                        (map (fun cells => combine (map fst cols) cells) rows) = Ok (meta_text mps cols rts)) /\
  (forall k r, hs_row (p_scalar (S (n + k)) true) r = None ->
               p_grid (S (S (n + k))) true (meta_text mps cols rts ++ r) = Some (Ok (meta_grid mps cols rows), r)) /\
  ((n <= length (meta_text mps cols rts))%nat -> zparse_grid (meta_text mps cols rts) = Ok (meta_grid mps cols rows)).
Proof.
  intros [Hm [Hmn [Hmv [Hne [Hc [Hcn Hrows]]]]]].
  assert (R : forall k r, hs_row (p_scalar (S (n + k)) true) r = None ->
               p_grid (S (S (n + k))) true (meta_text mps cols rts ++ r) = Some (Ok (meta_grid mps cols rows), r)).
  { intros k r Hr. apply grid_meta_reads_tail; [exact Hr| |exact Hmn|exact Hmv| |].
    - eapply Forall_impl; [|exact Hm]. intros p Hp. apply msem_ok. exact Hp.
    - apply sem_cols_ok; assumption.
    - apply sem_rows_reads. exact Hrows. }
  split; [|split; [exact R|]].
  - intro f. apply grid_meta_dumps; [| exact Hne | | exact Hcn |].
    + eapply Forall_impl; [|exact Hm]. intros p Hp. apply msem_dump. exact Hp.
    + eapply Forall_impl; [|exact Hc]. intros c [_ [B _]]. unfold col_dump_ok. eapply Forall_impl; [|exact B]. intros p Hp. apply msem_dump. exact Hp.
    + apply sem_rows_dump. exact Hrows.
  - intro Hn. unfold zparse_grid.
    assert (SV : sniff_version (meta_text mps cols rts) = Some V30) by reflexivity. rewrite SV.
    assert (P3 : pre3_of V30 = Ok false) by (vm_compute; reflexivity). rewrite P3. cbn [negb].
    pose proof (R (length (meta_text mps cols rts) - n)%nat [] (row_none_nil _)) as R0. rewrite app_nil_r in R0.
    replace (n + (length (meta_text mps cols rts) - n))%nat with (length (meta_text mps cols rts)) in R0 by lia.
    rewrite R0. reflexivity.
Qed.

(* ---------- the value relation: leaves, lists, dicts and nested grids, to any depth ---------- *)
Definition mv (P : hval -> str -> Prop) (p : str * hval * str) : Prop := let '(k, v, t) := p in colname k /\ (v = VMarker \/ P v t).
Definition mc (P : hval -> str -> Prop) (c : str * list (str * hval * str)) : Prop :=
  colname (fst c) /\ Forall (mv P) (snd c) /\ NoDup (mkeys (snd c)).
Definition grid_of (P : hval -> str -> Prop) (v : hval) (t : str) : Prop :=
  exists mps cols rows rts,
    v = meta_grid mps cols rows /\ t = (60 :: 60 :: meta_text mps cols rts ++ [62; 62])%list /\
    Forall (mv P) mps /\ NoDup (mkeys mps) /\ ~ In VERK (mkeys mps) /\
    cols <> [] /\ Forall (mc P) cols /\ NoDup (map fst cols) /\
    Forall2 (fun cells ts => length cells = length (map fst cols) /\ Forall2 P cells ts) rows rts.

Fixpoint zv (n : nat) (v : hval) (t : str) : Prop :=
  match n with
  | O => leafd v t
  | S n' => leafd v t
            \/ (exists vs ts, v = VList vs /\ t = (91 :: join [44] ts ++ [93])%list /\ Forall2 (zv n') vs ts)
            \/ (exists ps, v = VDict (map pkv ps) /\ t = (123 :: body_text ps ++ [125])%list /\
                           NoDup (map fst (map pkv ps)) /\ Forall (pair_val (zv n')) ps)
            \/ grid_of (zv n') v t
  end.

Lemma leafd_vsem n v t : leafd v t -> vsem n v t.
Proof. intros [D R]. split; [intro f; apply D|intro k; apply R]. Qed.

Lemma two_S n : (2 * S n = S (S (2 * n)))%nat. Proof. lia. Qed.

Theorem zv_sem : forall n v t, zv n v t -> vsem (2 * n) v t.
Proof.
  induction n as [|n IH]; intros v t H; [apply leafd_vsem; exact H|].
  destruct H as [H|[[vs [ts [Ev [Et H]]]]|[[ps [Ev [Et [Hnd H]]]]|[mps [cols [rows [rts [Ev [Et [Hm [Hmn [Hmv [Hne [Hc [Hcn Hrows]]]]]]]]]]]]]]];
    [apply leafd_vsem; exact H| | |]; subst v t; rewrite two_S; cbn [Nat.add].
  - (* list *) split.
    + intro f. cbn [Nat.add].
      assert (E : res_map (zdump (S (S (2 * n + f))) false) vs = Ok ts).
      { apply res_map_forall2. clear -H IH. induction H as [|v t vs ts Hvt _ IH2]; constructor; [|exact IH2].
        pose proof (proj1 (IH v t Hvt) (S f)) as D. rewrite Nat.add_succ_r in D. exact D. }
      remember (S (S (2 * n + f))) as f1. cbn [zdump]. subst f1. rewrite E. reflexivity.
    + intros k rest Hd. cbn [Nat.add List.app]. rewrite <- app_assoc. cbn [List.app].
      apply (scalar_list (S (2 * n + k)) vs ts rest); [|exact Hd].
      clear -H IH. induction H as [|v t vs ts Hvt _ IH2]; constructor; [|exact IH2].
      apply readsd_reads. pose proof (proj2 (IH v t Hvt) (S k)) as R. rewrite Nat.add_succ_r in R. exact R.
  - (* dict *) split.
    + intro f. cbn [Nat.add].
      assert (E : res_map (fun kv : str * hval => do t <- zdump (S (S (2 * n + f))) false (snd kv); Ok (fst kv ++ 58 :: t)) (map pkv ps) = Ok (map ptext ps)).
      { apply res_map_forall2. clear -H IH. induction H as [|[[k0 v0] t0] ps [Hk Hv] _ IH2]; cbn [map]; constructor; [|exact IH2].
        cbn [pkv ptext snd fst]. cbn [fst snd] in Hv. pose proof (proj1 (IH v0 t0 Hv) (S f)) as D. rewrite Nat.add_succ_r in D. rewrite D. reflexivity. }
      remember (S (S (2 * n + f))) as f1. cbn [zdump]. subst f1. rewrite (dict_of_nodup (map pkv ps) Hnd).
      match goal with |- context [res_map ?F (map pkv ps)] => replace (res_map F (map pkv ps)) with (Ok (map ptext ps) : res (list str)) by (symmetry; exact E) end.
      cbn [bind]. rewrite join_ptext. reflexivity.
    + intros k rest Hd. cbn [Nat.add List.app]. rewrite <- app_assoc. cbn [List.app].
      apply (scalar_dict (S (2 * n + k)) ps rest); [|exact Hnd|exact Hd].
      clear -H IH. induction H as [|[[k0 v0] t0] ps [Hk Hv] _ IH2]; constructor; [|exact IH2].
      split; [exact Hk|]. cbn [fst snd] in Hv. pose proof (proj2 (IH v0 t0 Hv) (S k)) as R. rewrite Nat.add_succ_r in R. exact R.
  - (* nested grid *)
    assert (Ms : forall l, Forall (mv (zv n)) l -> Forall (msem (2 * n)) l).
    { intros l Hl. eapply Forall_impl; [|exact Hl]. intros [[k0 v0] t0] [Hk [E|Hz]]; (split; [exact Hk|]); [left; exact E|right; apply IH; exact Hz]. }
    assert (GS : grid_sem_ok (2 * n) mps cols rows rts).
    { split; [apply Ms; exact Hm|]. split; [exact Hmn|]. split; [exact Hmv|]. split; [exact Hne|]. split; [|split; [exact Hcn|]].
      - eapply Forall_impl; [|exact Hc]. intros c [A [B C]]. split; [exact A|]. split; [apply Ms; exact B|exact C].
      - clear -Hrows IH. induction Hrows as [|cells ts rows rts [Hl Hcs] _ IH2]; constructor; [|exact IH2]. split; [exact Hl|].
        clear -Hcs IH. induction Hcs as [|v t vs ts Hvt _ IH3]; constructor; [|exact IH3].
        destruct (IH v t Hvt) as [D R]. split; [exact D|]. intro k. apply readsd_reads. apply R. }
    destruct (grid_sem_roundtrip (2 * n) mps cols rows rts GS) as [D [R _]].
    split.
    + intro f. cbn [Nat.add]. remember (S (S (2 * n + f))) as f1. unfold meta_grid. cbn [zdump]. subst f1. rewrite (D f). reflexivity.
    + intros k rest Hd. cbn [Nat.add List.app]. rewrite <- app_assoc. cbn [List.app].
      destruct GS as [G1 [G2 [G3 [G4 [G5 [G6 G7]]]]]].
      apply (scalar_inner_grid (2 * n + k) mps cols rows rts rest); [|exact G2|exact G3| |].
      * eapply Forall_impl; [|exact G1]. intros p Hp. apply msem_ok. exact Hp.
      * apply sem_cols_ok; assumption.
      * apply sem_rows_reads. exact G7.
Qed.

(* ---------- the general whole-grid theorem ---------- *)
(* a cell: any zv value, or a leaf that is only read back before a non-blank delimiter (a reference without display name) *)
Definition cellv (n : nat) (v : hval) (t : str) : Prop := zv n v t \/ leafc v t.
Lemma cellv_gcell n v t : cellv n v t -> gcell (2 * n) v t.
Proof.
  intros [H|[D R]].
  - destruct (zv_sem n v t H) as [D R]. split; [exact D|]. intro k. apply readsd_reads. apply R.
  - split; [intro f; apply D|intro k; apply R].
Qed.

Definition full_grid_ok (n : nat) (mps : list (str * hval * str)) (cols : list (str * list (str * hval * str)))
                        (rows : list (list hval)) (rts : list (list str)) : Prop :=
  Forall (mv (zv n)) mps /\ NoDup (mkeys mps) /\ ~ In VERK (mkeys mps) /\
  cols <> [] /\ Forall (mc (zv n)) cols /\ NoDup (map fst cols) /\
  Forall2 (fun cells ts => length cells = length (map fst cols) /\ Forall2 (cellv n) cells ts) rows rts.

Theorem full_grid_roundtrip n mps cols rows rts : full_grid_ok n mps cols rows rts ->
  (forall f, zdump_grid (S (S (2 * n + f))) V30 (map pkv mps) (map (fun c => (fst c, map pkv (snd c))) cols)
                        (map (fun cells => combine (map fst cols) cells) rows) = Ok (meta_text mps cols rts)) /\
  (forall k, p_grid (S (S (2 * n + k))) true (meta_text mps cols rts) = Some (Ok (meta_grid mps cols rows), [])) /\
  ((2 * n <= length (meta_text mps cols rts))%nat -> zparse_grid (meta_text mps cols rts) = Ok (meta_grid mps cols rows)).
Proof.
  intros [Hm [Hmn [Hmv [Hne [Hc [Hcn Hrows]]]]]].
  assert (Ms : forall l, Forall (mv (zv n)) l -> Forall (msem (2 * n)) l).
  { intros l Hl. eapply Forall_impl; [|exact Hl]. intros [[k0 v0] t0] [Hk [E|Hz]]; (split; [exact Hk|]); [left; exact E|right; apply zv_sem; exact Hz]. }
  assert (GS : grid_sem_ok (2 * n) mps cols rows rts).
  { split; [apply Ms; exact Hm|]. split; [exact Hmn|]. split; [exact Hmv|]. split; [exact Hne|]. split; [|split; [exact Hcn|]].
    - eapply Forall_impl; [|exact Hc]. intros c [A [B C]]. split; [exact A|]. split; [apply Ms; exact B|exact C].
    - clear -Hrows. induction Hrows as [|cells ts rows rts [Hl Hcs] _ IH2]; constructor; [|exact IH2]. split; [exact Hl|].
      clear -Hcs. induction Hcs as [|v t vs ts Hvt _ IH3]; constructor; [apply cellv_gcell; exact Hvt|exact IH3]. }
  destruct (grid_sem_roundtrip (2 * n) mps cols rows rts GS) as [D [R T]].
  split; [exact D|]. split; [|exact T].
  intro k. pose proof (R k [] (row_none_nil _)) as R0. rewrite app_nil_r in R0. exact R0.
Qed.
