(* Model of hszinc/version.py (class Version, nearest()).
   Executable definitions only; proofs are in Proofs/VersionP.v. *)
From HS Require Import Base.Prelude Gen.VersionData.
Open Scope N_scope.

Record ver := mkVer { nums : list N ; extra : option str }.

(* ---- VERSION_RE: a digit, then digits and dots (group 1), then repeated
   [non-digit followed by the rest of the line] (group 2); re.match, no flags ---- *)

(* \d of a str pattern: Unicode decimal digits; value as int() gives it *)
Fixpoint digit_val_in (zs : list N) (c : N) : option N :=
  match zs with
  | [] => None
  | z :: zs' => if N.leb z c && N.ltb c (z + 10) then Some (c - z) else digit_val_in zs' c
  end.
Definition digit_val (c : N) : option N := digit_val_in nd_zeros c.
Definition is_digit (c : N) : bool := match digit_val c with Some _ => true | None => false end.
Definition DOT : N := 46.
Definition NL : N := 10.

(* group 1: greedy run of digits and dots after a leading digit *)
Fixpoint span_numdots (t : str) : str * str :=
  match t with
  | [] => ([], [])
  | c :: t' => if is_digit c || N.eqb c DOT
               then let '(a, b) := span_numdots t' in (c :: a, b)
               else ([], t)
  end.

(* group 2 is a repeated group: what is captured is its LAST iteration.  An
   iteration is one non-digit followed by the rest of the line ("." does not
   match a newline), so every later iteration starts at a newline. *)
Fixpoint last_iter (cur : str) (rest : str) : str :=
  (* cur: reversed text of the iteration being read *)
  match rest with
  | [] => rev cur
  | c :: rest' => if N.eqb c NL then last_iter [c] rest' else last_iter (c :: cur) rest'
  end.

Definition extra_of (r : str) : option str :=
  match r with
  | [] => None
  | c :: rest => Some (last_iter [c] rest)
  end.

(* version_nums.split('.') and int(p or 0) *)
Fixpoint split_dot (cur : str) (t : str) : list str :=
  match t with
  | [] => [rev cur]
  | c :: t' => if N.eqb c DOT then rev cur :: split_dot [] t' else split_dot (c :: cur) t'
  end.

Definition int_of_digits (p : str) : N :=
  fold_left (fun acc c => acc * 10 + match digit_val c with Some d => d | None => 0 end) p 0.

Definition parse_ver (t : str) : res ver :=
  match t with
  | [] => Raise ValueError
  | c :: _ =>
      if is_digit c then
        let '(g1, r) := span_numdots t in
        Ok (mkVer (map int_of_digits (split_dot [] g1)) (extra_of r))
      else Raise ValueError
  end.

(* ---- __str__ ---- *)
Definition vstr (v : ver) : str :=
  join [DOT] (map str_of_N (nums v))
  ++ match extra v with Some e => e | None => [] end.

(* ---- _cmp ---- *)
Definition pad (n : nat) (l : list N) : list N := l ++ repeat 0 (n - length l).

Fixpoint cmp_zip (a b : list N) : comparison :=
  match a, b with
  | x :: a', y :: b' => match N.compare x y with Eq => cmp_zip a' b' | c => c end
  | _, _ => Eq
  end.

Definition cmp_extra (a b : option str) : comparison :=
  match a, b with
  | None, None => Eq
  | None, Some _ => Lt
  | Some _, None => Gt
  | Some x, Some y => str_compare x y
  end.

Definition vcmp (a b : ver) : comparison :=
  let n := Nat.max (length (nums a)) (length (nums b)) in
  match cmp_zip (pad n (nums a)) (pad n (nums b)) with
  | Eq => cmp_extra (extra a) (extra b)
  | c => c
  end.

(* the six operators, as thresholds on _cmp exactly as written *)
Definition cmp_int (c : comparison) : Z := match c with Lt => (-1)%Z | Eq => 0%Z | Gt => 1%Z end.
Definition vlt a b := Z.ltb (cmp_int (vcmp a b)) 0.
Definition vle a b := Z.ltb (cmp_int (vcmp a b)) 1.
Definition veq a b := Z.eqb (cmp_int (vcmp a b)) 0.
Definition vne a b := negb (Z.eqb (cmp_int (vcmp a b)) 0).
Definition vge a b := Z.ltb (-1) (cmp_int (vcmp a b)).
Definition vgt a b := Z.ltb 0 (cmp_int (vcmp a b)).

(* ---- __hash__: the object handed to the builtin hash() ---- *)
Fixpoint strip0_rev (l : list N) : list N :=   (* on the reversed list *)
  match l with
  | 0 :: l' => strip0_rev l'
  | _ => l
  end.
Definition strip0 (l : list N) : list N := rev (strip0_rev (rev l)).
Definition hash_key (v : ver) : list N * option str := (strip0 (nums v), extra v).

Definition hash_key_eqb (a b : list N * option str) : bool :=
  list_eqb N.eqb (fst a) (fst b) && opt_str_eqb (snd a) (snd b).

(* ---- nearest ---- *)
(* `ver in OFFICIAL_VERSIONS`: set membership = equal hash and == *)
Definition in_officials (offs : list ver) (v : ver) : bool :=
  existsb (fun o => hash_key_eqb (hash_key o) (hash_key v) && veq o v) offs.

(* versions.sort(reverse=True): insertion sort, descending *)
Fixpoint insert_desc (x : ver) (l : list ver) : list ver :=
  match l with
  | [] => [x]
  | y :: l' => if vlt x y then y :: insert_desc x l' else x :: l
  end.
Definition sort_desc (l : list ver) : list ver := fold_right insert_desc [] l.

Fixpoint nearest_scan (best : option ver) (cands : list ver) (v : ver) : option ver :=
  match cands with
  | [] => best
  | c :: cands' =>
      if veq c v then Some c
      else if (match best with None => true | Some _ => false end) && vlt c v then Some c
      else if vgt c v then nearest_scan (Some c) cands' v
      else nearest_scan best cands' v
  end.

Definition nearest (offs : list ver) (v : ver) : res ver :=
  if in_officials offs v then Ok v
  else match nearest_scan None (sort_desc offs) v with
       | Some r => Ok r
       | None => Raise AssertionError
       end.

(* the official versions of this tree *)
Definition officials : list ver :=
  flat_map (fun t => match parse_ver t with Ok v => [v] | Raise _ => [] end)
           official_version_strs.

(* ---- wire commands ---- *)
Definition sver (v : ver) : sexp :=
  SList [SList (map sN (nums v)); sopt SStr (extra v)].

Definition cmd_ver_parse (t : str) : sexp := sres sver (parse_ver t).

Definition cmd_ver_info (t : str) : sexp :=
  sres (fun v => SList [sver v; SStr (vstr v);
                        SList [SList (map sN (fst (hash_key v))); sopt SStr (snd (hash_key v))];
                        sres sver (nearest officials v)])
       (parse_ver t).

Definition cmd_ver_cmp (a b : str) : sexp :=
  sres (fun x => x)
       (do va <- parse_ver a; do vb <- parse_ver b;
        Ok (SList [scmp (vcmp va vb);
                   sbool (vlt va vb); sbool (vle va vb); sbool (veq va vb);
                   sbool (vne va vb); sbool (vge va vb); sbool (vgt va vb);
                   sbool (hash_key_eqb (hash_key va) (hash_key vb))])).

(* all pairs at once: row i = (cmp(v_i, v_j), hash keys equal?) encoded as cmp*2+hasheq+2 *)
Definition cmd_ver_matrix (ts : list str) : sexp :=
  let vs := map parse_ver ts in
  SList (map (fun ra =>
    match ra with
    | Raise e => sexn e
    | Ok va => SList (map (fun rb =>
        match rb with
        | Raise _ => SInt (-9)
        | Ok vb => SInt (cmp_int (vcmp va vb) * 2 + (if hash_key_eqb (hash_key va) (hash_key vb) then 1 else 0))%Z
        end) vs)
    end) vs).
