(* Lemmas about Model/PyList.v *)
From Coq Require Import Lia.
From HS Require Import Base.Prelude Model.PyList.
Open Scope Z_scope.

Section PyListP.
  Context {A : Type}.
  Implicit Types (l : list A) (x : A).

  Lemma ins_nat_length n x l : length (ins_nat n x l) = S (length l).
  Proof. revert l; induction n as [|n IH]; intros [|y l]; simpl; auto. Qed.

  Lemma in_ins_nat n x l y : In y (ins_nat n x l) <-> y = x \/ In y l.
  Proof.
    revert l; induction n as [|n IH]; intros [|z l]; simpl; try tauto; try (intuition; fail).
    rewrite IH. intuition.
  Qed.

  Lemma ins_nat_end x l : ins_nat (length l) x l = l ++ [x].
  Proof. induction l as [|y l IH]; simpl; auto. now rewrite IH. Qed.

  Lemma ins_pos_len (len : nat) : ins_pos (Z.of_nat len) len = len.
  Proof.
    unfold ins_pos. destruct (Z.of_nat len <? 0) eqn:E; [lia|]. rewrite E.
    destruct (Z.of_nat len <? Z.of_nat len) eqn:E2; [lia|]. lia.
  Qed.

  Lemma py_ins_end x l : py_ins (Z.of_nat (length l)) x l = l ++ [x].
  Proof. unfold py_ins. rewrite ins_pos_len. apply ins_nat_end. Qed.

  Lemma in_py_ins i x l y : In y (py_ins i x l) <-> y = x \/ In y l.
  Proof. unfold py_ins. apply in_ins_nat. Qed.

  Lemma norm_index_lt i len n : norm_index i len = Some n -> (n < len)%nat.
  Proof.
    unfold norm_index. set (j := if i <? 0 then i + Z.of_nat len else i).
    destruct ((j <? 0) || (Z.of_nat len <=? j)) eqn:E; [discriminate|].
    intros H; inversion H; subst. apply orb_false_iff in E as [E1 E2]. lia.
  Qed.

  Lemma norm_index_nat n len : (n < len)%nat -> norm_index (Z.of_nat n) len = Some n.
  Proof.
    intros H. unfold norm_index. cbv zeta.
    destruct (Z.of_nat n <? 0) eqn:E1; [lia|]. rewrite E1. cbn [orb].
    destruct (Z.of_nat len <=? Z.of_nat n) eqn:E2; [lia|]. f_equal; lia.
  Qed.

  Lemma norm_index_last len : (0 < len)%nat -> norm_index (-1) len = Some (len - 1)%nat.
  Proof.
    intros H. unfold norm_index. cbv zeta.
    destruct (-1 <? 0) eqn:E0; [|lia].
    destruct (-1 + Z.of_nat len <? 0) eqn:E1; [lia|]. cbn [orb].
    destruct (Z.of_nat len <=? -1 + Z.of_nat len) eqn:E2; [lia|]. f_equal; lia.
  Qed.

  Lemma norm_index_empty i : norm_index i O = None.
  Proof.
    unfold norm_index. simpl. destruct (i <? 0) eqn:E.
    - replace (i + 0) with i by lia. rewrite E. reflexivity.
    - rewrite E. simpl. destruct (0 <=? i) eqn:E2; auto. lia.
  Qed.

  Lemma del_nat_length n l : (n < length l)%nat -> length (del_nat n l) = (length l - 1)%nat.
  Proof.
    revert l; induction n as [|n IH]; intros [|y l] H; simpl in *; try lia.
    rewrite IH by lia. lia.
  Qed.

  Lemma in_del_nat n l y : In y (del_nat n l) -> In y l.
  Proof.
    revert l; induction n as [|n IH]; intros [|z l]; simpl; auto.
    intros [H|H]; auto.
  Qed.

  Lemma set_nat_length n x l : length (set_nat n x l) = length l.
  Proof. revert l; induction n as [|n IH]; intros [|y l]; simpl; auto. Qed.

  Lemma in_set_nat n x l y : In y (set_nat n x l) -> y = x \/ In y l.
  Proof.
    revert l; induction n as [|n IH]; intros [|z l]; simpl; auto.
    - intros [H|H]; auto.
    - intros [H|H]; auto. apply IH in H. tauto.
  Qed.

  Lemma nth_error_set_nat n x l p :
    (n < length l)%nat ->
    nth_error (set_nat n x l) p = if Nat.eqb p n then Some x else nth_error l p.
  Proof.
    revert l p; induction n as [|n IH]; intros [|y l] p H; simpl in *; try lia.
    - destruct p; reflexivity.
    - destruct p; simpl; auto. apply IH. lia.
  Qed.

  Lemma in_drop_positions ps cur l y : In y (drop_positions ps cur l) -> In y l.
  Proof.
    revert cur; induction l as [|z l IH]; simpl; intros cur; auto.
    destruct (memnat cur ps); simpl; intros H.
    - right. eapply IH; eauto.
    - destruct H; auto. right. eapply IH; eauto.
  Qed.

  Lemma in_flat_nth (ps : list nat) l y :
    In y (flat_map (fun p => match nth_error l p with Some x => [x] | None => [] end) ps) -> In y l.
  Proof.
    induction ps as [|p ps IH]; simpl; [tauto|]. rewrite in_app_iff. intros [H|H]; auto.
    destruct (nth_error l p) eqn:E; simpl in H; [|tauto].
    destruct H as [H|[]]; subst. eapply nth_error_In; eauto.
  Qed.
End PyListP.
