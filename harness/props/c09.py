"""C09 - malformed ZINC raises ZincParseException: never mis-parsed, never a crash.

Theorems: coq/theories/Props/C09.v (Model/ZincParse.v: the parser is total, grid
parsing answers a grid or ZincParseException).
Tie: reader model vs hszinc.parse on mutated documents: accept/reject, exception
class and result value (not messages or positions).
Search: on the implementation - only grids or ZincParseException (a ValueError)
from grid parsing with line/col inside the text; only ValueError-family exceptions
from scalar parsing; structurally broken documents of each class the property
names are rejected."""
import random

import codec
import zincsim

COMPONENTS = ['escape', 'version']

SEEDS = [
    'ver:"3.0"\na\n1\n',
    'ver:"2.0"\na,b\n1,"x"\nT,N\n',
    'ver:"3.0" m:"s" tag other:`u`\na dis:"A" unit:"kW",b\n"p\\n\\u00e9\\$",@r-1 "Dis"\n',
    'ver:"3.0"\na\n[1, "x", [T]]\n{k:1 m v:[2]}\n',
    'ver:"3.0"\na\n<<ver:"3.0"\nb\n1\n>>\n',
    'ver:"3.0"\nts,d,t,c\n2020-06-01T12:00:00+02:00 Paris,2020-06-01,12:30:45.5,C(1.5,-2.25)\n',
    'ver:"3.0"\nn,q,x,b\n-1.5e3,12kg,hex("00ff"),Bin(text/plain)\nINF,NaN,Foo("a\\"b"),NA\n',
    'ver:"2.0"\nn,r,m\n1_000.5,R,M\n,,\n',
    'ver:"3.0"\na\n1\n\nver:"2.0"\nb\n2\n',
    'ver:"2.5"\na\n1\n',
]
ALPHABET = list('"\\`$,:\n\r\t []{}<>()@_-+.eETZNMRF019aBx\x00\x1f') + ['é', ' ', '\U0001f600']

# (document, why it must be rejected)
BROKEN = [
    # a nested grid declares its own version: one that says 2.0 cannot hold 3.0-only values
    ('ver:"3.0"\na\n<<ver:"2.0"\nb\n[1]\n>>\n', 'list in a nested grid that declares 2.0'),
    ('ver:"3.0"\na\n<<ver:"2.0"\nb\nNA\n>>\n', 'NA in a nested grid that declares 2.0'),
    ('ver:"3.0"\na\n<<ver:"2.0"\nb\n{x:1}\n>>\n', 'dict in a nested grid that declares 2.0'),
    ('ver:"3.0"\na\n<<ver:"2"\nb\nhex("00")\n>>\n', 'XStr in a nested grid that declares 2'),
    ('ver:"3.0"\na\n<<ver:"2.0.0"\nb,c\n1,[]\n>>\n', 'empty list in a nested grid that declares 2.0.0'),
    ('ver:"3.0"\na\n<<ver:"2.0" m:[1]\nb\nT\n>>\n', 'list in the metadata of a nested grid that declares 2.0'),
    ('ver:"3.0"\na\n<<ver:"2.0"\nb m:NA\nT\n>>\n', 'NA in the column metadata of a nested grid that declares 2.0'),
    ('ver:"3.0"\na\n<<ver:"2.0"\nb\n<<ver:"3.0"\nc\n1\n>>\n>>\n', 'grid nested in a nested grid that declares 2.0'),
    ('ver:"3.0"\na\n[<<ver:"2.0"\nb\n[1]\n>>]\n', 'list in a nested 2.0 grid inside a list'),
    ('ver:"3.0" m:<<ver:"2.0"\nb\nNA\n>>\na\n1\n', 'NA in a nested 2.0 grid in the metadata'),
    ('a\n1\n', 'missing version header'),
    ('ver:3.0\na\n1\n', 'version not quoted'),
    ('ver:"3.0\na\n1\n', 'unterminated version string'),
    ('Ver:"3.0"\na\n1\n', 'capitalised ver'),
    ('ver: "3.0"\na\n1\n', 'blank after ver:'),
    ('ver:""\na\n1\n', 'empty version'),
    ('ver:"abc"\na\n1\n', 'non-numeric version'),
    (' ver:"3.0"\na\n1\n', 'leading blank before the header'),
    ('ver:"3.0"\na\n"abc\n', 'unterminated string'),
    ('ver:"3.0"\na\n"abc\\"\n', 'unterminated string (escaped closing quote)'),
    ('ver:"3.0"\na\n`http://x\n', 'unterminated URI'),
    ('ver:"3.0"\na\n"a\\qb"\n', 'illegal escape \\q'),
    ('ver:"3.0"\na\n"a\\u12"\n', 'truncated \\u escape'),
    ('ver:"3.0"\na\n"a\\uZZZZ"\n', 'non-hex \\u escape'),
    ('ver:"3.0"\na\n"a\x00b"\n', 'raw NUL in string'),
    ('ver:"3.0"\na\n"a\tb"\n', 'raw tab in string'),
    ('ver:"3.0"\na\n`a\\"b`\n', 'illegal escape in URI'),
    ('ver:"3.0"\na\n`\\u41`\n', 'truncated \\u escape in URI'),
    ('ver:"3.0"\na\n`\\u 041`\n', '\\u escape with a blank in URI'),
    ('ver:"3.0"\na\n`\\u0x41`\n', '\\u escape with 0x in URI'),
    ('ver:"3.0"\na\n`\\u0_41`\n', '\\u escape with _ in URI'),
    ('ver:"3.0"\na\n`\\u+041`\n', '\\u escape with a sign in URI'),
    ('ver:"3.0"\na\n`x\\u-041y`\n', '\\u escape with a minus sign in URI'),
    ('ver:"3.0"\na\n`\\uZZZZ`\n', 'non-hex \\u escape in URI'),
    ('ver:"3.0"\na\n"\\u 041"\n', '\\u escape with a blank in string'),
    ('ver:"3.0"\na\n"\\u0x41"\n', '\\u escape with 0x in string'),
    ('ver:"3.0"\na\n"\\u0_41"\n', '\\u escape with _ in string'),
    ('ver:"3.0"\na\n"\\u+041"\n', '\\u escape with a sign in string'),
    ('ver:"2.0"\na\n`\\u 041`\n', '\\u escape with a blank in URI (2.0)'),
    ('ver:"3.0" m:`\\u0x41`\na\n1\n', 'malformed \\u escape in a metadata URI'),
    ('ver:"3.0"\na\n"a\\"\n', 'dangling backslash-quote'),
    ('ver:"3.0"\na\n[1,2\n', 'unbalanced list'),
    ('ver:"3.0"\na\n1,2]\n', 'stray closing bracket'),
    ('ver:"3.0"\na\n[[1]\n', 'unbalanced nested list'),
    ('ver:"3.0"\na\n{k:1\n', 'unbalanced dict'),
    ('ver:"3.0"\na\nk:1}\n', 'stray closing brace'),
    ('ver:"3.0"\na\n<<ver:"3.0"\nb\n1\n\n', 'unbalanced nested grid'),
    ('ver:"3.0"\na\n>>\n', 'stray >>'),
    ('ver:"3.0"\na\n<<ver:"3.0"\nb\n1\n>\n', 'half-closed nested grid'),
    ('ver:"3.0"\nA\n1\n', 'column name starts with a capital'),
    ('ver:"3.0"\n1a\n1\n', 'column name starts with a digit'),
    ('ver:"3.0"\n_a\n1\n', 'column name starts with an underscore'),
    ('ver:"3.0"\na-b\n1\n', 'hyphen in a column name'),
    ('ver:"3.0" Tag\na\n1\n', 'capitalised metadata tag'),
    ('ver:"3.0"\na B:1\n1\n', 'capitalised column metadata tag'),
    ('ver:"3.0"\na\n{K:1}\n', 'capitalised dict key'),
    ('ver:"3.0"\na^b\n1\n', 'illegal character in a column name'),
    ('ver:"2.0"\na\nNA\n', 'NA under 2.0'),
    ('ver:"2.0"\na\n[1]\n', 'list under 2.0'),
    ('ver:"2.0"\na\n{k:1}\n', 'dict under 2.0'),
    ('ver:"2.0"\na\n<<ver:"2.0"\nb\n1\n>>\n', 'nested grid under 2.0'),
    ('ver:"2.0"\na\nFoo("x")\n', 'XStr under 2.0'),
    ('ver:"2.0" m:[1]\na\n1\n', 'list in metadata under 2.0'),
    ('ver:"2.0"\na dis:{k:1}\n1\n', 'dict in column metadata under 2.0'),
    ('ver:"1.0"\na\nNA\n', 'NA under 1.0'),
]

SCALARS = ['', '"', '"a', '"a\\', '`', '@', '@a "', 'C(', 'C(1,', 'C(-,1)', 'C(1,2', '2020-13-01', '2020-02-30', '0000-01-01', '25:00:00', '12:60:00',
           '12:00:61', '12:00:00.1234567', '2020-01-01T00:00:00', '2020-01-01T25:00:00Z', '2020-01-01T00:00:00+99:99', '9999-12-31T23:59:59Z Sydney',
           '0001-01-01T00:00:00Z Auckland', '2020-01-01T00:00:00Z Nowhere', '1e', '1e+', '_', '-', '-_', '1__2', '1.', '.5', '1e400', '-1e400kg',
           'hex("zz")', 'hex("0")', 'b64("!!!!")', 'b64("QQ")', 'Foo(', 'Foo("a"', 'Bin(', 'Bin(a', '[', '[1', '[1,', '{', '{a', '{a:', '<<', 'NaNx', 'INFx',
           'T1', 'NA1', '5 kg', '1,2', '"a"b', '٣', '²', '\x00', 'ver:"3.0"', '"\\ud800"', '`\\#`', '1\n', '1 \n\t', ' 1']


def mutations(rng, doc, limit):
    out = []
    positions = list(range(len(doc) + 1))
    if len(positions) * len(ALPHABET) * 2 > limit:
        positions = sorted(rng.sample(positions, max(1, limit // (len(ALPHABET) + 2) // 2)))
    for p in positions:
        if p < len(doc):
            out.append(doc[:p] + doc[p + 1:])                           # delete
            out.append(doc[:p])                                          # truncate
        for ch in (ALPHABET if len(doc) < 80 else rng.sample(ALPHABET, 8)):
            out.append(doc[:p] + ch + doc[p:])                           # insert
            if p < len(doc):
                out.append(doc[:p] + ch + doc[p + 1:])                   # replace
    return out


def within(text, line, col):
    if line == 0 and col == 0:
        return True          # "position unknown"
    lines = text.split('\n')
    if line is None or col is None:
        return False
    return 1 <= line <= len(lines) + 1 and 1 <= col <= (len(lines[line - 1]) if line <= len(lines) else 0) + 1


def run(ctx):
    h = codec.H()
    rng = random.Random(ctx.seed + 9)
    thorough = ctx.tier == 'thorough' or ctx.escalate
    budget = 400000 if thorough else 6000
    ctx.coverage['rule'] = ('%d seed documents (one per construct) under single-position delete / truncate / insert / replace from a %d-character alphabet '
                            '(all positions for short documents), splices of two documents, arbitrary strings; %d structurally broken documents of the '
                            'classes the property names; %d malformed scalars; distinct by text; a document is non-trivial when it differs from every seed'
                            % (len(SEEDS), len(ALPHABET), len(BROKEN), len(SCALARS)))
    docs = []
    per = budget // len(SEEDS)
    for s in SEEDS:
        ms = mutations(rng, s, per)
        if len(ms) > per:
            ms = rng.sample(ms, per)
        docs.extend(ms)
    for _ in range(budget // 20):
        a, b = rng.choice(SEEDS), rng.choice(SEEDS)
        docs.append(a[:rng.randint(0, len(a))] + b[rng.randint(0, len(b)):])
        docs.append(''.join(rng.choice(ALPHABET) for _ in range(rng.randint(0, 30))))
    docs = list(dict.fromkeys(docs + SEEDS))
    impl = zincsim.impl_parse_many(docs)
    model = zincsim.model_zparse(ctx, docs)
    corr = False
    nontrivial = 0
    for text, got, m in zip(docs, impl, model):
        ctx.coverage['evaluations'] += 1
        rep = {'document': text[:2000]}
        if got[0] == 'raise':
            if got[1] != 'ZincParseException':
                ctx.violation('impl-counterexample', 'grid parsing raised %s instead of ZincParseException' % got[1], rep)
                return
            # line / column are documented as relative to the grid the exception carries (e.grid_str): one grid of the document
            gtext = got[4] if len(got) > 4 and isinstance(got[4], str) else text
            if gtext.rstrip('\n') not in text and gtext not in text + '\n':
                ctx.violation('impl-counterexample', 'ZincParseException carries a grid text that is not part of the document', rep)
                return
            if not within(gtext, got[2], got[3]):
                ctx.violation('impl-counterexample', 'ZincParseException reports line %s col %s outside the text' % (got[2], got[3]), rep)
                return
        ctx.count('outcome:' + ('grid' if got[0] == 'ok' else 'ZincParseException'))
        if text not in SEEDS:
            nontrivial += 1
        if not corr and m[:2] != got[:2]:
            ctx.violation('correspondence-broken', 'model of the ZINC reader: %r, implementation %r' % (repr(m)[:500], repr(got[:2])[:500]),
                          dict(rep, component='zparse'))
            corr = True
        ctx.coverage['traces_validated_against_impl'] += 1
    # structurally broken documents are rejected
    broken_docs = [b[0] for b in BROKEN]
    for (text, why), got, m in zip(BROKEN, zincsim.impl_parse_many(broken_docs), zincsim.model_zparse(ctx, broken_docs)):
        ctx.coverage['evaluations'] += 1
        if got[0] == 'ok':
            ctx.violation('impl-counterexample', 'a structurally broken document (%s) was accepted and parsed to %r' % (why, repr(got[1])[:300]),
                          {'document': text, 'why': why})
            return
        if got[1] != 'ZincParseException':
            ctx.violation('impl-counterexample', 'a broken document (%s) raised %s' % (why, got[1]), {'document': text})
            return
        if not corr and m[:2] != got[:2]:
            ctx.violation('correspondence-broken', 'model accepts the broken document (%s)' % why, {'document': text, 'component': 'zparse'})
            corr = True
    # a broken grid anywhere in a document of several grids rejects the document, whichever way it is asked for
    # (single=True, the default, hands back the first grid of a document that was parsed as a whole)
    good = 'ver:"3.0"\nq\n1\n'
    multi = [(good + '\n' + b, why) for b, why in BROKEN if b.strip()] + [(good + '\n' + good + '\n' + b, why) for b, why in BROKEN[:6] if b.strip()]
    mdocs = [d for d, _ in multi]
    for single in (True, False):
        for (text, why), got in zip(multi, zincsim.impl_parse_many(mdocs, single=single)):
            ctx.coverage['evaluations'] += 1
            ctx.count('broken-later-grid:single=%s' % single)
            if got[0] == 'ok':
                ctx.violation('impl-counterexample', 'a document whose second or third grid is structurally broken (%s) was accepted with single=%s and parsed to %r'
                              % (why, single, repr(got[1])[:200]), {'document': text, 'why': why, 'single': single})
                return
            if got[1] != 'ZincParseException':
                ctx.violation('impl-counterexample', 'a document with a broken later grid (%s) raised %s' % (why, got[1]), {'document': text, 'single': single})
                return
    # scalars: only ValueError-family exceptions
    sc = list(SCALARS)
    for s in ('"abc"', '12.5kg', '@a "b"', '[1,2]', '2020-06-01T12:00:00Z UTC', 'C(1,2)'):
        sc.extend(rng.sample(mutations(rng, s, 400), 60 if not thorough else 300))
    # nested grids written as scalars (alone, in a list, in a dict, in another nested grid), with whole TOKENS inserted at every
    # position: repeated / ill-typed reserved tags, stray separators and brackets
    tokens = [' ver', ' ver:M', ' ver:3', ' ver:"x"', ' ver:"2.0"', ' ver:[1]', ' ver:T', ' a', ' a:', ',', ',,', '>>', '<<', ' id', '\n', ' N', 'ver:"3.0"\n']
    nested = ['<<ver:"3.0"\na\n1\n>>', '[<<ver:"3.0" m:1\na,b\n1,2\n>>]', '{g:<<ver:"3.0"\na\n"x"\n>>}', '<<ver:"3.0"\na\n<<ver:"3.0"\nb\n1\n>>\n>>', '<<ver:"2.0"\na\n1\n>>']
    tk = []
    for s0 in nested:
        for pos in range(len(s0) + 1):
            for t in tokens:
                tk.append(s0[:pos] + t + s0[pos:])
    sc.extend(nested)
    sc.extend(tk if thorough else rng.sample(tk, 700) + [s0[:s0.index('"3.0"') + 5] + t + s0[s0.index('"3.0"') + 5:] for s0 in nested if '"3.0"' in s0 for t in tokens])
    # scalars with an illegal escape are rejected, never read as something
    broken_scalars = ['`\\u41`', '`\\u 041`', '`\\u0x41`', '`\\u0_41`', '`\\u+041`', '`a\\u-041`', '`\\uZZZZ`', '`\\q`', '"\\q"', '"\\u 041"', '"\\u0x41"',
                      '"\\u0_41"', '"\\u+041"', '"\\u12"', '"\\uZZZZ"', '@r "\\u 041"', 'hex("\\u0x41")', '[`\\u 041`]', '{a:"\\u0_41"}',
                      # a raw TAB inside a literal is not a string / URI character, under either version
                      '"a\tb"', '"\tbc"', '`http://x/\ty`', '@r "a\tb"', '["a\tb"]', '"ab\t\t\t\\q"',
                      # a nested grid that declares a pre-3.0 version cannot hold 3.0-only values
                      '<<ver:"2.0"\nb\n[1]\n>>', '<<ver:"2.0"\nb\nNA\n>>', '[<<ver:"2"\nb\n{x:1}\n>>]', '{g:<<ver:"2.0.0"\nb\nhex("00")\n>>}',
                      '<<ver:"2.0" m:[1]\nb\nT\n>>', '<<ver:"2.0"\nb\n<<ver:"3.0"\nc\n1\n>>\n>>']
    for ver in ('3.0', '2.0'):
        for text, got in zip(broken_scalars, zincsim.impl_scalar_many(broken_scalars, ver=ver)):
            ctx.coverage['evaluations'] += 1
            ctx.count('broken-scalar')
            if got[0] == 'ok':
                ctx.violation('impl-counterexample', 'the malformed scalar %r (version %s) was accepted and read as %r' % (text, ver, repr(got[1])[:120]),
                              {'scalar': text, 'version': ver})
                return
    for ver, ver3 in (('3.0', True), ('2.0', False)):
        res = zincsim.impl_scalar_many(sc, ver=ver)
        mod = zincsim.model_zscalar(ctx, sc, ver3=ver3)
        for text, got, m in zip(sc, res, mod):
            ctx.coverage['evaluations'] += 1
            if got[0] == 'raise' and not got[2]:
                ctx.violation('impl-counterexample', 'scalar parsing raised %s, which is not a ValueError' % got[1],
                              {'scalar': text, 'version': ver})
                return
            mm = m if m[0] == 'ok' else ('raise', 'ZincParseException' if m[1] == 'ZincParseException' else 'ValueError')
            gg = got[:2] if got[0] == 'ok' else ('raise', got[1] if got[1] == 'ZincParseException' else 'ValueError')
            if not corr and mm != gg:
                ctx.violation('correspondence-broken', 'scalar %r (version %s): model %r, implementation %r' % (text, ver, mm, gg),
                              {'scalar': text, 'version': ver, 'component': 'zparse_scalar'})
                corr = True
    ctx.sample({'document': docs[len(docs) // 2]})
    ctx.sample({'broken': BROKEN[8][0]})
    ctx.coverage['distinct_nontrivial'] = nontrivial


def replay(ctx, data):
    h = codec.H()
    if 'document' in data:
        print(repr(data['document']))
        print(zincsim.impl_parse_many([data['document']]))
    if 'scalar' in data:
        print(repr(data['scalar']), zincsim.impl_scalar_many([data['scalar']], ver=data.get('version', '3.0')))
    run(ctx)
