(* Equality of container values (lists and dicts nested to any depth): property C19 beyond the flat kinds. *)
From Coq Require Import Lia List Arith.
From HS Require Import Base.Prelude Model.Eq Proofs.PreludeP Proofs.EqP.
Import ListNotations.
Open Scope Z_scope.

(* ---------- != is the complement of ==, for all values ---------- *)
Lemma method_ne_cneg R a b : method_ne R a b = cneg (method_eq R a b).
Proof.
  destruct a; try reflexivity.
  destruct b; cbn [method_ne method_eq as_num]; try reflexivity;
    try (match goal with |- context [opt_str_eqb ?x ?y] => destruct (opt_str_eqb x y) end; try reflexivity);
    match goal with |- context [num_eqb ?x ?y] => destruct (num_eqb x y) end; reflexivity.
Qed.

Lemma pyne_compl_gen R a b : pyne R a b = neg_res (pyeq R a b).
Proof.
  unfold pyne, pyeq. rewrite !method_ne_cneg.
  destruct (subclass_first a b); destruct (method_eq R a b), (method_eq R b a); cbn [cneg neg_res]; try reflexivity.
Qed.

Theorem py_ne_compl_all a b : py_ne a b = neg_res (py_eq a b).
Proof. unfold py_ne, py_eq. cbn [pyne_fuel pyeq_fuel]. apply pyne_compl_gen. Qed.

(* ---------- == never raises anything but TypeError, and never runs out of fuel ---------- *)
Definition okT (r : res bool) : Prop := match r with Ok _ => True | Raise e => e = TypeError end.
Definition sub (x a : hv) : Prop := match a with HList l => In x l | HDict d => In x (map snd d) | _ => False end.

Lemma depth_list l f : (depth (HList l) < S f)%nat -> forall x, In x l -> (depth x < f)%nat.
Proof.
  cbn [depth]. intros H x Hx. apply Nat.succ_lt_mono in H.
  induction l as [|y l IH]; [contradiction|]. cbn [fold_right] in H. apply Nat.max_lub_lt_iff in H. destruct H as [H1 H2].
  destruct Hx as [E|Hx]; [subst; exact H1|apply IH; assumption].
Qed.
Lemma depth_dict d f : (depth (HDict d) < S f)%nat -> forall x, In x (map snd d) -> (depth x < f)%nat.
Proof.
  cbn [depth]. intros H x Hx. apply Nat.succ_lt_mono in H.
  induction d as [|[k y] d IH]; [contradiction|]. cbn [fold_right snd] in H. apply Nat.max_lub_lt_iff in H. destruct H as [H1 H2].
  cbn [map snd] in Hx. destruct Hx as [E|Hx]; [subst; exact H1|apply IH; assumption].
Qed.
Lemma depth_sub a f x : (depth a < S f)%nat -> sub x a -> (depth x < f)%nat.
Proof. destruct a; cbn [sub]; try contradiction; intros H Hx; [eapply depth_list|eapply depth_dict]; eassumption. Qed.

Lemma list_eq_okT R : forall l l', (forall x y, In x l -> In y l' -> okT (R x y)) -> okT (list_eq R l l').
Proof.
  induction l as [|x l IH]; intros [|y l'] H; cbn [list_eq okT]; auto.
  pose proof (H x y (or_introl eq_refl) (or_introl eq_refl)) as Hxy. destruct (R x y) as [[|]|e]; cbn [okT] in *; auto.
  apply IH. intros x0 y0 Hx Hy. apply H; right; assumption.
Qed.
Lemma dict_get_in k d w : dict_get k d = Some w -> In w (map snd d).
Proof.
  induction d as [|[y v] d IH]; cbn [dict_get]; [discriminate|]. destruct (str_eqb y k); intro H.
  - inversion H; subst. left. reflexivity.
  - right. apply IH. exact H.
Qed.
Lemma dict_eq_okT R : forall a b, (forall x y, In x (map snd a) -> In y (map snd b) -> okT (R x y)) -> okT (dict_eq_items R a b).
Proof.
  induction a as [|[k v] a IH]; intros b H; cbn [dict_eq_items okT]; auto.
  destruct (dict_get k b) as [w|] eqn:G; cbn [okT]; auto.
  pose proof (H v w (or_introl eq_refl) (dict_get_in k b w G)) as Hvw. destruct (R v w) as [[|]|e]; cbn [okT] in *; auto.
  apply IH. intros x0 y0 Hx Hy. apply H; [right|]; assumption.
Qed.

Lemma method_eq_raises R a b e : (forall x y, sub x a -> sub y b -> okT (R x y)) -> method_eq R a b = CRaise e -> e = TypeError.
Proof.
  intros Hsub H.
  destruct a, b; cbn [method_eq as_num is_strlike str_of] in H;
    repeat (match type of H with
            | context [if ?c then _ else _] => destruct c eqn:?
            | context [of_bool ?c] => destruct c
            end; cbn [of_bool] in H); try discriminate; try (inversion H; reflexivity).
  - pose proof (list_eq_okT R l l0 (fun x y Hx Hy => Hsub x y Hx Hy)) as O. destruct (list_eq R l l0) as [r|e0]; [destruct r; discriminate|]. inversion H; subst. exact O.
  - pose proof (dict_eq_okT R l l0 (fun x y Hx Hy => Hsub x y Hx Hy)) as O. destruct (dict_eq_items R l l0) as [r|e0]; [destruct r; discriminate|]. inversion H; subst. exact O.
Qed.

Lemma pyeq_okT R a b : (forall x y, sub x a -> sub y b -> okT (R x y)) -> (forall x y, sub x a -> sub y b -> okT (R y x)) -> okT (pyeq R a b).
Proof.
  intros H1 H2. unfold pyeq.
  assert (M1 : forall e, method_eq R a b = CRaise e -> e = TypeError) by (intro e; apply method_eq_raises; exact H1).
  assert (M2 : forall e, method_eq R b a = CRaise e -> e = TypeError) by (intro e; apply method_eq_raises; intros x y Hx Hy; apply H2; assumption).
  destruct (subclass_first a b); destruct (method_eq R a b) eqn:E1; destruct (method_eq R b a) eqn:E2; cbn [okT]; auto.
Qed.

Theorem pyeq_fuel_okT : forall f a b, (depth a < f)%nat -> (depth b < f)%nat -> okT (pyeq_fuel f a b).
Proof.
  induction f as [|f IH]; intros a b Ha Hb; [lia|]. cbn [pyeq_fuel].
  apply pyeq_okT; intros x y Hx Hy; apply IH; first [exact (depth_sub a f x Ha Hx) | exact (depth_sub b f y Hb Hy)].
Qed.

Theorem py_eq_total_all a b : okT (py_eq a b).
Proof. unfold py_eq. apply pyeq_fuel_okT; lia. Qed.

(* ---------- == is symmetric on lists nested to any depth (exactly: the same outcome, an exception included) ---------- *)
Fixpoint dict_free (v : hv) : bool :=
  match v with HList l => forallb dict_free l | HDict _ => false | _ => true end.

Lemma list_eq_sym R : forall l l', (forall x y, In x l -> In y l' -> R x y = R y x) -> list_eq R l l' = list_eq R l' l.
Proof.
  induction l as [|x l IH]; intros [|y l'] H; cbn [list_eq]; auto.
  rewrite (H x y (or_introl eq_refl) (or_introl eq_refl)). destruct (R y x) as [[|]|e]; auto.
  apply IH. intros x0 y0 Hx Hy. apply H; right; assumption.
Qed.

Definition not_dict (v : hv) : bool := match v with HDict _ => false | _ => true end.

Lemma pyeq_flat_R R a b : flat a = true -> flat b = true -> pyeq R a b = pyeq R0 a b.
Proof. intros Fa Fb. rewrite <- (py_eq_flat a b R Fa Fb). apply py_eq_flat; assumption. Qed.

Lemma pyeq_sym_gen R a b : not_dict a = true -> not_dict b = true ->
  (forall x y, sub x a -> sub y b -> R x y = R y x) -> pyeq R a b = pyeq R b a.
Proof.
  intros Na Nb H. destruct (flat a) eqn:Fa; destruct (flat b) eqn:Fb.
  - rewrite (pyeq_flat_R R a b Fa Fb), (pyeq_flat_R R b a Fb Fa). apply pyeq_sym; assumption.
  - destruct b; try discriminate. destruct a; try discriminate; reflexivity.
  - destruct a; try discriminate. destruct b; try discriminate; reflexivity.
  - destruct a; try discriminate. destruct b; try discriminate.
    unfold pyeq. cbn [method_eq subclass_first]. rewrite (Nat.eqb_sym (length l0) (length l)).
    rewrite (list_eq_sym R l l0 (fun x y Hx Hy => H x y Hx Hy)). reflexivity.
Qed.

Lemma dict_free_sub a x : dict_free a = true -> sub x a -> dict_free x = true.
Proof.
  destruct a; cbn [sub dict_free]; try contradiction; try discriminate. intros H Hx. rewrite forallb_forall in H. apply H. exact Hx.
Qed.
Lemma dict_free_not_dict a : dict_free a = true -> not_dict a = true.
Proof. destruct a; cbn; auto. Qed.

Theorem pyeq_fuel_sym : forall f a b, dict_free a = true -> dict_free b = true -> pyeq_fuel f a b = pyeq_fuel f b a.
Proof.
  induction f as [|f IH]; intros a b Da Db; [reflexivity|]. cbn [pyeq_fuel].
  apply pyeq_sym_gen; [apply dict_free_not_dict; exact Da|apply dict_free_not_dict; exact Db|].
  intros x y Hx Hy. apply IH; [exact (dict_free_sub a x Da Hx)|exact (dict_free_sub b y Db Hy)].
Qed.

Theorem py_eq_sym_lists a b : dict_free a = true -> dict_free b = true -> py_eq a b = py_eq b a.
Proof. intros Da Db. unfold py_eq. rewrite (Nat.max_comm (depth b) (depth a)). apply pyeq_fuel_sym; assumption. Qed.

(* ---------- == is reflexive on NaN-free values with unique dict keys, nested to any depth ---------- *)
Fixpoint uniq (l : list str) : bool :=
  match l with [] => true | k :: r => negb (existsb (str_eqb k) r) && uniq r end.
Fixpoint good (v : hv) : bool :=
  match v with
  | HList l => forallb good l
  | HDict d => uniq (map fst d) && forallb (fun kv => good (snd kv)) d
  | _ => nan_free v
  end.

Lemma list_eq_refl R : forall l, (forall x, In x l -> R x x = Ok true) -> list_eq R l l = Ok true.
Proof.
  induction l as [|x l IH]; intro H; cbn [list_eq]; [reflexivity|]. rewrite (H x (or_introl eq_refl)). apply IH. intros y Hy. apply H. right. exact Hy.
Qed.

Lemma dict_get_self : forall d k v, uniq (map fst d) = true -> In (k, v) d -> dict_get k d = Some v.
Proof.
  induction d as [|[y w] d IH]; intros k v U Hin; [contradiction|]. cbn [map fst uniq] in U. apply andb_prop in U. destruct U as [U1 U2].
  cbn [dict_get]. destruct (str_eqb_spec y k) as [E|NE].
  - subst y. destruct Hin as [E|Hin]; [inversion E; reflexivity|]. exfalso.
    assert (X : existsb (str_eqb k) (map fst d) = true).
    { apply existsb_exists. exists k. split; [apply in_map_iff; exists (k, v); split; [reflexivity|exact Hin]|]. destruct (str_eqb_spec k k); [reflexivity|contradiction]. }
    rewrite X in U1. discriminate.
  - destruct Hin as [E|Hin]; [inversion E; subst; contradiction|]. apply IH; assumption.
Qed.

Lemma dict_eq_refl R d : uniq (map fst d) = true -> (forall v, In v (map snd d) -> R v v = Ok true) -> dict_eq_items R d d = Ok true.
Proof.
  intros U H. assert (G : forall a, incl a d -> dict_eq_items R a d = Ok true).
  { induction a as [|[k v] a IH]; intro Hi; cbn [dict_eq_items]; [reflexivity|].
    rewrite (dict_get_self d k v U (Hi (k, v) (or_introl eq_refl))).
    rewrite (H v); [|apply in_map_iff; exists (k, v); split; [reflexivity|apply Hi; left; reflexivity]].
    apply IH. intros z Hz. apply Hi. right. exact Hz. }
  apply G. apply incl_refl.
Qed.

Lemma good_sub a x : good a = true -> sub x a -> good x = true.
Proof.
  destruct a; cbn [sub good]; try contradiction.
  - intros H Hx. rewrite forallb_forall in H. apply H. exact Hx.
  - intros H Hx. apply andb_prop in H. destruct H as [_ H]. rewrite forallb_forall in H. apply in_map_iff in Hx. destruct Hx as [[k v] [E Hin]]. subst x. exact (H (k, v) Hin).
Qed.

Lemma pyeq_refl_gen R a : good a = true -> (forall x, sub x a -> R x x = Ok true) -> pyeq R a a = Ok true.
Proof.
  intros G H. destruct (flat a) eqn:Fa.
  - rewrite (pyeq_flat_R R a a Fa Fa). apply pyeq_refl; [exact Fa|]. destruct a; try discriminate; exact G.
  - destruct a; try discriminate; unfold pyeq; cbn [method_eq subclass_first]; rewrite Nat.eqb_refl.
    + rewrite (list_eq_refl R l (fun x Hx => H x Hx)). reflexivity.
    + cbn [good] in G. apply andb_prop in G. destruct G as [U _]. rewrite (dict_eq_refl R l U (fun v Hv => H v Hv)). reflexivity.
Qed.

Theorem pyeq_fuel_refl : forall f a, (depth a < f)%nat -> good a = true -> pyeq_fuel f a a = Ok true.
Proof.
  induction f as [|f IH]; intros a Ha G; [lia|]. cbn [pyeq_fuel].
  apply pyeq_refl_gen; [exact G|]. intros x Hx. apply IH; [exact (depth_sub a f x Ha Hx)|exact (good_sub a x G Hx)].
Qed.

Theorem py_eq_refl_all a : good a = true -> py_eq a a = Ok true.
Proof. intro G. unfold py_eq. apply pyeq_fuel_refl; [lia|exact G]. Qed.

(* != on such a value against itself is False *)
Theorem py_ne_refl_all a : good a = true -> py_ne a a = Ok false.
Proof. intro G. rewrite py_ne_compl_all, (py_eq_refl_all a G). reflexivity. Qed.

Print Assumptions py_ne_compl_all.
Print Assumptions py_eq_total_all.
Print Assumptions py_eq_sym_lists.
Print Assumptions py_eq_refl_all.

(* ---------- == is symmetric on all values with unique dict keys, whenever neither side raises ---------- *)
(* (a dict is compared in the order of the LEFT operand's keys, so that with two mismatches of which one raises - two
   Quantities of different units - the two orders can meet the exception or the mismatch first; where both orders
   return, they return the same) *)
Fixpoint keyed (v : hv) : bool :=
  match v with
  | HList l => forallb keyed l
  | HDict d => uniq (map fst d) && forallb (fun kv => keyed (snd kv)) d
  | _ => true
  end.
Definition wsym (R : hv -> hv -> res bool) (x y : hv) : Prop := forall r r', R x y = Ok r -> R y x = Ok r' -> r = r'.

Lemma list_eq_wsym R : forall l l' r r', (forall x y, In x l -> In y l' -> wsym R x y) ->
  list_eq R l l' = Ok r -> list_eq R l' l = Ok r' -> r = r'.
Proof.
  induction l as [|x l IH]; intros [|y l'] r r' H; cbn [list_eq]; intros A B; try congruence.
  pose proof (H x y (or_introl eq_refl) (or_introl eq_refl)) as W.
  destruct (R x y) as [[|]|e] eqn:E1; destruct (R y x) as [[|]|e'] eqn:E2; try discriminate.
  - apply (IH l' r r'); [intros x0 y0 Hx Hy; apply H; right; assumption|exact A|exact B].
  - specialize (W true false E1 E2). discriminate.
  - specialize (W false true E1 E2). discriminate.
  - congruence.
Qed.

Lemma uniq_NoDup l : uniq l = true -> NoDup l.
Proof.
  induction l as [|k l IH]; intro U; [constructor|]. cbn [uniq] in U. apply andb_prop in U. destruct U as [U1 U2]. constructor; [|apply IH; exact U2].
  intro Hin. assert (X : existsb (str_eqb k) l = true) by (apply existsb_exists; exists k; split; [exact Hin|apply str_eqb_refl]).
  rewrite X in U1. discriminate.
Qed.

Lemma dict_get_some_in k d w : dict_get k d = Some w -> In (k, w) d.
Proof.
  induction d as [|[y v] d IH]; cbn [dict_get]; [discriminate|]. destruct (str_eqb_spec y k) as [E|NE]; intro H.
  - inversion H; subst. left. reflexivity.
  - right. apply IH. exact H.
Qed.
Lemma dict_get_none k d : dict_get k d = None -> ~ In k (map fst d).
Proof.
  induction d as [|[y v] d IH]; cbn [dict_get map fst]; [intros _ []|]. destruct (str_eqb_spec y k) as [E|NE]; [discriminate|].
  intros H [E|Hin]; [contradiction|]. exact (IH H Hin).
Qed.

(* all of a's pairs are matched in b *)
Lemma dict_eq_true R : forall a b, dict_eq_items R a b = Ok true ->
  forall k v, In (k, v) a -> exists w, dict_get k b = Some w /\ R v w = Ok true.
Proof.
  induction a as [|[k0 v0] a IH]; intros b H k v Hin; [contradiction|]. cbn [dict_eq_items] in H.
  destruct (dict_get k0 b) as [w|] eqn:G; [|discriminate]. destruct (R v0 w) as [[|]|e] eqn:E; try discriminate.
  destruct Hin as [Ei|Hin]; [inversion Ei; subst; exists w; split; assumption|]. exact (IH b H k v Hin).
Qed.
(* if every pair of a is matched in b with a value R says equal, the comparison says True *)
Lemma dict_eq_all R : forall a b, (forall k v, In (k, v) a -> exists w, dict_get k b = Some w /\ R v w = Ok true) -> dict_eq_items R a b = Ok true.
Proof.
  induction a as [|[k0 v0] a IH]; intros b H; cbn [dict_eq_items]; [reflexivity|].
  destruct (H k0 v0 (or_introl eq_refl)) as [w [G E]]. rewrite G, E. apply IH. intros k v Hin. apply H. right. exact Hin.
Qed.
(* a comparison that returns at all returns True exactly when every pair is matched *)
Lemma dict_eq_ok_false R : forall a b r, dict_eq_items R a b = Ok r ->
  (forall k v, In (k, v) a -> exists w, dict_get k b = Some w /\ exists x, R v w = Ok x) \/ r = false.
Proof.
  induction a as [|[k0 v0] a IH]; intros b r H; [left; intros k v []|]. cbn [dict_eq_items] in H.
  destruct (dict_get k0 b) as [w|] eqn:G; [|right; congruence]. destruct (R v0 w) as [[|]|e] eqn:E; try discriminate; [|right; congruence].
  destruct (IH b r H) as [A|A]; [left|right; exact A].
  intros k v [Ei|Hin]; [inversion Ei; subst; exists w; split; [exact G|exists true; exact E]|exact (A k v Hin)].
Qed.

Lemma dict_eq_wsym R a b r r' : uniq (map fst a) = true -> uniq (map fst b) = true -> length a = length b ->
  (forall x y, In x (map snd a) -> In y (map snd b) -> wsym R x y) ->
  dict_eq_items R a b = Ok r -> dict_eq_items R b a = Ok r' -> r = r'.
Proof.
  intros Ua Ub Hlen W A B.
  (* from True in one direction to True in the other *)
  assert (T : forall (a b : list (str * hv)) r', uniq (map fst a) = true -> uniq (map fst b) = true -> length a = length b ->
              (forall x y, In x (map snd a) -> In y (map snd b) -> wsym R x y) ->
              dict_eq_items R a b = Ok true -> dict_eq_items R b a = Ok r' -> r' = true).
  { clear. intros a b r' Ua Ub Hlen W A B.
    assert (KI : incl (map fst a) (map fst b)).
    { intros k Hk. apply in_map_iff in Hk. destruct Hk as [[k0 v] [E Hin]]. cbn [fst] in E. subst k0.
      destruct (dict_eq_true R a b A k v Hin) as [w [G _]]. apply in_map_iff. exists (k, w). split; [reflexivity|apply dict_get_some_in; exact G]. }
    assert (KJ : incl (map fst b) (map fst a)).
    { apply NoDup_length_incl; [apply uniq_NoDup; exact Ua| rewrite !map_length; lia |exact KI]. }
    destruct r'; [reflexivity|]. exfalso.
    clear -B A KJ Ua Ub W.
      assert (G0 : forall c, incl c b -> dict_eq_items R c a = Ok false -> False).
      { induction c as [|[k w] c IH]; intros Hi H; cbn [dict_eq_items] in H; [discriminate|].
        assert (Hin : In (k, w) b) by (apply Hi; left; reflexivity).
        assert (Hk : In k (map fst a)) by (apply KJ; apply in_map_iff; exists (k, w); split; [reflexivity|exact Hin]).
        destruct (dict_get k a) as [v|] eqn:G; [|exact (dict_get_none k a G Hk)].
        pose proof (dict_get_some_in k a v G) as Hv.
        destruct (dict_eq_true R a b A k v Hv) as [w' [G' E']].
        rewrite (dict_get_self b k w Ub Hin) in G'. inversion G'; subst w'.
        assert (Hx : In v (map snd a)) by (apply in_map_iff; exists (k, v); split; [reflexivity|exact Hv]).
        assert (Hy : In w (map snd b)) by (apply in_map_iff; exists (k, w); split; [reflexivity|exact Hin]).
        destruct (R w v) as [[|]|e] eqn:E; try discriminate.
        - apply IH; [intros z Hz; apply Hi; right; exact Hz|exact H].
        - pose proof (W v w Hx Hy true false E' E). discriminate. }
      exact (G0 b (incl_refl b) B). }
  destruct r, r'; try reflexivity.
  - symmetry. exact (T a b false Ua Ub Hlen W A B).
  - apply (T b a false Ub Ua (eq_sym Hlen)); [|exact B|exact A].
    intros x y Hx Hy r0 r1 E1 E2. symmetry. exact (W y x Hy Hx r1 r0 E2 E1).
Qed.

Lemma wsym_of_eq R x y : R x y = R y x -> wsym R x y.
Proof. intros E r r' A B. rewrite E in A. congruence. Qed.

Lemma keyed_sub a x : keyed a = true -> sub x a -> keyed x = true.
Proof.
  destruct a; cbn [sub keyed]; try contradiction.
  - intros H Hx. rewrite forallb_forall in H. apply H. exact Hx.
  - intros H Hx. apply andb_prop in H. destruct H as [_ H]. rewrite forallb_forall in H. apply in_map_iff in Hx. destruct Hx as [[k v] [E Hin]]. subst x. exact (H (k, v) Hin).
Qed.

Lemma pyeq_wsym_gen R a b : keyed a = true -> keyed b = true ->
  (forall x y, sub x a -> sub y b -> wsym R x y) -> wsym (pyeq R) a b.
Proof.
  intros Ka Kb H. destruct (flat a) eqn:Fa; destruct (flat b) eqn:Fb.
  - apply wsym_of_eq. rewrite (pyeq_flat_R R a b Fa Fb), (pyeq_flat_R R b a Fb Fa). apply pyeq_sym; assumption.
  - apply wsym_of_eq. destruct b; try discriminate; destruct a; try discriminate; reflexivity.
  - apply wsym_of_eq. destruct a; try discriminate; destruct b; try discriminate; reflexivity.
  - destruct a; try discriminate; destruct b; try discriminate; try (apply wsym_of_eq; reflexivity).
    + (* two lists *)
      intros r r'. unfold pyeq. cbn [method_eq subclass_first]. rewrite (Nat.eqb_sym (length l0) (length l)).
      destruct (Nat.eqb (length l) (length l0)); [|cbn [of_bool]; congruence].
      destruct (list_eq R l l0) as [x|e] eqn:E1; destruct (list_eq R l0 l) as [y|e'] eqn:E2; try discriminate.
      pose proof (list_eq_wsym R l l0 x y (fun x0 y0 Hx Hy => H x0 y0 Hx Hy) E1 E2) as Q. subst y.
      destruct x; cbn [of_bool]; congruence.
    + (* two dicts *)
      cbn [keyed] in Ka, Kb. apply andb_prop in Ka. apply andb_prop in Kb. destruct Ka as [Ua _]. destruct Kb as [Ub _].
      intros r r'. unfold pyeq. cbn [method_eq subclass_first]. rewrite (Nat.eqb_sym (length l0) (length l)).
      destruct (Nat.eqb (length l) (length l0)) eqn:EL; [|cbn [of_bool]; congruence]. apply Nat.eqb_eq in EL.
      destruct (dict_eq_items R l l0) as [x|e] eqn:E1; destruct (dict_eq_items R l0 l) as [y|e'] eqn:E2; try discriminate.
      pose proof (dict_eq_wsym R l l0 x y Ua Ub EL (fun x0 y0 Hx Hy => H x0 y0 Hx Hy) E1 E2) as Q. subst y.
      destruct x; cbn [of_bool]; congruence.
Qed.

Theorem pyeq_fuel_wsym : forall f a b, keyed a = true -> keyed b = true -> wsym (pyeq_fuel f) a b.
Proof.
  induction f as [|f IH]; intros a b Ka Kb; [intros r r' A; discriminate|]. cbn [pyeq_fuel].
  apply pyeq_wsym_gen; [exact Ka|exact Kb|]. intros x y Hx Hy. apply IH; [exact (keyed_sub a x Ka Hx)|exact (keyed_sub b y Kb Hy)].
Qed.

(* where a == b and b == a both return, they return the same *)
Theorem py_eq_sym_all a b r r' : keyed a = true -> keyed b = true -> py_eq a b = Ok r -> py_eq b a = Ok r' -> r = r'.
Proof.
  intros Ka Kb. unfold py_eq. rewrite (Nat.max_comm (depth b) (depth a)). apply pyeq_fuel_wsym; assumption.
Qed.
Print Assumptions py_eq_sym_all.
