"""C04 - the ZINC writer emits spec-conformant text that denotes the grid.

Theorems: coq/theories/Props/C04.v (Model/ZincDump.v, Model/Escape.v).
Tie: exact text equality of the writer model with hszinc.dump(g) on generated
grids.  Search: an independent, spec-derived reader (harness/zincspec.py, shares
no code with hszinc) must accept the text and recover the grid: header, one
column line, one line per row, every cell present, only legal escapes, INF/-INF/NaN."""
import random

import codec
import zincsim
import zincspec

COMPONENTS = ['escape', 'version']


def run(ctx):
    h = codec.H()
    rng = random.Random(ctx.seed + 4)
    thorough = ctx.tier == 'thorough' or ctx.escalate
    n = 40000 if thorough else 1200
    ctx.coverage['rule'] = ('grids generated over the Haystack value domain (every kind in metadata, column metadata, cells, lists, dicts, nested grids; '
                            'all code points in text; boundary floats and non-finite numbers; all mapped zones incl. transition instants; depth <= 3; '
                            'versions 2.0 / 3.0); distinct by dumped text; a grid is non-trivial when it holds a non-null value')
    gs = [codec.gen_grid(rng, rng.choice(['2.0', '3.0', '3.0']), depth=rng.choice([0, 1, 2, 3])) for _ in range(n)]
    gs += codec.zone_sweep_grids(rng)        # one date-time in every mapped zone
    gs += codec.reserved_tag_grids(flat=True)         # dict values whose tags are the names of the JSON grid encoding (meta, cols, rows)
    answers = zincsim.model_zdump(ctx, gs)
    seen = set()
    corr = False
    for g, a in zip(gs, answers):
        ctx.coverage['evaluations'] += 1
        try:
            txt = h.dump(g)
        except Exception as e:  # noqa
            ctx.violation('impl-counterexample', 'dumping a valid grid raised %s: %s' % (type(e).__name__, e),
                          {'grid': repr(codec.canon(g))[:3000]})
            return
        rep = {'grid_canonical': repr(codec.canon(g))[:4000], 'dumped': txt[:4000]}
        if not txt.endswith('\n'):
            ctx.violation('impl-counterexample', 'the document does not end with a newline', rep)
            return
        try:
            back = zincspec.read_grid(txt)
        except (zincspec.ZincSpecError, ValueError) as e:
            ctx.violation('impl-counterexample', 'the independent reader rejects the output: %s' % e, rep)
            return
        want = zincsim.expected_z(g)
        if back != want:
            ctx.violation('impl-counterexample', 'the independent reader recovers another grid: %r, expected %r' % _diff(back, want), rep)
            return
        if not corr and a != ['ok', txt]:
            ctx.violation('correspondence-broken', 'model of the ZINC writer differs from the implementation: model %r' % (repr(a)[:400],),
                          dict(rep, component='zdump'))
            corr = True
        ctx.coverage['traces_validated_against_impl'] += 1
        if len(txt) > 30:
            seen.add(txt)
    # date-times whose tzinfo is not one of the mapped zones (fixed offsets), at wall-clock times that zones with that standard
    # offset skip or repeat: the writer has to name a zone, and the document must be consistent - the zone it names has the
    # written offset at the written instant (or the writer refuses with ValueError)
    import datetime
    import pytz
    from hszinc import zoneinfo as _zi
    tzmap = sorted(_zi.get_tz_map().items())
    olson_of = dict(tzmap)
    fcases = []
    for hay, olson in tzmap:
        tz = pytz.timezone(olson)
        tts = [(t, i) for t, i in zip(getattr(tz, '_utc_transition_times', []), getattr(tz, '_transition_info', [])) if 1990 <= t.year <= 2030]
        for (t, info), (tprev, iprev) in list(zip(tts[1:], tts[:-1]))[-(6 if thorough else 2):]:
            o_before, o_after = iprev[0], info[0]
            lo, hi = sorted([t + o_before, t + o_after])
            mid = (lo + (hi - lo) / 2).replace(microsecond=0)
            for off in (o_before, o_after):
                if off.total_seconds() % 60 == 0:
                    fcases.append(mid.replace(tzinfo=datetime.timezone(off)))
    fcases = list(dict.fromkeys(fcases))
    for dt in fcases:
        ctx.coverage['evaluations'] += 1
        ctx.count('foreign-tzinfo-datetime')
        rep = {'value': dt.isoformat(), 'python': 'hszinc.dump_scalar(datetime.fromisoformat(%r))' % dt.isoformat()}
        try:
            txt = h.dump_scalar(dt)
        except ValueError:
            ctx.count('foreign-tzinfo-datetime:refused')
            continue
        except Exception as e:  # noqa
            ctx.violation('impl-counterexample', 'writing the date-time %s raised %s' % (dt.isoformat(), type(e).__name__), rep)
            return
        try:
            back = zincspec.read_scalar(txt, False)
        except (zincspec.ZincSpecError, ValueError) as e:
            ctx.violation('impl-counterexample', 'the independent reader rejects the date-time %r: %s' % (txt, e), dict(rep, dumped=txt))
            return
        inst = dt.astimezone(datetime.timezone.utc)
        if back[0] != 'dt-spec' or datetime.datetime.fromisoformat(back[1]) != inst or back[2] != int(dt.utcoffset().total_seconds()):
            ctx.violation('impl-counterexample', 'the date-time %s was written as %r, which denotes %r' % (dt.isoformat(), txt, back), dict(rep, dumped=txt))
            return
        zone = back[3]
        if zone is not None and zone != 'UTC':
            if zone not in olson_of:
                ctx.violation('impl-counterexample', 'the date-time %s was written with the zone %r, which is not a Haystack zone' % (dt.isoformat(), zone), dict(rep, dumped=txt))
                return
            zoff = int(inst.astimezone(pytz.timezone(olson_of[zone])).utcoffset().total_seconds())
            if zoff != back[2]:
                ctx.violation('impl-counterexample', 'the date-time %s was written as %r: zone %s has the offset %d s at that instant, the text says %d s'
                              % (dt.isoformat(), txt, zone, zoff, back[2]), dict(rep, dumped=txt))
                return
    # rows are dicts: the same grid with its row dicts built in another key order must be written as the same text
    twins = 0
    for g in gs:
        if twins >= (4000 if thorough else 300):
            break
        g2 = codec.shuffled_rows_twin(rng, g)
        if g2 is None:
            continue
        twins += 1
        ctx.coverage['evaluations'] += 1
        t1, t2 = h.dump(g), h.dump(g2)
        if t1 != t2:
            ctx.violation('impl-counterexample', 'the same grid with its row dicts built in another key order is written differently (cells under other columns)',
                          {'grid_canonical': repr(codec.canon(g))[:3000], 'rows_as_given': repr([list(r.keys()) for r in g2])[:1000],
                           'dumped': t2[:3000], 'dumped_in_column_order': t1[:3000]})
            return
    ctx.count('row-key-order twins', twins)
    ctx.sample({'dumped': sorted(seen, key=len)[len(seen) // 2][:1500] if seen else ''})
    ctx.coverage['distinct_nontrivial'] = len(seen)


def _diff(a, b):
    if isinstance(a, tuple) and isinstance(b, tuple) and len(a) == len(b):
        for x, y in zip(a, b):
            if x != y:
                return _diff(x, y)
    return (a, b)


def replay(ctx, data):
    print(data.get('dumped', '')[:2000])
    run(ctx)
