"""C07 - anything parsed can be re-dumped, transcoded and re-parsed unchanged.

Theorems: coq/theories/Props/C07.v (compositions of the codec models).
Tie: the reader models vs hszinc.parse on the documents of C03 / C05 (parser-made
objects: fixed-offset tzinfo, ordered metadata, non-official version strings).
Search on the implementation: every parsed grid dumps in both formats without
error; parse(dump(g, m)) equals g; ZINC->JSON->ZINC and JSON->ZINC->JSON are
lossless up to the JSON six-decimal rule; dumping does not modify the grid and is
deterministic; parse-then-dump is idempotent character for character."""
import json
import random

import codec
import jsonsim
import zincsim
from props import c03, c05

COMPONENTS = ['escape', 'version', 'json']

KNOWN = {
    'c07-unmapped-offset': 'a date-time read without zone name whose UTC offset no mapped zone has at that instant '
                           '(e.g. 2020-06-01T12:00:00+10:07) cannot be dumped again: timezone_name raises ValueError',
}


def six_all(c):
    """canonical form -> canonical form with every number / coordinate cut to six decimals"""
    if isinstance(c, tuple):
        if c and c[0] == 'num' and c[1] != 'nan':
            import struct
            x = struct.unpack('>d', bytes.fromhex(c[1]))[0]
            return ('num', codec.fbits(jsonsim.six(x)), c[2] if c[2] else None)
        if c and c[0] == 'coord':
            import struct
            a, b = (struct.unpack('>d', bytes.fromhex(v))[0] for v in c[1:3])
            return ('coord', codec.fbits(jsonsim.six(a)), codec.fbits(jsonsim.six(b)))
        return tuple(six_all(x) for x in c)
    return c


def full(c):
    return jsonsim.canon_rows_full(c)


def norm_dt(c):
    """date-times compared by instant, offset and Haystack zone (a zone-less fixed offset acquires the matching zone on re-dump)"""
    if isinstance(c, tuple):
        if c and c[0] == 'dt':
            return ('dt', c[1], c[2])
        return tuple(norm_dt(x) for x in c)
    return c


import re
BIN_OK = re.compile(r'[\x20-\x27\x2a-\x7f]*\Z')


UNIT_OK = re.compile('[a-zA-Z%_/$\x80-\ufffe]+\\Z')
REF_OK = re.compile(r'[a-zA-Z0-9_:\-.~]*\Z')


def in_domain(c):
    """Haystack value domain shared by both formats: a Bin payload is a MIME type (ZINC's Bin alphabet),
    a unit is made of unit characters and sits on a finite number, a Ref name of Ref characters."""
    if isinstance(c, tuple):
        if c and c[0] == 'bin':
            return bool(BIN_OK.match(c[1]))
        if c and c[0] == 'num' and len(c) == 3 and c[2]:
            # a unit on INF / NaN has no ZINC spelling either (e.g. the JSON token n:1.798E308 kW/h overflows to INF)
            return bool(UNIT_OK.match(c[2])) and c[1] not in ('nan', codec.fbits(float('inf')), codec.fbits(float('-inf')))
        if c and c[0] == 'ref':
            return bool(REF_OK.match(c[1]))
        return all(in_domain(x) for x in c)
    return True


def unmapped_offset_only(h, g):
    """every date-time of the grid that timezone_name() cannot name really has an offset that no mapped zone has at that instant"""
    import datetime
    import pytz
    from hszinc import zoneinfo
    found = False

    def walk(v):
        nonlocal found
        if isinstance(v, datetime.datetime) and v.tzinfo is not None:
            try:
                zoneinfo.timezone_name(v)
            except ValueError:
                off = v.utcoffset()
                for olson in zoneinfo.get_tz_map().values():
                    if v.astimezone(pytz.utc).astimezone(pytz.timezone(olson)).utcoffset() == off:
                        return False       # a zone does have that offset at that instant: not the known finding
                found = True
        elif isinstance(v, list):
            return all(walk(x) is not False for x in v)
        elif isinstance(v, h.Grid):
            return unmapped_offset_only(h, v) is not False
        elif hasattr(v, 'values') and not isinstance(v, str):
            return all(walk(x) is not False for x in v.values())
        return True
    ok = all(walk(x) is not False for x in g.metadata.values())
    for c, m in g.column.items():
        ok = ok and all(walk(x) is not False for x in m.values())
    for row in g:
        ok = ok and all(walk(x) is not False for x in row.values())
    return ok and found


def run(ctx):
    h = codec.H()
    rng = random.Random(ctx.seed + 7)
    thorough = ctx.tier == 'thorough' or ctx.escalate
    n = 6000 if thorough else 300
    ctx.coverage['rule'] = ('documents of the independent writers of C03 (ZINC) and C05 (JSON), incl. zone-less date-times, non-official versions 2.5 / 3.0.0 / 1.0 / 4.0, '
                            'pushed through parse -> dump (both formats) -> parse -> dump; distinct by source document')
    docs = []
    for _ in range(n):
        ver = rng.choice(['2.0', '3.0', '3.0', '3.0', '2.5', '3.0.0', '1.0', '4.0', '3', '2', '4', '3.1', '2.0.0'])
        base = '2.0' if ver in ('2.0', '1.0', '2', '2.0.0') else '3.0'
        if rng.random() < 0.5:
            t, _ = c03.spell_grid(rng, base, rng.choice([0, 1, 2]))
            docs.append((h.MODE_ZINC, t.replace('ver:"%s"' % base, 'ver:"%s"' % ver, 1)))
        else:
            tree, _ = c05.spell_grid(rng, base, rng.choice([0, 1, 2]))
            tree['meta']['ver'] = ver
            docs.append((h.MODE_JSON, json.dumps(tree)))
    # zone-less date-times (the reader gives them a fixed-offset tzinfo) inside the skipped / repeated local hour of a zone
    # that has the same standard offset: the writer must name a zone that has that offset AT THAT INSTANT
    import datetime
    import pytz
    zl = []
    for zname in rng.sample(sorted(pytz.common_timezones), 60 if thorough else 25) + ['America/Anchorage', 'America/New_York', 'Europe/Paris', 'Australia/Lord_Howe']:
        tz = pytz.timezone(zname)
        tt = [t for t in getattr(tz, '_utc_transition_times', []) if 1972 <= t.year <= 2036]
        for t in rng.sample(tt, min(len(tt), 3)):
            for before in (True, False):
                probe = pytz.utc.localize(t + datetime.timedelta(minutes=-30 if before else 30))
                for off in {tz.utcoffset(t - datetime.timedelta(days=2), is_dst=False), tz.utcoffset(t + datetime.timedelta(days=2), is_dst=False)}:
                    if off is None or off.total_seconds() % 60 or off.total_seconds() == 0:
                        continue
                    loc = probe.astimezone(datetime.timezone(off))
                    zl.append(loc.isoformat())
    for iso in dict.fromkeys(zl):
        docs.append((h.MODE_ZINC, 'ver:"3.0"\nts,n\n%s,1\n' % iso))
        docs.append((h.MODE_JSON, json.dumps({'meta': {'ver': '3.0'}, 'cols': [{'name': 'ts'}], 'rows': [{'ts': 't:' + iso}]})))
    seen = set()
    import warnings
    warnings.simplefilter('ignore')
    for mode, text in docs:
        ctx.coverage['evaluations'] += 1
        rep = {'mode': mode, 'document': text[:4000]}
        try:
            g = h.parse(text, mode=mode)
        except Exception as e:  # noqa
            ctx.violation('impl-counterexample', 'a well-formed %s document was rejected: %s' % (mode, type(e).__name__), rep)
            return
        before = codec.canon(g)
        if not in_domain(before):
            ctx.count('skipped:value-outside-the-shared-haystack-domain')
            continue
        outs = {}
        for m2 in (h.MODE_ZINC, h.MODE_JSON):
            try:
                d1 = h.dump(g, mode=m2)
                d2 = h.dump(g, mode=m2)
            except Exception as e:  # noqa
                if isinstance(e, ValueError) and 'Unable to get timezone' in str(e) and unmapped_offset_only(h, g):
                    # the known finding: no mapped zone has that offset at that instant, and ZINC / JSON need a zone name
                    ctx.known('c07-unmapped-offset', KNOWN['c07-unmapped-offset'], rep)
                    ctx.count('known:unmapped-offset')
                    outs = None
                    break
                ctx.violation('impl-counterexample', 'a parsed grid cannot be dumped as %s: %s: %s' % (m2, type(e).__name__, e), rep)
                return
            if codec.canon(g) != before:
                ctx.violation('impl-counterexample', 'dumping (%s) modified the grid' % m2, rep)
                return
            if d1 != d2:
                ctx.violation('impl-counterexample', 'two dumps of one grid differ (%s)' % m2, rep)
                return
            outs[m2] = d1
            try:
                g2 = h.parse(d1, mode=m2)
            except Exception as e:  # noqa
                ctx.violation('impl-counterexample', 'the %s dump of a parsed grid cannot be parsed: %s' % (m2, type(e).__name__), dict(rep, dumped=d1[:3000]))
                return
            a, b = norm_dt(full(codec.canon(g2))), norm_dt(full(before))
            if m2 == h.MODE_JSON or mode == h.MODE_JSON:
                a, b = six_all(a), six_all(b)
            if a != b:
                ctx.violation('impl-counterexample', 'parse(dump(g, %s)) differs from g: %r vs %r' % ((m2,) + _diff(a, b)), dict(rep, dumped=d1[:3000]))
                return
            # idempotent normalisation: dump(parse(dump(parse(t)))) == dump(parse(t))
            d3 = h.dump(g2, mode=m2)
            if d3 != d1:
                ctx.violation('impl-counterexample', 'parse-then-dump (%s) is not idempotent' % m2, dict(rep, once=d1[:3000], twice=d3[:3000]))
                return
        if outs is None:
            continue
        # ZINC -> JSON -> ZINC and JSON -> ZINC -> JSON
        z1 = outs[h.MODE_ZINC]
        j_of_z = h.dump(h.parse(z1, mode=h.MODE_ZINC), mode=h.MODE_JSON)
        z_back = h.parse(h.dump(h.parse(j_of_z, mode=h.MODE_JSON), mode=h.MODE_ZINC), mode=h.MODE_ZINC)
        if six_all(norm_dt(full(codec.canon(z_back)))) != six_all(norm_dt(full(before))):
            ctx.violation('impl-counterexample', 'ZINC->JSON->ZINC is lossy', rep)
            return
        j1 = outs[h.MODE_JSON]
        z_of_j = h.dump(h.parse(j1, mode=h.MODE_JSON), mode=h.MODE_ZINC)
        j_back = h.parse(h.dump(h.parse(z_of_j, mode=h.MODE_ZINC), mode=h.MODE_JSON), mode=h.MODE_JSON)
        if six_all(norm_dt(full(codec.canon(j_back)))) != six_all(norm_dt(full(before))):
            ctx.violation('impl-counterexample', 'JSON->ZINC->JSON is lossy', rep)
            return
        ctx.coverage['traces_validated_against_impl'] += 1
        seen.add(text)
        ctx.count('source:' + mode)
    # correspondence: the reader models on these documents
    ztexts = [t for m, t in docs if m == h.MODE_ZINC][:200]
    impl = zincsim.impl_parse_many(ztexts)
    model = zincsim.model_zparse(ctx, ztexts)
    for t, a, b in zip(ztexts, model, impl):
        if a[:2] != b[:2]:
            ctx.violation('correspondence-broken', 'model of the ZINC reader differs on a C07 document', {'document': t[:3000], 'component': 'zparse'})
            break
    # known finding: an offset that no mapped zone has
    probe = 'ver:"3.0"\nts\n2020-06-01T12:00:00+10:07\n'
    g = h.parse(probe)
    try:
        h.dump(g)
        ctx.notes.append('known finding c07-unmapped-offset no longer reproduces')
    except ValueError:
        ctx.known('c07-unmapped-offset', KNOWN['c07-unmapped-offset'])
    except Exception as e:  # noqa
        ctx.violation('impl-counterexample', 'dumping a zone-less date-time raised %s (not ValueError)' % type(e).__name__, {'document': probe})
        return
    ctx.sample({'document': sorted(seen, key=len)[len(seen) // 2][:1200]})
    ctx.coverage['distinct_nontrivial'] = len(seen)


def _diff(a, b):
    if isinstance(a, tuple) and isinstance(b, tuple) and len(a) == len(b):
        for x, y in zip(a, b):
            if x != y:
                return _diff(x, y)
    return (a, b)


def replay(ctx, data):
    print(data.get('document', '')[:2000])
    run(ctx)
