(* JSON reader: every well-formed grid object parses to the grid it denotes *)
From Coq Require Import String.
From Coq Require Import List NArith Bool Lia Arith.
From HS Require Import Base.Prelude Model.Value Model.Escape Model.Version Model.Json.
From HS Require Import Proofs.PreludeP Proofs.VersionP Proofs.JsonP Proofs.JsonGridP.
Import ListNotations.
Open Scope N_scope.

(* members that denote tagged values: same tags in the same order, each member value parsing to the tagged value *)
Definition denotes_items (g : nat) (p3 : bool) (lj : list (str * json)) (l : list (str * hval)) : Prop :=
  Forall2 (fun kj kv => fst kj = fst kv /\ jparse g p3 (snd kj) = Ok (snd kv)) lj l.

Lemma parse_items_denote g p3 lj l : denotes_items g p3 lj l -> parse_items g p3 lj = Ok l.
Proof.
  induction 1 as [|[k j] [k' v] lj l [Hk Hv] _ IH]; [reflexivity|]. cbn [fst snd] in *. subst k'.
  rewrite parse_items_cons, Hv. cbn [bind]. rewrite IH. reflexivity.
Qed.

(* a column object: a "name" member that is a string, anywhere; the other members denote the column's metadata *)
Definition denotes_col (g : nat) (p3 : bool) (cj : json) (c : str * list (str * hval)) : Prop :=
  exists o cm, cj = JObj o /\ assoc NAME o = Some (JStr (fst c)) /\ denotes_items g p3 (remove_key NAME o) cm /\ snd c = dict_of cm.
Lemma parse_cols_denote g p3 cs cols : Forall2 (denotes_col g p3) cs cols -> parse_cols g p3 cs = Ok cols.
Proof.
  induction 1 as [|cj [c cmv] cs cols [o [cm [Ej [Hn [Hi Hd]]]]] _ IH]; [reflexivity|]. cbn [fst snd] in *. subst cj cmv.
  rewrite parse_cols_cons, Hn, (parse_items_denote g p3 _ cm Hi). cbn [bind]. rewrite IH. reflexivity.
Qed.

(* a row object: any members (a row may leave columns out); they denote the row's cells *)
Definition denotes_row (g : nat) (p3 : bool) (rj : json) (row : list (str * hval)) : Prop :=
  exists o cells, rj = JObj o /\ denotes_items g p3 o cells /\ row = dict_of cells.
Lemma parse_rows_denote g p3 rs rows : Forall2 (denotes_row g p3) rs rows -> parse_rows g p3 rs = Ok rows.
Proof.
  induction 1 as [|rj row rs rows [o [cells [Ej [Hi Hd]]]] _ IH]; [reflexivity|]. subst rj row.
  rewrite parse_rows_cons, (parse_items_denote g p3 o cells Hi). cbn [bind]. rewrite IH. reflexivity.
Qed.

Definition ver_any (ver : str) (p3 : bool) : Prop := exists pv, parse_ver ver = Ok pv /\ pre3_of ver = Ok p3 /\ vstr pv = ver.

(* THE OBJECT: meta with a string "ver" member anywhere, cols, rows - rows may also be missing or null *)
Theorem json_object_denotes g ver p3 meta_j meta cs cols rows_j rows :
  ver_any ver p3 -> assoc VER meta_j = Some (JStr ver) -> denotes_items g p3 (remove_key VER meta_j) meta ->
  Forall2 (denotes_col g p3) cs cols ->
  (exists rs, rows_j = Some (JArr rs) /\ Forall2 (denotes_row g p3) rs rows) \/ ((rows_j = None \/ rows_j = Some JNull) /\ rows = []) ->
  jparse_grid (S g) ((s_ "meta"%string, JObj meta_j) :: (s_ "cols"%string, JArr cs) ::
                     match rows_j with Some r => [(s_ "rows"%string, r)] | None => [] end)
  = Ok (VGrid ver (dict_of meta) (dict_of cols) rows).
Proof.
  intros [pv [PV [P3 VS]]] Hv Hm Hc Hr. rewrite jparse_grid_unfold.
  assert (A1 : forall tl, assoc (s_ "meta"%string) ((s_ "meta"%string, JObj meta_j) :: tl) = Some (JObj meta_j)) by reflexivity.
  rewrite A1. fold VER. rewrite Hv, PV, P3. cbn [bind]. rewrite (parse_items_denote g p3 _ meta Hm). cbn [bind].
  assert (A2 : forall tl, assoc (s_ "cols"%string) ((s_ "meta"%string, JObj meta_j) :: (s_ "cols"%string, JArr cs) :: tl) = Some (JArr cs)) by reflexivity.
  rewrite A2, (parse_cols_denote g p3 cs cols Hc). cbn [bind]. rewrite VS.
  destruct Hr as [[rs [E Hrs]]|[[E|E] Er]]; subst rows_j.
  - assert (A3 : assoc (s_ "rows"%string) [(s_ "meta"%string, JObj meta_j); (s_ "cols"%string, JArr cs); (s_ "rows"%string, JArr rs)] = Some (JArr rs)) by reflexivity.
    rewrite A3, (parse_rows_denote g p3 rs rows Hrs). reflexivity.
  - subst rows. reflexivity.
  - subst rows. reflexivity.
Qed.
