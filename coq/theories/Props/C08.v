(* C08 - no string payload can alter grid structure (escaping is injective and
   contained).  Statements only; proofs in Proofs/EscapeP.v.
   The writer tables (STR_SUB, the STR_META / URI_META classes, the constants of
   str_sub / uri_sub) are regenerated from the source on every run; the proofs
   re-check them on every code point below 2^16 by computation and by a bound
   argument above. *)
From HS Require Import Base.Prelude Gen.EscapeData Model.Escape Proofs.EscapeP Proofs.EscapeGrammarP.
Open Scope N_scope.

(* every string, over ALL code points, can be written *)
Theorem C08_str_total : forall s, exists t, escape_str s = Ok t.
Proof. exact (esc_all_total DQ str_esc_letters false esc_str_char every_char_str). Qed.
Theorem C08_uri_total : forall s, exists t, escape_uri s = Ok t.
Proof. exact (esc_all_total BQ uri_esc_letters true esc_uri_char every_char_uri). Qed.

(* the reader's unescape inverts the writer's escape *)
Theorem C08_str_inverse : forall s t, escape_str s = Ok t -> unescape false t = Ok s.
Proof. exact (unescape_esc_all DQ str_esc_letters false esc_str_char dq_ne dq_32 every_char_str). Qed.
Theorem C08_uri_inverse : forall s t, escape_uri s = Ok t -> unescape true t = Ok s.
Proof. exact (unescape_esc_all BQ uri_esc_letters true esc_uri_char bq_ne bq_32 every_char_uri). Qed.

(* containment: whatever follows, the reader's string rule consumes exactly the
   written literal - the closing quote it finds is the writer's - and returns
   exactly the payload *)
Theorem C08_str_contained : forall s t rest,
  escape_str s = Ok t -> hs_str (DQ :: t ++ DQ :: rest) = Some (Ok s, rest).
Proof. exact (quoted_roundtrip DQ str_esc_letters false esc_str_char dq_ne dq_32 every_char_str). Qed.
Theorem C08_uri_contained : forall s t rest,
  escape_uri s = Ok t -> hs_uri (BQ :: t ++ BQ :: rest) = Some (Ok s, rest).
Proof. exact (quoted_roundtrip BQ uri_esc_letters true esc_uri_char bq_ne bq_32 every_char_uri). Qed.

(* no structural character: the escaped text holds no newline, CR or other control
   character, so neither the row separator nor parser.py's blank-line grid
   splitter can fire inside a cell *)
Theorem C08_no_structure_str : forall s t, escape_str s = Ok t -> forall x, In x t -> 32 <= x.
Proof. exact (all_ge32 DQ str_esc_letters false esc_str_char dq_ne dq_32 every_char_str). Qed.
Theorem C08_no_structure_uri : forall s t, escape_uri s = Ok t -> forall x, In x t -> 32 <= x.
Proof. exact (all_ge32 BQ uri_esc_letters true esc_uri_char bq_ne bq_32 every_char_uri). Qed.

(* injective *)
Theorem C08_injective : forall s1 s2 t, escape_str s1 = Ok t -> escape_str s2 = Ok t -> s1 = s2.
Proof.
  intros s1 s2 t H1 H2. apply C08_str_inverse in H1. apply C08_str_inverse in H2. congruence.
Qed.
Theorem C08_injective_uri : forall s1 s2 t, escape_uri s1 = Ok t -> escape_uri s2 = Ok t -> s1 = s2.
Proof.
  intros s1 s2 t H1 H2. apply C08_uri_inverse in H1. apply C08_uri_inverse in H2. congruence.
Qed.

(* non-vacuity: quote, backslash, dollar, newline, NUL, U+00E9, a non-BMP code point, a backquote *)
Example C08_example :
  escape_str [97; 34; 92; 36; 10; 0; 233; 128512; 96]
  = Ok [97; 92;34; 92;92; 92;36; 92;110; 92;117;48;48;48;48; 92;117;48;48;101;57; 128512; 96].
Proof. vm_compute. reflexivity. Qed.

(* what is written between the quotes is a sequence of the grammar's literal characters and escapes and nothing else
   (the literal production as an inductive relation, Proofs/EscapeGrammarP.v, independent of the reader): no raw quote, no
   raw backslash, no control character can stand there, whatever the payload *)
Theorem C08_written_string_in_grammar : forall s t, zdump_str s = Ok t -> literal DQ str_esc_letters t.
Proof. exact written_string_in_grammar. Qed.
Theorem C08_written_uri_in_grammar : forall s t, zdump_uri s = Ok t -> literal BQ uri_esc_letters t.
Proof. exact written_uri_in_grammar. Qed.
Print Assumptions C08_written_string_in_grammar.
Print Assumptions C08_written_uri_in_grammar.
