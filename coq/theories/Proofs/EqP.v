(* Proofs about Model/Eq.v (property C19). *)
From Coq Require Import Lia.
From HS Require Import Base.Prelude Model.Eq Proofs.PreludeP.
Open Scope Z_scope.

Definition flat (v : hv) : bool := match v with HList _ | HDict _ => false | _ => true end.

(* values that contain no NaN *)
Definition nan_free (v : hv) : bool :=
  match v with
  | HNum n => negb (num_has_nan n)
  | HQty n _ => negb (num_has_nan n)
  | HCoord a b => negb (num_has_nan a) && negb (num_has_nan b)
  | _ => true
  end.

(* ------------------------------------------------------------------ *)
(* basic symmetric / reflexive facts *)

Lemma fin_cmp_sym m1 e1 m2 e2 : fin_cmp m2 e2 m1 e1 = CompOpp (fin_cmp m1 e1 m2 e2).
Proof. unfold fin_cmp. rewrite (Z.min_comm e2 e1). apply Z.compare_antisym. Qed.

Lemma num_eqb_sym a b : num_eqb a b = num_eqb b a.
Proof.
  destruct a as [m1 e1 f1|s1|], b as [m2 e2 f2|s2|]; simpl; auto.
  - rewrite (fin_cmp_sym m1 e1 m2 e2). destruct (fin_cmp m1 e1 m2 e2); reflexivity.
  - destruct s1, s2; reflexivity.
Qed.

Lemma num_eqb_refl a : num_has_nan a = false -> num_eqb a a = true.
Proof.
  destruct a as [m e f|s|]; simpl; intros H; try discriminate.
  - unfold fin_cmp. now rewrite Z.compare_refl.
  - destruct s; reflexivity.
Qed.

Lemma opt_str_eqb_sym a b : opt_str_eqb a b = opt_str_eqb b a.
Proof. destruct a, b; simpl; auto. apply str_eqb_sym. Qed.

Lemma opt_str_eqb_refl a : opt_str_eqb a a = true.
Proof. destruct a; simpl; auto. apply str_eqb_refl. Qed.

Lemma opt_str_eqb_eq a b : opt_str_eqb a b = true <-> a = b.
Proof.
  destruct a, b; simpl; split; intro H; try discriminate; auto.
  - apply str_eqb_eq in H. now subst.
  - inversion H; subst. apply str_eqb_refl.
Qed.

Lemma bool_eqb_sym a b : Bool.eqb a b = Bool.eqb b a.
Proof. destruct a, b; reflexivity. Qed.

Lemma list_eqb_N_sym a b : list_eqb N.eqb a b = list_eqb N.eqb b a.
Proof.
  revert b; induction a as [|x a IH]; intros [|y b]; simpl; auto.
  rewrite N.eqb_sym, IH. reflexivity.
Qed.

Lemma list_eqb_N_refl a : list_eqb N.eqb a a = true.
Proof. induction a; simpl; auto. now rewrite N.eqb_refl. Qed.

Lemma xdata_eqb_sym a b : xdata_eqb a b = xdata_eqb b a.
Proof. destruct a, b; simpl; auto using list_eqb_N_sym, str_eqb_sym. Qed.

Lemma xdata_eqb_refl a : xdata_eqb a a = true.
Proof. destruct a; simpl; auto using list_eqb_N_refl, str_eqb_refl. Qed.

Lemma dt_eqb_sym d1 u1 o1 d2 u2 o2 : dt_eqb d1 u1 o1 d2 u2 o2 = dt_eqb d2 u2 o2 d1 u1 o1.
Proof.
  unfold dt_eqb. destruct o1, o2; auto.
  - apply Z.eqb_sym.
  - now rewrite (Z.eqb_sym d1 d2), (Z.eqb_sym u1 u2).
Qed.

Lemma dt_eqb_refl d u o : dt_eqb d u o d u o = true.
Proof. unfold dt_eqb. destruct o; now rewrite ?Z.eqb_refl. Qed.

(* ------------------------------------------------------------------ *)
(* on flat values the recursive knot is never used *)

Lemma py_eq_flat a b R : flat a = true -> flat b = true -> py_eq a b = pyeq R a b.
Proof. destruct a, b; simpl; intros; try discriminate; reflexivity. Qed.

Lemma py_ne_flat a b R : flat a = true -> flat b = true -> py_ne a b = pyne R a b.
Proof. destruct a, b; simpl; intros; try discriminate; reflexivity. Qed.

Definition R0 : hv -> hv -> res bool := fun _ _ => Ok false.

Ltac sym_rewrites :=
  repeat first
    [ rewrite (num_eqb_sym _ _) at 1; reflexivity
    | reflexivity ].

(* symmetry *)
Ltac destruct_hv a b :=
  destruct a as [ | ba | na | sa | sa | sa | na va ha | ea da | va ua | laa loa | | | | da | usa awa | da usa oa tza | la | dca ],
           b as [ | bb | nb | sb | sb | sb | nb vb hb | eb db | vb ub | lab lob | | | | db | usb awb | db usb ob tzb | lb | dcb ].

Ltac sym_all :=
  try match goal with |- context [num_eqb ?x ?y] => rewrite (num_eqb_sym x y) end;
  try match goal with |- context [str_eqb ?x ?y] => rewrite (str_eqb_sym x y) end;
  try match goal with |- context [opt_str_eqb ?x ?y] => rewrite (opt_str_eqb_sym x y) end;
  try match goal with |- context [Bool.eqb ?x ?y] => rewrite (bool_eqb_sym x y) end;
  try match goal with |- context [xdata_eqb ?x ?y] => rewrite (xdata_eqb_sym x y) end;
  try match goal with |- context [Z.eqb ?x ?y] => rewrite (Z.eqb_sym x y) end;
  try match goal with |- context [dt_eqb ?a ?b ?c ?d ?e ?f] => rewrite (dt_eqb_sym a b c d e f) end.

Ltac eq_cbn := unfold pyeq, pyne, method_ne; cbn [method_eq subclass_first as_num is_strlike str_of same_object of_bool cneg].

Lemma pyeq_sym a b : flat a = true -> flat b = true -> pyeq R0 a b = pyeq R0 b a.
Proof.
  intros Fa Fb.
  destruct_hv a b; try discriminate; eq_cbn; try reflexivity.
  all: try (sym_all; reflexivity).
  - (* Coordinate: two numeric comparisons *)
    rewrite (num_eqb_sym laa lab), (num_eqb_sym loa lob). reflexivity.
Qed.

(* != is the complement of == (and raises exactly when == does) *)
Definition neg_res (r : res bool) : res bool :=
  match r with Ok b => Ok (negb b) | Raise e => Raise e end.

Lemma pyne_compl a b : flat a = true -> flat b = true -> pyne R0 a b = neg_res (pyeq R0 a b).
Proof.
  intros Fa Fb.
  destruct_hv a b; try discriminate; eq_cbn; try reflexivity.
  all: try (match goal with |- context [of_bool ?c] => destruct c end; reflexivity).
  all: try (match goal with |- context [opt_str_eqb ?x ?y] => destruct (opt_str_eqb x y) end; try reflexivity;
            match goal with |- context [num_eqb ?x ?y] => destruct (num_eqb x y) end; reflexivity).
  all: match goal with |- context [num_eqb ?x ?y] => destruct (num_eqb x y) end; reflexivity.
Qed.

(* reflexivity for NaN-free values *)
Lemma pyeq_refl a : flat a = true -> nan_free a = true -> pyeq R0 a a = Ok true.
Proof.
  intros Fa Hn.
  destruct a as [ | ba | na | sa | sa | sa | na va ha | ea da | va ua | laa loa | | | | da | usa awa | da usa oa tza | la | dca ];
    try discriminate; eq_cbn; simpl in Hn; try reflexivity.
  - destruct ba; reflexivity.
  - apply negb_true_iff in Hn. now rewrite (num_eqb_refl na Hn).
  - now rewrite str_eqb_refl.
  - now rewrite str_eqb_refl.
  - now rewrite str_eqb_refl.
  - rewrite str_eqb_refl, opt_str_eqb_refl. destruct ha; reflexivity.
  - now rewrite xdata_eqb_refl.
  - apply negb_true_iff in Hn. now rewrite opt_str_eqb_refl, (num_eqb_refl va Hn).
  - apply andb_true_iff in Hn as [H1 H2]. apply negb_true_iff in H1, H2.
    now rewrite (num_eqb_refl laa H1), (num_eqb_refl loa H2).
  - now rewrite Z.eqb_refl.
  - rewrite Z.eqb_refl. destruct awa; reflexivity.
  - now rewrite dt_eqb_refl.
Qed.

(* the only exception: two Quantities whose units differ, and then TypeError *)
Lemma pyeq_raises a b e : flat a = true -> flat b = true -> pyeq R0 a b = Raise e ->
  e = TypeError /\ exists v u w u', a = HQty v u /\ b = HQty w u' /\ u <> u'.
Proof.
  intros Fa Fb.
  destruct_hv a b; try discriminate; eq_cbn; try discriminate;
    try (match goal with |- context [of_bool ?c] => destruct c end; discriminate).
  destruct (opt_str_eqb ub ua) eqn:E.
  - destruct (num_eqb va vb); discriminate.
  - intros H; inversion H; subst. split; auto. exists va, ua, vb, ub. repeat split; auto.
    intro; subst. rewrite opt_str_eqb_refl in E. discriminate.
Qed.

(* Quantities with the same unit never raise; different units always do *)
Lemma pyeq_qty v u w u' :
  pyeq R0 (HQty v u) (HQty w u') = if opt_str_eqb u' u then Ok (num_eqb v w) else Raise TypeError.
Proof. eq_cbn. destruct (opt_str_eqb u' u); [destruct (num_eqb v w)|]; reflexivity. Qed.

(* kind awareness of the text-like kinds and of Ref display names *)
Definition textlike (v : hv) : bool := is_strlike v.
Definition same_ctor (a b : hv) : bool :=
  match a, b with
  | HStr _, HStr _ | HUri _, HUri _ | HBin _, HBin _ => true
  | _, _ => false
  end.

Lemma pyeq_text_kinds a b :
  textlike a = true -> textlike b = true -> same_ctor a b = false ->
  pyeq R0 a b = Ok false /\ pyne R0 a b = Ok true.
Proof.
  destruct a, b; simpl; intros; try discriminate; split; reflexivity.
Qed.

Lemma pyeq_ref_display n d :
  pyeq R0 (HRef n None false) (HRef n (Some d) true) = Ok false /\
  pyne R0 (HRef n None false) (HRef n (Some d) true) = Ok true /\
  pyeq R0 (HRef n (Some d) true) (HRef n None false) = Ok false.
Proof. eq_cbn. rewrite str_eqb_refl. simpl. auto. Qed.

(* ------------------------------------------------------------------ *)
(* hash: equal values of one kind have equal hash keys, numbers up to numeric equality
   (equal numbers hash equally in CPython) *)

Definition num_eqv (a b : num) : bool :=
  match a, b with NNan, NNan => true | _, _ => num_eqb a b end.

Definition hkey_eqv (a b : hkey) : bool :=
  match a, b with
  | KNone, KNone => true
  | KNum x, KNum y => num_eqv x y
  | KStr x, KStr y => str_eqb x y
  | KRef n v h, KRef n' v' h' => str_eqb n n' && opt_str_eqb v v' && Bool.eqb h h'
  | KQty x u, KQty y u' => num_eqv x y && opt_str_eqb u u'
  | KCoord a1 b1, KCoord a2 b2 => num_eqv a1 a2 && num_eqv b1 b2
  | KSingleton x, KSingleton y => N.eqb x y
  | KDate x, KDate y => Z.eqb x y
  | KTime u a, KTime u' a' => Z.eqb u u' && Bool.eqb a a'
  | KDateTime i n, KDateTime i' n' => Z.eqb i i' && Bool.eqb n n'
  | _, _ => false
  end.

(* the key before canonicalisation of numbers (canon_num only picks the
   representative that is printed on the wire) *)
Definition hash_key0 (v : hv) : option hkey :=
  match v with
  | HNone => Some KNone
  | HBool b => Some (KNum (NFin (if b then 1 else 0) 0 false))
  | HNum n => Some (KNum n)
  | HStr s => Some (KStr s)
  | HUri _ | HBin _ | HXStr _ _ | HList _ | HDict _ => None
  | HRef n v h => Some (KRef n v h)
  | HQty n u => Some (KQty n u)
  | HCoord a b => Some (KCoord a b)
  | HMarker => Some (KSingleton 1) | HNA => Some (KSingleton 2) | HRemove => Some (KSingleton 3)
  | HDate d => Some (KDate d)
  | HTime u aw => Some (KTime u aw)
  | HDateTime d u o _ => Some (match o with
                               | Some off => KDateTime (d * 86400000000 + u - off * 1000000) false
                               | None => KDateTime (d * 86400000000 + u) true
                               end)
  end.

Definition same_kind (a b : hv) : bool :=
  match a, b with
  | HNone, HNone | HBool _, HBool _ | HNum _, HNum _ | HStr _, HStr _ | HRef _ _ _, HRef _ _ _
  | HQty _ _, HQty _ _ | HCoord _ _, HCoord _ _ | HMarker, HMarker | HNA, HNA | HRemove, HRemove
  | HDate _, HDate _ | HTime _ _, HTime _ _ | HDateTime _ _ _ _, HDateTime _ _ _ _ => true
  | _, _ => false
  end.

Lemma num_eqb_eqv a b : num_eqb a b = true -> num_eqv a b = true.
Proof. destruct a, b; simpl; auto. Qed.

Lemma hash_law a b ka kb :
  same_kind a b = true -> pyeq R0 a b = Ok true ->
  hash_key0 a = Some ka -> hash_key0 b = Some kb -> hkey_eqv ka kb = true.
Proof.
  destruct_hv a b; simpl; try discriminate; intros _; eq_cbn; intros He Ha Hb;
    inversion Ha; inversion Hb; subst; simpl; auto.
  - destruct ba, bb; simpl in *; auto; discriminate.
  - destruct (num_eqb na nb) eqn:E; [now apply num_eqb_eqv | discriminate].
  - destruct (str_eqb sa sb); [reflexivity | discriminate].
  - destruct (str_eqb na nb), (Bool.eqb ha hb) eqn:E2, (opt_str_eqb va vb); simpl in *; try discriminate.
    reflexivity.
  - destruct (opt_str_eqb ub ua) eqn:E1; [|discriminate].
    destruct (num_eqb va vb) eqn:E2; [|discriminate].
    rewrite (num_eqb_eqv _ _ E2), opt_str_eqb_sym, E1. reflexivity.
  - destruct (num_eqb laa lab) eqn:E1, (num_eqb loa lob) eqn:E2; simpl in *; try discriminate.
    now rewrite (num_eqb_eqv _ _ E1), (num_eqb_eqv _ _ E2).
  - destruct (Z.eqb da db); [reflexivity | discriminate].
  - destruct (Bool.eqb awa awb) eqn:E1, (Z.eqb usa usb) eqn:E2; simpl in *; try discriminate. reflexivity.
  - unfold dt_eqb in He. destruct oa, ob; simpl.
    + destruct (_ =? _) eqn:E; [reflexivity | discriminate].
    + discriminate.
    + discriminate.
    + destruct (Z.eqb da db) eqn:E1, (Z.eqb usa usb) eqn:E2; simpl in *; try discriminate.
      apply Z.eqb_eq in E1, E2. subst. now rewrite Z.eqb_refl.
Qed.

(* ------------------------------------------------------------------ *)
(* Grid._approx_check and Grid.__eq__ *)

Ltac split_bools :=
  repeat match goal with
         | |- context [of_bool ?c] => destruct c
         | |- context [if ?c then _ else _] => destruct c
         end.

Lemma py_eq_flat_total a b : flat a = true -> flat b = true ->
  (forall v u, a <> HQty v u) -> exists r, py_eq a b = Ok r.
Proof.
  intros Fa Fb Hq. rewrite (py_eq_flat a b R0 Fa Fb).
  destruct (pyeq R0 a b) as [r|e] eqn:E; eauto.
  destruct (pyeq_raises a b e Fa Fb E) as [_ [v [u [w [u' [Ha _]]]]]]. exfalso. eapply Hq; eauto.
Qed.

(* never an exception on flat values *)
Ltac crunch :=
  repeat match goal with
         | |- context [of_bool ?c] => destruct c
         | |- context [if ?c then _ else _] => destruct c
         | |- context [match ?c with Eq => _ | _ => _ end] => destruct c
         end.

Lemma approx_total v1 v2 : flat v1 = true -> flat v2 = true -> exists r, approx_check v1 v2 = Ok r.
Proof.
  intros F1 F2.
  destruct_hv v1 v2; try discriminate; cbn -[num_eqb num_close fin_cmp approx_num]; crunch; eauto.
  all: unfold pyeq; cbn [method_eq subclass_first as_num is_strlike str_of same_object];
    match goal with |- context [of_bool ?c] => destruct c end; simpl; eauto.
Qed.

(* a cell of another kind is never approximately equal *)
Definition ctor_id (v : hv) : N :=
  match v with
  | HNone => 0 | HBool _ => 1 | HNum _ => 2 | HStr _ => 3 | HUri _ => 4 | HBin _ => 5 | HRef _ _ _ => 6
  | HXStr _ _ => 7 | HQty _ _ => 8 | HCoord _ _ => 9 | HMarker => 10 | HNA => 11 | HRemove => 12
  | HDate _ => 13 | HTime _ _ => 14 | HDateTime _ _ _ _ => 15 | HList _ => 16 | HDict _ => 17
  end%N.

Ltac crunchH H :=
  do 4 (try match type of H with
            | context [if ?c then _ else _] => destruct c; try discriminate H
            end);
  try (unfold pyeq in H; cbn [method_eq subclass_first as_num is_strlike str_of same_object] in H);
  do 2 (try match type of H with
            | context [of_bool ?c] => destruct c; simpl in H; try discriminate H
            end);
  try discriminate H.

Lemma approx_kinds v1 v2 : flat v1 = true -> flat v2 = true ->
  approx_check v1 v2 = Ok true -> ctor_id v1 = ctor_id v2.
Proof.
  intros F1 F2.
  destruct_hv v1 v2; try discriminate; try reflexivity;
    cbn -[num_eqb num_close fin_cmp approx_num]; intros H; exfalso; crunchH H.
Qed.

Lemma num_close_refl_or a : num_has_nan a = false -> num_eqb a a || num_close a a = true.
Proof. intros H. now rewrite (num_eqb_refl a H). Qed.

Lemma approx_num_refl a : num_has_nan a = false -> approx_num a a = true.
Proof.
  intros H. unfold approx_num. destruct (num_isfloat a || num_isfloat a).
  - now apply num_close_refl_or.
  - now apply num_eqb_refl.
Qed.

Lemma approx_refl v : flat v = true -> nan_free v = true -> approx_check v v = Ok true.
Proof.
  intros F Hn.
  destruct v as [ | ba | na | sa | sa | sa | na va ha | ea da | va ua | laa loa | | | | da | usa awa | da usa oa tza | la | dca ];
    try discriminate; simpl in Hn; cbn -[num_eqb num_close fin_cmp approx_num py_eq]; try reflexivity.
  - destruct ba; reflexivity.
  - apply negb_true_iff in Hn. destruct (num_isfloat na).
    + now rewrite (num_eqb_refl na Hn).
    + rewrite (py_eq_flat _ _ R0) by reflexivity. apply pyeq_refl; simpl; auto. now rewrite Hn.
  - rewrite (py_eq_flat _ _ R0) by reflexivity. now apply pyeq_refl.
  - rewrite (py_eq_flat _ _ R0) by reflexivity. now apply pyeq_refl.
  - rewrite (py_eq_flat _ _ R0) by reflexivity. now apply pyeq_refl.
  - rewrite (py_eq_flat _ _ R0) by reflexivity. now apply pyeq_refl.
  - rewrite (py_eq_flat _ _ R0) by reflexivity. now apply pyeq_refl.
  - apply negb_true_iff in Hn. now rewrite opt_str_eqb_refl, (approx_num_refl va Hn).
  - apply andb_true_iff in Hn as [H1 H2]. apply negb_true_iff in H1, H2.
    now rewrite (approx_num_refl laa H1), (approx_num_refl loa H2).
  - rewrite (py_eq_flat _ _ R0) by reflexivity. now apply pyeq_refl.
  - destruct awa; now rewrite Z.eqb_refl.
  - now rewrite !Z.eqb_refl.
Qed.

(* ---- grids ---- *)
Definition flat_items (l : list (str * hv)) : Prop := forall k v, In (k, v) l -> flat v = true.
Definition clean_items (l : list (str * hv)) : Prop :=
  forall k v, In (k, v) l -> flat v = true /\ nan_free v = true.

Lemma keys_subset_lookup {A} (a b : list (str * A)) k v :
  keys_subset a b = true -> In (k, v) a -> exists w, lookup_any k b = Some w.
Proof.
  induction a as [|[k' v'] a IH]; simpl; intros Hs Hin; [tauto|].
  apply andb_true_iff in Hs as [H1 H2]. destruct Hin as [E|Hin]; [|auto].
  inversion E; subst. clear - H1. induction b as [|[y w] b IH]; simpl in *; [discriminate|].
  destruct (str_eqb_spec y k) as [Ey|Ey]; eauto.
Qed.

Lemma lookup_any_in {A} (b : list (str * A)) k w : lookup_any k b = Some w -> In (k, w) b.
Proof.
  induction b as [|[y v] b IH]; simpl; [discriminate|].
  destruct (str_eqb_spec y k) as [Ey|Ey]; intros H.
  - inversion H; subst. auto.
  - auto.
Qed.

Lemma approx_items_total a b :
  flat_items a -> flat_items b -> keys_subset a b = true -> exists r, approx_items a b = Ok r.
Proof.
  intros Fa Fb. induction a as [|[k v] a IH]; simpl; intros Hs; eauto.
  apply andb_true_iff in Hs as [H1 H2].
  destruct (keys_subset_lookup ((k, v) :: a) b k v) as [w Hw]; simpl; auto.
  { now rewrite H1, H2. }
  rewrite Hw. destruct (approx_total v w) as [r Hr].
  - eapply Fa; simpl; eauto.
  - eapply Fb. eapply lookup_any_in; eauto.
  - rewrite Hr. destruct r; eauto. apply IH; auto. intros k' v' Hin. eapply Fa; simpl; eauto.
Qed.

Definition flat_grid (g : ggrid) : Prop :=
  flat_items (gmeta g) /\ (forall c m, In (c, m) (gcols g) -> flat_items m) /\
  (forall r, In r (grows g) -> flat_items r).

Lemma row_get_flat r c : flat_items r -> flat (row_get r c) = true.
Proof.
  intros F. unfold row_get. destruct (lookup_any c r) eqn:E; auto.
  eapply F. eapply lookup_any_in; eauto.
Qed.

Lemma approx_row_total cols r1 r2 : flat_items r1 -> flat_items r2 -> exists r, approx_row cols r1 r2 = Ok r.
Proof.
  intros F1 F2. induction cols as [|c cols IH]; simpl; eauto.
  destruct (approx_total (row_get r1 c) (row_get r2 c)) as [r Hr]; auto using row_get_flat.
  rewrite Hr. destruct r; eauto.
Qed.

Lemma approx_rows_total cols a : forall b,
  (forall r, In r a -> flat_items r) -> (forall r, In r b -> flat_items r) ->
  exists r, approx_rows cols a b = Ok r.
Proof.
  induction a as [|r1 a IH]; intros [|r2 b] Fa Fb; simpl; eauto.
  destruct (approx_row_total cols r1 r2) as [r Hr]; [apply Fa; simpl; auto | apply Fb; simpl; auto |].
  rewrite Hr. destruct r; eauto. apply IH; intros; [apply Fa | apply Fb]; simpl; auto.
Qed.

Lemma approx_cols_total cols other :
  (forall c m, In (c, m) cols -> flat_items m) -> (forall c m, In (c, m) other -> flat_items m) ->
  keys_subset cols other = true -> exists r, approx_cols cols other = Ok r.
Proof.
  intros Fa Fb. induction cols as [|[c m] cols IH]; simpl; intros Hs; eauto.
  apply andb_true_iff in Hs as [H1 H2].
  destruct (keys_subset_lookup ((c, m) :: cols) other c m) as [m' Hm]; simpl; auto.
  { now rewrite H1, H2. }
  rewrite Hm. destruct (negb (Nat.eqb (length m) (length m')) || negb (same_keys m m')) eqn:E; eauto.
  apply orb_false_iff in E as [_ E2]. apply negb_false_iff in E2. unfold same_keys in E2.
  apply andb_true_iff in E2 as [E2 _].
  destruct (approx_items_total m m') as [r Hr]; auto.
  - eapply Fa; simpl; eauto.
  - eapply Fb. eapply lookup_any_in; eauto.
  - rewrite Hr. destruct r; eauto. apply IH; auto. intros c' m0 Hin. eapply Fa; simpl; eauto.
Qed.

(* comparing two grids never raises: it answers True or False *)
Lemma grid_eq_total g h : flat_grid g -> flat_grid h -> exists r, grid_eq g h = Ok r.
Proof.
  intros [Gm [Gc Gr]] [Hm [Hc Hr]]. unfold grid_eq.
  destruct (negb (same_keys (gmeta g) (gmeta h))) eqn:E1; eauto.
  apply negb_false_iff in E1. unfold same_keys in E1. apply andb_true_iff in E1 as [E1 _].
  destruct (approx_items_total (gmeta g) (gmeta h) Gm Hm E1) as [r1 R1]. rewrite R1.
  destruct r1; eauto.
  destruct (negb (same_keys (gcols g) (gcols h))) eqn:E2; eauto.
  apply negb_false_iff in E2. unfold same_keys in E2. apply andb_true_iff in E2 as [E2 _].
  destruct (approx_cols_total (gcols g) (gcols h) Gc Hc E2) as [r2 R2]. rewrite R2.
  destruct r2; eauto.
  destruct (negb (Nat.eqb (length (grows g)) (length (grows h)))); eauto.
  apply approx_rows_total; auto.
Qed.

(* grids with different row counts, or different column / metadata names, are unequal *)
Lemma grid_eq_rowcount g h r : grid_eq g h = Ok r -> length (grows g) <> length (grows h) -> r = false.
Proof.
  unfold grid_eq. intros H Hl.
  destruct (negb (same_keys (gmeta g) (gmeta h))); [inversion H; auto|].
  destruct (approx_items (gmeta g) (gmeta h)) as [[|]|]; try (inversion H; auto; fail).
  destruct (negb (same_keys (gcols g) (gcols h))); [inversion H; auto|].
  destruct (approx_cols (gcols g) (gcols h)) as [[|]|]; try (inversion H; auto; fail).
  destruct (Nat.eqb_spec (length (grows g)) (length (grows h))); [contradiction|].
  simpl in H. inversion H; auto.
Qed.

Lemma grid_eq_names g h r : grid_eq g h = Ok r ->
  same_keys (gmeta g) (gmeta h) = false \/ same_keys (gcols g) (gcols h) = false -> r = false.
Proof.
  unfold grid_eq. intros H [E|E].
  - rewrite E in H. simpl in H. inversion H; auto.
  - destruct (negb (same_keys (gmeta g) (gmeta h))); [inversion H; auto|].
    destruct (approx_items (gmeta g) (gmeta h)) as [[|]|]; try (inversion H; auto; fail).
    rewrite E in H. simpl in H. inversion H; auto.
Qed.

(* a true answer means every cell of every row is approximately equal (so a cell
   of another kind, or out of tolerance, makes the grids unequal) *)
Lemma approx_row_sound cols r1 r2 : approx_row cols r1 r2 = Ok true ->
  forall c, In c cols -> approx_check (row_get r1 c) (row_get r2 c) = Ok true.
Proof.
  induction cols as [|c0 cols IH]; simpl; intros H c Hin; [tauto|].
  destruct (approx_check (row_get r1 c0) (row_get r2 c0)) as [[|]|] eqn:E; try discriminate.
  destruct Hin as [->|Hin]; auto.
Qed.

Lemma approx_rows_sound cols : forall a b, approx_rows cols a b = Ok true -> length a = length b ->
  forall n r1 r2, nth_error a n = Some r1 -> nth_error b n = Some r2 -> approx_row cols r1 r2 = Ok true.
Proof.
  induction a as [|x a IH]; intros [|y b] H Hl n r1 r2 H1 H2; simpl in *; try discriminate.
  - destruct n; discriminate.
  - destruct (approx_row cols x y) as [[|]|] eqn:E; try discriminate.
    destruct n; simpl in *.
    + inversion H1; inversion H2; subst. exact E.
    + eapply IH; eauto.
Qed.

Lemma grid_eq_cells g h : grid_eq g h = Ok true ->
  length (grows g) = length (grows h) /\
  forall n r1 r2 c, nth_error (grows g) n = Some r1 -> nth_error (grows h) n = Some r2 ->
    In c (map fst (gcols g)) -> approx_check (row_get r1 c) (row_get r2 c) = Ok true.
Proof.
  unfold grid_eq. intros H.
  destruct (negb (same_keys (gmeta g) (gmeta h))); [discriminate|].
  destruct (approx_items (gmeta g) (gmeta h)) as [[|]|]; try discriminate.
  destruct (negb (same_keys (gcols g) (gcols h))); [discriminate|].
  destruct (approx_cols (gcols g) (gcols h)) as [[|]|]; try discriminate.
  destruct (Nat.eqb_spec (length (grows g)) (length (grows h))) as [El|El]; [|discriminate].
  simpl in H. split; auto. intros n r1 r2 c H1 H2 Hc.
  eapply approx_row_sound; eauto. eapply approx_rows_sound; eauto.
Qed.

(* ---- a grid equals a faithful copy of itself ---- *)
Lemma lookup_any_nodup {A} (l : list (str * A)) k v :
  NoDup (map fst l) -> In (k, v) l -> lookup_any k l = Some v.
Proof.
  induction l as [|[y w] l IH]; simpl; intros Hnd Hin; [tauto|].
  inversion Hnd; subst. destruct Hin as [E|Hin].
  - inversion E; subst. now rewrite str_eqb_refl.
  - destruct (str_eqb_spec y k) as [Ey|Ey]; [|auto].
    subst. exfalso. apply H1. apply in_map_iff. exists (k, v). auto.
Qed.

Lemma keys_subset_refl_gen {A} (a b : list (str * A)) :
  (forall kv, In kv a -> In kv b) -> keys_subset a b = true.
Proof.
  induction a as [|[k v] a IH]; simpl; intros H; auto.
  rewrite IH by (intros; apply H; auto). rewrite andb_true_r.
  apply existsb_exists. exists (k, v). split; [apply H; auto | apply str_eqb_refl].
Qed.

Lemma same_keys_refl {A} (a : list (str * A)) : same_keys a a = true.
Proof. unfold same_keys. now rewrite (keys_subset_refl_gen a a) by auto. Qed.

Lemma approx_items_refl_gen a b :
  NoDup (map fst b) -> clean_items a -> (forall kv, In kv a -> In kv b) -> approx_items a b = Ok true.
Proof.
  intros Hnd. induction a as [|[k v] a IH]; simpl; intros Hc Hsub; auto.
  rewrite (lookup_any_nodup b k v Hnd) by (apply Hsub; auto).
  destruct (Hc k v) as [Hf Hn]; [simpl; auto|]. rewrite (approx_refl v Hf Hn).
  apply IH.
  - intros k' v' Hin. apply (Hc k' v'). simpl; auto.
  - intros kv Hin. apply Hsub. simpl; auto.
Qed.

Definition clean_grid (g : ggrid) : Prop :=
  NoDup (map fst (gmeta g)) /\ clean_items (gmeta g) /\
  NoDup (map fst (gcols g)) /\ (forall c m, In (c, m) (gcols g) -> NoDup (map fst m) /\ clean_items m) /\
  (forall r, In r (grows g) -> clean_items r).

Lemma approx_cols_refl_gen cols other :
  NoDup (map fst other) -> (forall c m, In (c, m) cols -> NoDup (map fst m) /\ clean_items m) ->
  (forall cm, In cm cols -> In cm other) -> approx_cols cols other = Ok true.
Proof.
  intros Hnd. induction cols as [|[c m] cols IH]; simpl; intros Hc Hsub; auto.
  rewrite (lookup_any_nodup other c m Hnd) by (apply Hsub; auto).
  rewrite Nat.eqb_refl, same_keys_refl. simpl.
  destruct (Hc c m) as [Hn Hcl]; [simpl; auto|].
  rewrite (approx_items_refl_gen m m Hn Hcl) by auto.
  apply IH.
  - intros c' m' Hin. apply (Hc c' m'). simpl; auto.
  - intros cm Hin. apply Hsub. simpl; auto.
Qed.

Lemma row_get_clean r c : clean_items r -> flat (row_get r c) = true /\ nan_free (row_get r c) = true.
Proof.
  intros Hc. unfold row_get. destruct (lookup_any c r) eqn:E; [|auto].
  eapply Hc. eapply lookup_any_in; eauto.
Qed.

Lemma approx_row_refl cols r : clean_items r -> approx_row cols r r = Ok true.
Proof.
  intros Hc. induction cols as [|c cols IH]; simpl; auto.
  destruct (row_get_clean r c Hc) as [Hf Hn]. now rewrite (approx_refl _ Hf Hn).
Qed.

Lemma approx_rows_refl cols rs : (forall r, In r rs -> clean_items r) -> approx_rows cols rs rs = Ok true.
Proof.
  induction rs as [|r rs IH]; simpl; intros Hc; auto.
  rewrite approx_row_refl by (apply Hc; auto). apply IH. intros; apply Hc; auto.
Qed.

Lemma grid_eq_refl g : clean_grid g -> grid_eq g g = Ok true.
Proof.
  intros [Hm [Hmc [Hcn [Hcc Hr]]]]. unfold grid_eq.
  rewrite same_keys_refl. simpl.
  rewrite (approx_items_refl_gen (gmeta g) (gmeta g) Hm Hmc) by auto.
  rewrite same_keys_refl. simpl.
  rewrite (approx_cols_refl_gen (gcols g) (gcols g) Hcn Hcc) by auto.
  rewrite Nat.eqb_refl. simpl. now apply approx_rows_refl.
Qed.
