# /verif build: generated data -> Coq (.vo, proofs checked) -> extraction -> OCaml binary
SHELL := /bin/bash
COQDIR := coq
OCAMLDIR := ocaml
PY := /venv/bin/python
JOBS ?= 16

.PHONY: all setup srcdata coq model gate clean

all: model

srcdata:
	PYTHONDONTWRITEBYTECODE=1 $(PY) harness/srcdata.py

$(COQDIR)/Makefile: $(COQDIR)/_CoqProject
	cd $(COQDIR) && coq_makefile -f _CoqProject -o Makefile

# -k: a broken proof must not prevent the other properties' files (nor the model) from building
coq: $(COQDIR)/Makefile
	cd $(COQDIR) && timeout 3000 $(MAKE) -k -j$(JOBS) 2>&1 | tee build.log | grep -E "^(COQC|File|Error|make.*Error)" || true

model: coq
	@mkdir -p $(OCAMLDIR)/gen
	@if [ -f $(COQDIR)/hsmodel.ml ]; then mv -f $(COQDIR)/hsmodel.ml $(COQDIR)/hsmodel.mli $(OCAMLDIR)/gen/; fi
	@if [ ! -x $(OCAMLDIR)/hsmodel ] || [ $(OCAMLDIR)/gen/hsmodel.ml -nt $(OCAMLDIR)/hsmodel ] || [ $(OCAMLDIR)/driver.ml -nt $(OCAMLDIR)/hsmodel ]; then \
	  cd $(OCAMLDIR) && rm -rf _b && mkdir _b && cp gen/hsmodel.ml gen/hsmodel.mli driver.ml _b/ && cd _b && \
	  ocamlfind ocamlopt -O3 -w -a hsmodel.mli hsmodel.ml driver.ml -o ../hsmodel 2>/dev/null || \
	  ocamlfind ocamlopt -w -a hsmodel.mli hsmodel.ml driver.ml -o ../hsmodel ; fi

gate:
	@! grep -rnE "Admitted|admit\b|^\s*Axiom|^\s*Parameter|^\s*Conjecture|Unset Guard|bypass_check|type-in-type|Admit Obligations" $(COQDIR)/theories --include=*.v

setup: srcdata coq model gate

clean:
	-cd $(COQDIR) && $(MAKE) clean
	rm -rf $(OCAMLDIR)/_b $(OCAMLDIR)/hsmodel $(OCAMLDIR)/gen
