(* Numbers through the scalar alternation of the ZINC reader model *)
From Coq Require Import String.
From Coq Require Import List NArith Bool Lia Arith.
From HS Require Import Base.Prelude Model.Value Model.Escape Model.Version Model.Json Model.ZincParse.
From HS Require Import Proofs.VersionP Proofs.EscapeP Proofs.JsonP Proofs.ZincParseP.
Import ListNotations.
Open Scope N_scope.

Definition digs (d : str) : Prop := d <> [] /\ Forall (fun c => is_ascii_digit c = true) d.

Lemma adig_cases c : is_ascii_digit c = true ->
  c = 48 \/ c = 49 \/ c = 50 \/ c = 51 \/ c = 52 \/ c = 53 \/ c = 54 \/ c = 55 \/ c = 56 \/ c = 57.
Proof. unfold is_ascii_digit. intro H. apply andb_true_iff in H as [H1 H2]. apply N.leb_le in H1. apply N.leb_le in H2. lia. Qed.
Ltac dcases H := destruct (adig_cases _ H) as [?|[?|[?|[?|[?|[?|[?|[?|[?|?]]]]]]]]]; subst.

Lemma adig_us c : is_ascii_digit c = true -> is_digit_us c = true.
Proof. intro H. unfold is_digit_us. rewrite H. reflexivity. Qed.
Lemma adig_not95 c : is_ascii_digit c = true -> negb (c =? 95) = true.
Proof. intro H. dcases H; reflexivity. Qed.
Lemma filter_digs d : Forall (fun c => is_ascii_digit c = true) d -> filter (fun c => negb (c =? 95)) d = d.
Proof. induction 1 as [|c d Hc _ IH]; cbn [filter]; [reflexivity|]. rewrite (adig_not95 c Hc), IH. reflexivity. Qed.

(* what may follow a run of digits that ends a mantissa part *)
Definition nodig (t : str) : Prop := match t with c :: _ => is_digit_us c = false | [] => True end.

Lemma p_digits_run d tail : digs d -> nodig tail -> p_digits (d ++ tail) = Some (Ok d, tail).
Proof.
  intros [Hne Hd] Ht. rewrite (digits_with_separators d tail Hne).
  - rewrite (filter_digs d Hd). reflexivity.
  - eapply Forall_impl; [|exact Hd]. intros c Hc. apply adig_us. exact Hc.
  - exact Ht.
Qed.

(* the parts of a decimal *)
Definition sgn (sg : bool) : str := if sg then [45] else [].
Definition fpt (fp : option str) : str := match fp with Some d => 46 :: d | None => [] end.
Definition ext (ex : option (option N * str)) : str :=
  match ex with Some (s, d) => 101 :: (match s with Some c => [c] | None => [] end) ++ d | None => [] end.
Definition fp_ok (fp : option str) : Prop := match fp with Some d => digs d | None => True end.
Definition ex_ok (ex : option (option N * str)) : Prop :=
  match ex with Some (s, d) => (s = None \/ s = Some 43 \/ s = Some 45) /\ digs d | None => True end.
(* what may follow a whole decimal: no digit or underscore, no dot, no e / E *)
Definition numstop (t : str) : Prop :=
  match t with c :: _ => is_digit_us c = false /\ c <> 46 /\ c <> 101 /\ c <> 69 | [] => True end.

Lemma numstop_nodig t : numstop t -> nodig t.
Proof. destruct t; cbn; tauto. Qed.

Lemma opt_frac_some d tail : digs d -> nodig tail ->
  popt (pthen (plit [46]) p_digits) (46 :: d ++ tail) = Some (Ok (Some d), tail).
Proof.
  intros Hd Ht. unfold popt, pthen, pmap, pand.
  assert (L : plit [46] (46 :: d ++ tail) = Some (Ok tt, d ++ tail)) by reflexivity.
  rewrite L, (p_digits_run d tail Hd Ht). reflexivity.
Qed.
Lemma opt_frac_none t : (match t with c :: _ => c <> 46 | [] => True end) ->
  popt (pthen (plit [46]) p_digits) t = Some (Ok None, t).
Proof.
  intro H. unfold popt, pthen, pmap, pand, plit. destruct t as [|c r]; [reflexivity|]. cbn [strip_prefix].
  destruct (N.eqb_spec 46 c); [subst; contradiction|reflexivity].
Qed.

Lemma opt_exp_none t : (match t with c :: _ => c <> 101 /\ c <> 69 | [] => True end) -> popt p_exp t = Some (Ok None, t).
Proof.
  intro H. unfold popt, p_exp, pmap, pand, pchar. destruct t as [|c r]; [reflexivity|]. destruct H as [H1 H2].
  destruct (N.eqb_spec c 101); [contradiction|]. destruct (N.eqb_spec c 69); [contradiction|]. reflexivity.
Qed.
Lemma pand_ok {A B} (p : parser A) (q : parser B) t a t1 b t2 :
  p t = Some (Ok a, t1) -> q t1 = Some (Ok b, t2) -> pand p q t = Some (Ok (a, b), t2).
Proof. intros H1 H2. unfold pand. rewrite H1, H2. reflexivity. Qed.
Lemma pmap_ok {A B} (f : A -> B) p t a t1 : p t = Some (Ok a, t1) -> pmap f p t = Some (Ok (f a), t1).
Proof. intro H. unfold pmap. rewrite H. reflexivity. Qed.
Lemma popt_ok {A} (p : parser A) t a t1 : p t = Some (Ok a, t1) -> popt p t = Some (Ok (Some a), t1).
Proof. intro H. unfold popt. rewrite H. reflexivity. Qed.

Lemma opt_exp_some s d tail : (s = None \/ s = Some 43 \/ s = Some 45) -> digs d -> nodig tail ->
  popt p_exp (ext (Some (s, d)) ++ tail) = Some (Ok (Some (ext (Some (s, d)), true)), tail).
Proof.
  intros Hs Hd Ht. pose proof (p_digits_run d tail Hd Ht) as PD.
  destruct Hd as [Hne Hall]. destruct d as [|c d']; [contradiction|]. inversion Hall as [|? ? Hc Hd']; subst.
  apply popt_ok. unfold p_exp, ext.
  set (P := pand (pchar (fun c0 => (c0 =? 101) || (c0 =? 69))) (pand (popt (pchar (fun c0 => (c0 =? 43) || (c0 =? 45)))) p_digits)).
  destruct Hs as [E|[E|E]]; subst s; cbn [List.app].
  - assert (Q : P (101 :: c :: d' ++ tail) = Some (Ok (101, (None, c :: d')), tail)).
    { eapply pand_ok; [reflexivity|]. eapply pand_ok; [|exact PD]. unfold popt, pchar. dcases Hc; reflexivity. }
    rewrite (pmap_ok _ P _ _ _ Q). reflexivity.
  - assert (Q : P (101 :: 43 :: c :: d' ++ tail) = Some (Ok (101, (Some 43, c :: d')), tail)).
    { eapply pand_ok; [reflexivity|]. eapply pand_ok; [reflexivity|exact PD]. }
    rewrite (pmap_ok _ P _ _ _ Q). reflexivity.
  - assert (Q : P (101 :: 45 :: c :: d' ++ tail) = Some (Ok (101, (Some 45, c :: d')), tail)).
    { eapply pand_ok; [reflexivity|]. eapply pand_ok; [reflexivity|exact PD]. }
    rewrite (pmap_ok _ P _ _ _ Q). reflexivity.
Qed.

(* the whole decimal *)
Definition mant (sg : bool) (ip : str) (fp : option str) (ex : option (option N * str)) : str := sgn sg ++ ip ++ fpt fp ++ ext ex.

Lemma p_decimal_tok sg ip fp ex tail : digs ip -> fp_ok fp -> ex_ok ex -> numstop tail ->
  p_decimal (mant sg ip fp ex ++ tail) = Some (Ok (mant sg ip fp ex), tail).
Proof.
  intros Hip Hfp Hex Ht. pose proof (numstop_nodig tail Ht) as Nt.
  (* the exponent part *)
  assert (E : popt p_exp (ext ex ++ tail) = Some (Ok (match ex with Some (s, d) => Some (ext ex, true) | None => None end), tail)).
  { destruct ex as [[s d]|]; cbn [ex_ok] in Hex.
    - destruct Hex as [Hs Hd]. apply opt_exp_some; assumption.
    - cbn [ext List.app]. apply opt_exp_none. destruct tail; [exact I|]. cbn in Ht. tauto. }
  assert (Ne : match (ext ex ++ tail) with c :: _ => is_digit_us c = false /\ c <> 46 | [] => True end).
  { destruct ex as [[s d]|]; cbn [ext List.app]; [split; [reflexivity|discriminate]|]. destruct tail; [exact I|]. cbn in Ht. tauto. }
  (* the fraction part *)
  assert (F : popt (pthen (plit [46]) p_digits) (fpt fp ++ ext ex ++ tail) = Some (Ok fp, ext ex ++ tail)).
  { destruct fp as [d|]; cbn [fp_ok] in Hfp; cbn [fpt List.app].
    - apply opt_frac_some; [exact Hfp|]. destruct (ext ex ++ tail); [exact I|]. cbn. tauto.
    - apply opt_frac_none. destruct (ext ex ++ tail); [exact I|]. tauto. }
  assert (I1 : p_digits (ip ++ fpt fp ++ ext ex ++ tail) = Some (Ok ip, fpt fp ++ ext ex ++ tail)).
  { apply p_digits_run; [exact Hip|]. destruct fp as [d|]; cbn [fpt List.app]; [reflexivity|]. destruct (ext ex ++ tail); [exact I|]. cbn. tauto. }
  assert (S1 : popt (plit [45]) (sgn sg ++ ip ++ fpt fp ++ ext ex ++ tail) = Some (Ok (if sg then Some tt else None), ip ++ fpt fp ++ ext ex ++ tail)).
  { destruct sg; cbn [sgn List.app]; [reflexivity|]. destruct Hip as [Hne Hall]. destruct ip as [|c ip']; [contradiction|].
    inversion Hall as [|? ? Hc _]; subst. cbn [List.app]. unfold popt, plit. dcases Hc; reflexivity. }
  unfold mant. rewrite <- !app_assoc.
  set (P := pand (popt (plit [45])) (pand p_digits (pand (popt (pthen (plit [46]) p_digits)) (popt p_exp)))).
  assert (Q : P (sgn sg ++ ip ++ fpt fp ++ ext ex ++ tail) =
              Some (Ok (if sg then Some tt else None, (ip, (fp, match ex with Some (s, d) => Some (ext ex, true) | None => None end))), tail)).
  { eapply pand_ok; [exact S1|]. eapply pand_ok; [exact I1|]. eapply pand_ok; [exact F|exact E]. }
  unfold p_decimal. fold P. unfold pact. rewrite Q.
  destruct Hip as [Hne _]. destruct ip as [|c ip']; [contradiction|].
  destruct sg; destruct fp as [d|]; destruct ex as [[s d2]|]; reflexivity.
Qed.

(* ---- units ---- *)
Definition unit_ok (u : str) : Prop :=
  u <> [] /\ Forall (fun c => is_unit_char c = true /\ is_digit c = false) u /\
  match u with c :: _ => c <> 95 /\ c <> 101 /\ c <> 69 | [] => True end.
Definition upt (u : option str) : str := match u with Some x => x | None => [] end.
Definition u_ok (u : option str) : Prop := match u with Some x => unit_ok x | None => True end.

Lemma unit_not_adig c : is_unit_char c = true -> is_ascii_digit c = false.
Proof.
  unfold is_unit_char, is_alpha, is_ascii_digit. intro H.
  destruct (N.leb_spec 48 c); [|reflexivity]. destruct (N.leb_spec c 57); [|reflexivity]. exfalso.
  repeat (apply orb_true_iff in H; destruct H as [H|H]);
    repeat match goal with
           | H : _ && _ = true |- _ => apply andb_true_iff in H; destruct H
           | H : (_ <=? _) = true |- _ => apply N.leb_le in H
           | H : (_ =? _) = true |- _ => apply N.eqb_eq in H
           end; lia.
Qed.
Lemma unit_not46 c : is_unit_char c = true -> c <> 46.
Proof. intros H E. subst. discriminate. Qed.

Lemma delim_hd rest : delim rest -> match rest with c :: _ => In c [44; 10; 13; 32; 93; 125; 62] | [] => True end.
Proof. intros [E|[c [r' [E Hc]]]]; subst; [exact I|exact Hc]. Qed.
Ltac dl Hc := cbn [In] in Hc; repeat (destruct Hc as [Hc|Hc]; [subst|]); [..|contradiction].

Lemma delim_numstop rest : delim rest -> numstop rest.
Proof. intro H. apply delim_hd in H. destruct rest as [|c r]; [exact I|]. dl H; cbn; repeat split; discriminate. Qed.
Lemma delim_nounit rest : delim rest -> match rest with c :: _ => is_unit_char c = false | [] => True end.
Proof. intro H. apply delim_hd in H. destruct rest as [|c r]; [exact I|]. dl H; reflexivity. Qed.

Lemma unit_numstop u rest : unit_ok u -> numstop (u ++ rest).
Proof.
  intros [Hne [Hall Hh]]. destruct u as [|c u']; [contradiction|]. inversion Hall as [|? ? [Hc _] _]; subst.
  cbn [List.app numstop]. destruct Hh as [H1 [H2 H3]]. repeat split; try assumption.
  - unfold is_digit_us. rewrite (unit_not_adig c Hc). destruct (N.eqb_spec c 95); [contradiction|reflexivity].
  - apply unit_not46. exact Hc.
Qed.

Lemma p_unit_run u rest : unit_ok u -> delim rest -> p_unit (u ++ rest) = Some (Ok u, rest).
Proof.
  intros [Hne [Hall _]] Hd. unfold p_unit, pspan1. rewrite (span_all is_unit_char u rest).
  - destruct u; [contradiction|reflexivity].
  - eapply Forall_impl; [|exact Hall]. cbn beta. tauto.
  - exact (delim_nounit rest Hd).
Qed.
Lemma p_unit_none rest : delim rest -> p_unit rest = None.
Proof.
  intro Hd. pose proof (delim_nounit rest Hd) as H. unfold p_unit, pspan1. destruct rest as [|c r]; [reflexivity|]. cbn [span]. rewrite H. reflexivity.
Qed.

Definition ntok_ok sg ip fp ex u := digs ip /\ fp_ok fp /\ ex_ok ex /\ u_ok u /\ (sg = true \/ sg = false).
Definition nval (sg : bool) ip fp ex u : hval := VNum NkFin (mant sg ip fp ex) (mant sg ip fp ex) u.

Lemma consts_none sg ip fp ex tail : digs ip ->
  por [ pmap (fun _ => VNum NkInf [] [] None) (plit [73; 78; 70]);
        pmap (fun _ => VNum NkNegInf [] [] None) (plit [45; 73; 78; 70]);
        pmap (fun _ => VNum NkNaN [] [] None) (plit [78; 97; 78]) ] (mant sg ip fp ex ++ tail) = None.
Proof.
  intros [Hne Hall]. destruct ip as [|c ip']; [contradiction|]. inversion Hall as [|? ? Hc _]; subst.
  unfold mant. destruct sg; cbn [sgn List.app]; dcases Hc; reflexivity.
Qed.

Lemma p_number_tok sg ip fp ex u rest : ntok_ok sg ip fp ex u -> delim rest ->
  p_number (mant sg ip fp ex ++ upt u ++ rest) = Some (Ok (nval sg ip fp ex u), rest).
Proof.
  intros [Hip [Hfp [Hex [Hu _]]]] Hd. unfold p_number.
  change (s_ "INF") with [73; 78; 70]. change (s_ "-INF") with [45; 73; 78; 70]. change (s_ "NaN") with [78; 97; 78].
  pose proof (consts_none sg ip fp ex (upt u ++ rest) Hip) as C.
  destruct u as [u|]; cbn [upt u_ok] in *.
  - pose proof (p_decimal_tok sg ip fp ex (u ++ rest) Hip Hfp Hex (unit_numstop u rest Hu)) as D.
    pose proof (p_unit_run u rest Hu Hd) as U.
    unfold por at 1. erewrite por_pick_start.
    2:{ apply pmap_ok. eapply pand_ok; [exact D|exact U]. }
    erewrite por_pick_keep.
    2:{ apply pmap_ok. exact D. }
    2:{ rewrite app_length. lia. }
    rewrite por_pick_skip by exact C. reflexivity.
  - cbn [List.app] in *. pose proof (p_decimal_tok sg ip fp ex rest Hip Hfp Hex (delim_numstop rest Hd)) as D.
    unfold por at 1. rewrite por_pick_skip.
    2:{ unfold pmap, pand. rewrite D, (p_unit_none rest Hd). reflexivity. }
    erewrite por_pick_start.
    2:{ apply pmap_ok. exact D. }
    rewrite por_pick_skip by exact C. reflexivity.
Qed.

(* ---- the other alternatives of the scalar rule do not match a number ---- *)
Lemma adig_is_digit c : is_ascii_digit c = true -> is_digit c = true.
Proof. intro H. dcases H; reflexivity. Qed.

Definition sepch (t : str) : Prop := match t with c :: _ => is_digit c = false /\ c <> 45 /\ c <> 58 | [] => True end.

Lemma digits_no_date d tail : d <> [] -> Forall (fun c => is_ascii_digit c = true) d -> sepch tail ->
  p_date_str (d ++ tail) = None /\ p_time_str (d ++ tail) = None.
Proof.
  intros Hne Hd Ht.
  assert (G : forall g, is_ascii_digit g = true -> (g =? 45) = false /\ (g =? 58) = false) by (intros g Hg; dcases Hg; split; reflexivity).
  destruct d as [|a [|b [|c [|e [|g d']]]]]; [contradiction|..];
    repeat match goal with H : Forall _ (_ :: _) |- _ => inversion H; clear H; subst end;
    repeat match goal with H : is_ascii_digit ?x = true |- _ => pose proof (adig_is_digit x H); pose proof (G x H); clear H end;
    repeat match goal with H : _ /\ _ |- _ => destruct H end;
    cbn [List.app]; split; unfold p_date_str, p_time_str, four_digits, two_digits, hd_is;
    destruct tail as [|x [|y [|z r]]]; cbn [sepch] in Ht;
    repeat match goal with H : _ /\ _ |- _ => destruct H end;
    repeat (first [ match goal with H : is_digit _ = _ |- _ => rewrite H end
                  | match goal with H : (_ =? _) = false |- _ => rewrite H end
                  | progress cbn [andb] | rewrite andb_false_r ]);
    try reflexivity;
    try (match goal with H : ?x <> 45 |- _ => destruct (N.eqb_spec x 45); [contradiction|] end);
    try (match goal with H : ?x <> 58 |- _ => destruct (N.eqb_spec x 58); [contradiction|] end);
    reflexivity.
Qed.

Lemma tail_sepch fp ex u rest : fp_ok fp -> ex_ok ex -> u_ok u -> delim rest -> sepch (fpt fp ++ ext ex ++ upt u ++ rest).
Proof.
  intros Hfp Hex Hu Hd. destruct fp as [d|]; cbn [fpt List.app]; [cbn [sepch]; split; [reflexivity|split; discriminate]|].
  destruct ex as [[s d]|]; cbn [ext List.app]; [cbn [sepch]; split; [reflexivity|split; discriminate]|].
  destruct u as [u|]; cbn [upt u_ok List.app] in *.
  - destruct Hu as [Hne [Hall _]]. destruct u as [|c u']; [contradiction|]. inversion Hall as [|? ? [Hc Hdg] _]; subst.
    cbn [List.app sepch]. split; [exact Hdg|split; intro E; subst; discriminate].
  - apply delim_hd in Hd. destruct rest as [|c r]; [exact I|]. dl Hd; cbn [sepch]; (split; [reflexivity|split; discriminate]).
Qed.

Lemma number_no_date sg ip fp ex u rest : ntok_ok sg ip fp ex u -> delim rest ->
  let t := mant sg ip fp ex ++ upt u ++ rest in p_datetime t = None /\ p_date t = None /\ p_time t = None.
Proof.
  intros [[Hne Hall] [Hfp [Hex [Hu _]]]] Hd t. subst t. unfold mant. rewrite <- !app_assoc.
  destruct sg; cbn [sgn List.app].
  - apply date_letters. reflexivity.
  - destruct (digits_no_date ip (fpt fp ++ ext ex ++ upt u ++ rest) Hne Hall (tail_sepch fp ex u rest Hfp Hex Hu Hd)) as [Hd1 Ht1].
    repeat split.
    + unfold p_datetime, p_iso_datetime, pmap, pact, pand. rewrite Hd1. reflexivity.
    + unfold p_date, pact. rewrite Hd1. reflexivity.
    + unfold p_time, pact. rewrite Ht1. reflexivity.
Qed.

(* extended strings: Name("...") - the run of name characters is not followed by a parenthesis *)
Lemma span_hd_prop f (P : N -> Prop) w : forall tail, Forall P w ->
  (match tail with c :: _ => f c = false /\ P c | [] => True end) ->
  match snd (span f (w ++ tail)) with c :: _ => P c | [] => True end.
Proof.
  induction w as [|x w IH]; intros tail Hw Ht; cbn [List.app].
  - destruct tail as [|c r]; [exact I|]. cbn [span]. destruct Ht as [Hf Hp]. rewrite Hf. exact Hp.
  - inversion Hw; subst. cbn [span]. destruct (f x).
    + specialize (IH tail H2 Ht). destruct (span f (w ++ tail)) as [a b]. exact IH.
    + exact H1.
Qed.

Lemma not40 c : c <> 40 <-> (40 =? c) = false.
Proof. split; [intro H; destruct (N.eqb_spec 40 c); [subst; contradiction|reflexivity]|intros H E; subst; discriminate]. Qed.

Lemma p_xstr_none w tail : Forall (fun c => c <> 40) w ->
  (match tail with c :: _ => is_xname_char c = false /\ c <> 40 | [] => True end) -> p_xstr (w ++ tail) = None.
Proof.
  intros Hw Ht. pose proof (span_hd_prop is_xname_char (fun c => c <> 40) w tail Hw Ht) as H.
  unfold p_xstr, pmap, pand, pspan1. destruct (span is_xname_char (w ++ tail)) as [a b]. cbn [snd] in H.
  destruct a; [reflexivity|]. unfold pthen, pmap, pand, plit. destruct b as [|c r]; [reflexivity|]. cbn [strip_prefix].
  apply not40 in H. rewrite H. reflexivity.
Qed.

Lemma digs_not40 d : Forall (fun c => is_ascii_digit c = true) d -> Forall (fun c => c <> 40) d.
Proof. intro H. eapply Forall_impl; [|exact H]. intros c Hc E. subst. discriminate. Qed.

Lemma number_no_xstr sg ip fp ex u rest : ntok_ok sg ip fp ex u -> delim rest ->
  p_xstr (mant sg ip fp ex ++ upt u ++ rest) = None.
Proof.
  intros [[Hne Hall] [Hfp [Hex [Hu _]]]] Hd. rewrite app_assoc. apply p_xstr_none.
  - unfold mant. repeat (apply Forall_app; split).
    + destruct sg; cbn [sgn]; repeat constructor. discriminate.
    + apply digs_not40. exact Hall.
    + destruct fp as [d|]; cbn [fpt fp_ok] in *; [|constructor]. constructor; [discriminate|]. apply digs_not40. exact (proj2 Hfp).
    + destruct ex as [[s d]|]; cbn [ext ex_ok] in *; [|constructor]. destruct Hex as [Hs [_ Hd2]]. constructor; [discriminate|].
      apply Forall_app. split; [|apply digs_not40; exact Hd2].
      destruct Hs as [E|[E|E]]; subst; repeat constructor; discriminate.
    + destruct u as [u|]; cbn [upt u_ok] in *; [|constructor]. destruct Hu as [_ [Hall2 _]].
      eapply Forall_impl; [|exact Hall2]. cbn beta. intros c [Hc _] E. subst. discriminate.
  - apply delim_hd in Hd. destruct rest as [|c r]; [exact I|]. dl Hd; split; try reflexivity; discriminate.
Qed.

(* ---- the whole scalar alternation, both versions ---- *)
Theorem scalar_number f v3 sg ip fp ex u rest : ntok_ok sg ip fp ex u -> delim rest ->
  p_scalar (S f) v3 (mant sg ip fp ex ++ upt u ++ rest) = Some (Ok (nval sg ip fp ex u), rest).
Proof.
  intros Hok Hd.
  pose proof (p_number_tok sg ip fp ex u rest Hok Hd) as N.
  destruct (number_no_date sg ip fp ex u rest Hok Hd) as [D1 [D2 D3]].
  pose proof (number_no_xstr sg ip fp ex u rest Hok Hd) as X.
  destruct Hok as [[Hne Hall] _]. destruct ip as [|c ip']; [contradiction|]. inversion Hall as [|? ? Hc _]; subst.
  revert N D1 D2 D3 X. unfold nval, mant.
  set (tl := (ip' ++ fpt fp ++ ext ex)%list).
  assert (E : forall s0, (sgn s0 ++ (c :: ip') ++ fpt fp ++ ext ex)%list = (sgn s0 ++ c :: tl)%list) by (intro s0; reflexivity).
  rewrite !E. clear E.
  destruct sg; cbn [sgn List.app]; [|dcases Hc]; intros N D1 D2 D3 X; cbn [p_scalar]; destruct v3; cbv zeta; unfold scalars_2_0, por.
  all: try (rewrite por_pick_skip by reflexivity; rewrite por_pick_skip by exact X; do 3 rewrite por_pick_skip by reflexivity;
            rewrite por_pick_skip by exact D1; rewrite por_pick_skip by exact D2; rewrite por_pick_skip by exact D3;
            rewrite por_pick_skip by reflexivity;
            apply por_pick_take; [exact N|]; repeat (apply Forall_cons; [reflexivity|]); apply Forall_nil).
  all: (do 4 rewrite por_pick_skip by reflexivity;
        rewrite por_pick_skip by exact D1; rewrite por_pick_skip by exact D2; rewrite por_pick_skip by exact D3;
        rewrite por_pick_skip by reflexivity;
        apply por_pick_take; [exact N|]; repeat (apply Forall_cons; [reflexivity|]); apply Forall_nil).
Qed.
