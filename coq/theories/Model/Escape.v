(* ZINC string / URI escaping: the writer side (zincdumper.dump_str, dump_uri
   with str_sub, uri_sub and the STR_SUB table - all data regenerated from the
   source, Gen/EscapeData.v) and the reader side (the character regexes
   hs_strChar / hs_uriChar, ZeroOrMore, and zincparser._unescape).
   Executable definitions only; proofs in Proofs/EscapeP.v. *)
From HS Require Import Base.Prelude Gen.EscapeData.
Open Scope N_scope.

Definition BSL : N := 92.   (* backslash *)
Definition DQ : N := 34.    (* double quote *)
Definition BQ : N := 96.    (* ` *)

(* ---- '%04x' % o ---- *)
Definition hexdigit (n : N) : N := if n <? 10 then 48 + n else 87 + n.

Fixpoint hex_fuel (fuel : nat) (n : N) (acc : str) : str :=
  match fuel with
  | O => acc
  | S f => if n <? 16 then hexdigit n :: acc else hex_fuel f (n / 16) (hexdigit (n mod 16) :: acc)
  end.
Definition hex_lower (n : N) : str := hex_fuel (S (N.size_nat n)) n [].
Definition pad4 (s : str) : str := repeat 48 (4 - length s) ++ s.
Definition hex04 (n : N) : str := pad4 (hex_lower n).

(* ---- str_sub / uri_sub: the function given to META.sub ---- *)
Definition sub_fun (hi lo : N) (lits : list N) (c : N) : res str :=
  if (hi <=? c) || (c <? lo) then Ok (BSL :: 117 :: hex04 c)
  else if memN c lits then Ok [BSL; c]
  else Raise TypeError.          (* the Python function would return None *)

Fixpoint table_lookup (c : N) (t : list (N * str)) : option str :=
  match t with
  | [] => None
  | (o, e) :: t' => if N.eqb o c then Some e else table_lookup c t'
  end.

(* one character through META.sub(...) and then the STR_SUB replacements *)
Definition esc_char (meta : list (N * N)) (hi lo : N) (lits : list N) (c : N) : res str :=
  if in_ranges c meta then sub_fun hi lo lits c
  else match table_lookup c str_sub_table with
       | Some e => Ok e
       | None => Ok [c]
       end.

Fixpoint esc_all (f : N -> res str) (s : str) : res str :=
  match s with
  | [] => Ok []
  | c :: s' => do e <- f c; do r <- esc_all f s'; Ok (e ++ r)
  end.

Definition esc_str_char := esc_char str_meta str_sub_hi str_sub_lo str_sub_lits.
Definition esc_uri_char := esc_char uri_meta uri_sub_hi uri_sub_lo uri_sub_lits.
Definition escape_str (s : str) : res str := esc_all esc_str_char s.
Definition escape_uri (s : str) : res str := esc_all esc_uri_char s.

(* dump_str / dump_uri *)
Definition zdump_str (s : str) : res str := do e <- escape_str s; Ok (DQ :: e ++ [DQ]).
Definition zdump_uri (s : str) : res str := do e <- escape_uri s; Ok (BQ :: e ++ [BQ]).

(* ---- the reader ---- *)
Definition is_hex (c : N) : bool :=
  ((48 <=? c) && (c <=? 57)) || ((65 <=? c) && (c <=? 70)) || ((97 <=? c) && (c <=? 102)).
Definition hexval (c : N) : N :=
  if c <=? 57 then c - 48 else if c <=? 70 then c - 55 else c - 87.

(* the letters that may follow a backslash in hs_strChar (b f n r t backslash dquote dollar)
   and in hs_uriChar (b f n r t backslash : / ? # [ ] @ & = ; backquote) *)
Definition str_esc_letters : list N := [98; 102; 110; 114; 116; 92; 34; 36].
Definition uri_esc_letters : list N := [98; 102; 110; 114; 116; 92; 58; 47; 63; 35; 91; 93; 64; 38; 61; 59; 96].

(* one match of the character regex at the head of t: (matched text, rest) *)
Definition esc_char_match (quote : N) (letters : list N) (t : str) : option (str * str) :=
  match t with
  | [] => None
  | c :: t' =>
      if negb ((c <? 32) || (c =? BSL) || (c =? quote)) then Some ([c], t')
      else if c =? BSL then
        match t' with
        | e :: t'' =>
            if memN e letters then Some ([c; e], t'')
            else if (e =? 117) || (e =? 85) then
              match t'' with
              | a :: b :: x :: d :: t3 =>
                  if is_hex a && is_hex b && is_hex x && is_hex d then Some ([c; e; a; b; x; d], t3) else None
              | _ => None
              end
            else None
        | [] => None
        end
      else None
  end.

(* ZeroOrMore(char regex), greedy *)
Fixpoint chars_loop (fuel : nat) (quote : N) (letters : list N) (t : str) : str * str :=
  match fuel with
  | O => ([], t)
  | S f => match esc_char_match quote letters t with
           | Some (m, r) => let '(b, r') := chars_loop f quote letters r in (m ++ b, r')
           | None => ([], t)
           end
  end.
Definition match_chars (quote : N) (letters : list N) (t : str) : str * str :=
  chars_loop (S (length t)) quote letters t.

(* zincparser._unescape *)
Definition unesc_letter (uri : bool) (e : N) : str :=
  if e =? 98 then [8] else if e =? 102 then [12] else if e =? 110 then [10]
  else if e =? 114 then [13] else if e =? 116 then [9]
  else if uri && (e =? 35) then [BSL; e] else [e].

Fixpoint unescape (uri : bool) (t : str) : res str :=
  match t with
  | [] => Ok []
  | c :: t' =>
      if c =? BSL then
        match t' with
        | [] => Raise IndexError
        | e :: t'' =>
            if (e =? 117) || (e =? 85) then
              match t'' with
              | a :: b :: x :: d :: t3 =>
                  if is_hex a && is_hex b && is_hex x && is_hex d
                  then do r <- unescape uri t3;
                       Ok (hexval a * 4096 + hexval b * 256 + hexval x * 16 + hexval d :: r)
                  else Raise ValueError
              | _ => Raise ValueError
              end
            else do r <- unescape uri t''; Ok (unesc_letter uri e ++ r)
        end
      else do r <- unescape uri t'; Ok (c :: r)
  end.

(* hs_str / hs_uri: quote, characters, quote; then the parse action.
   None = no match (ParseException); Some (Raise _) = the parse action raised *)
Definition quoted (quote : N) (letters : list N) (uri : bool) (t : str) : option (res str * str) :=
  match t with
  | q :: t1 =>
      if q =? quote then
        let '(body, t2) := match_chars quote letters t1 in
        match t2 with
        | q2 :: rest => if q2 =? quote then Some (unescape uri body, rest) else None
        | [] => None
        end
      else None
  | [] => None
  end.
Definition hs_str (t : str) := quoted DQ str_esc_letters false t.
Definition hs_uri (t : str) := quoted BQ uri_esc_letters true t.

(* ---- wire ---- *)
From Coq Require Import String.
Local Open Scope string_scope.

Definition sresstr (r : res str) : sexp := sres SStr r.

(* (esc s): (dump_str s, dump_uri s, hs_str(dump_str s ++ "X"), hs_uri(dump_uri s ++ "X")) *)
Definition cmd_esc (args : list sexp) : sexp :=
  match args with
  | [SStr s] =>
      let ds := zdump_str s in let du := zdump_uri s in
      let back (f : str -> option (res str * str)) (d : res str) : sexp :=
        match d with
        | Ok t => match f (List.app t [88%N]) with
                  | Some (r, rest) => SList [sresstr r; SStr rest]
                  | None => sym "nomatch"
                  end
        | Raise e => sexn e
        end in
      SList [sresstr ds; sresstr du; back hs_str ds; back hs_uri du]
  | _ => bad_request
  end.

(* (unesc-str t) / (unesc-uri t): the reader alone on arbitrary text *)
Definition cmd_read_quoted (uri : bool) (args : list sexp) : sexp :=
  match args with
  | [SStr t] => match (if uri then hs_uri t else hs_str t) with
                | Some (r, rest) => SList [sresstr r; SStr rest]
                | None => sym "nomatch"
                end
  | _ => bad_request
  end.
