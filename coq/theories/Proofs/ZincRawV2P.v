(* Version 2.0 grids (with metadata) whose cells include date-times: two-sided form, as in ZincRawP.v *)
From Coq Require Import String.
From Coq Require Import List NArith Bool Lia Arith Setoid.
From HS Require Import Base.Prelude Model.Value Model.Escape Model.Version Model.Json Model.ZincParse Model.ZincDump.
From HS Require Import Proofs.PreludeP Proofs.VersionP Proofs.EscapeP Proofs.JsonP Proofs.ZincParseP Proofs.ZincDumpP Proofs.ZincNumP Proofs.ZincDateP Proofs.ZincListP Proofs.ZincGridP Proofs.ZincDictP Proofs.ZincMetaP Proofs.ZincV2P Proofs.ZincMeta2P Proofs.ZincDateTimeP.
Import ListNotations.
Open Scope N_scope.

Definition cellwr20 (p : hval * hval) (t : str) : Prop :=
  is_v3_only (snd p) = false /\ (forall f, zdump (S f) true (fst p) = Ok t) /\ (forall g, reads2 g (snd p) t).

Lemma cellwr20_same v t : cell2 v t -> cellwr20 (v, v) t.
Proof. intros [A [B C]]. split; [exact A|]. split; [exact B|exact C]. Qed.

Lemma cellwr20_datetime y m d h mi s us off zn sg hh mm :
  iso_offset off = off_text sg hh mm -> dt_ok y m d h mi s us sg hh mm -> tzname_ok zn ->
  cellwr20 (VDateTime y m d h mi s us off (ZName zn), VDateTimeRaw (iso_datetime y m d h mi s us off) (Some zn))
           (iso_datetime y m d h mi s us off ++ 32 :: zn).
Proof.
  intros Eo Hok Hz. split; [reflexivity|]. split; [intro f; reflexivity|]. intros g rest Hd. cbn [fst snd].
  apply (datetime_written_read 0 g false y m d h mi s us off zn sg hh mm _ rest Eo Hok Hz (delim_ns_delim rest Hd)). reflexivity.
Qed.

Theorem grid2_two_sided mps cols (rows : list (list (hval * hval))) rts :
  Forall mval2 mps -> NoDup (mkeys mps) -> ~ In VERK (mkeys mps) ->
  cols <> [] -> Forall mcol2 cols -> NoDup (map fst cols) ->
  Forall2 (fun cells ts => length cells = length (map fst cols) /\ Forall2 cellwr20 cells ts) rows rts ->
  (forall f, zdump_grid (S (S f)) V20 (map pkv mps) (map (fun c => (fst c, map pkv (snd c))) cols)
                        (map (fun cells => combine (map fst cols) (map fst cells)) rows) = Ok (meta_text2 mps cols rts)) /\
  zparse_grid (meta_text2 mps cols rts) = Ok (meta_grid2 mps cols (map (map snd) rows)).
Proof.
  intros Hm Hmn Hmv Hne Hc Hcn Hrows. split.
  - intro f.
    replace (map (fun cells : list (hval * hval) => combine (map fst cols) (map fst cells)) rows)
      with (map (fun cells => combine (map fst cols) cells) (map (map fst) rows)) by (rewrite map_map; reflexivity).
    apply grid_meta_dumps2; [| exact Hne | | exact Hcn |].
    + eapply Forall_impl; [|exact Hm]. intros p Hp. apply mval2_dump. exact Hp.
    + eapply Forall_impl; [|exact Hc]. intros c [_ [B _]]. unfold col_dump_ok2. eapply Forall_impl; [|exact B]. intros p Hp. apply mval2_dump. exact Hp.
    + clear -Hrows. induction Hrows as [|cells ts rows rts [Hl Hcs] _ IH]; cbn [map]; constructor; [|exact IH]. split; [rewrite map_length; exact Hl|].
      clear -Hcs. induction Hcs as [|v t vs ts [_ [D _]] _ IH]; cbn [map]; constructor; [apply D|exact IH].
  - unfold zparse_grid.
    assert (SV : sniff_version (meta_text2 mps cols rts) = Some V20) by reflexivity. rewrite SV.
    assert (P3 : pre3_of V20 = Ok true) by (vm_compute; reflexivity). rewrite P3. cbn [negb].
    unfold meta_text2 at 2. rewrite (grid_meta_reads2 (length (meta_text2 mps cols rts)) mps cols (map (map snd) rows) rts); [reflexivity| |exact Hmn|exact Hmv| | | |].
    + eapply Forall_impl; [|exact Hm]. intros p Hp. apply mval2_ok. exact Hp.
    + split; [exact Hne|]. split; [|split; [exact Hcn|]].
      * eapply Forall_impl; [|exact Hc]. intros c [A [B _]]. split; [exact A|]. eapply Forall_impl; [|exact B]. intros p Hp. apply mval2_ok. exact Hp.
      * eapply Forall_impl; [|exact Hc]. intros c [_ [_ C]]. exact C.
    + apply mval2_free. exact Hm.
    + eapply Forall_impl; [|exact Hc]. intros c [_ [B _]]. apply mval2_free. exact B.
    + clear -Hrows. induction Hrows as [|cells ts rows rts [Hl Hcs] _ IH]; cbn [map]; constructor; [|exact IH]. split; [rewrite map_length; exact Hl|]. split.
      * clear -Hcs. induction Hcs as [|v t vs ts [_ [_ R]] _ IH]; cbn [map]; constructor; [apply R|exact IH].
      * clear -Hcs. induction Hcs as [|v t vs ts [V _] _ IH]; cbn [map]; constructor; [exact V|exact IH].
Qed.
Print Assumptions grid2_two_sided.

(* ---------- ... and with date-times among the 2.0 metadata values ---------- *)
From HS Require Import Proofs.ZincNestP Proofs.ZincRawP Proofs.ZincRaw2P.

Definition mq2_ok (q : q4) : Prop :=
  colname (k4 q) /\ ((w4 q = VMarker /\ r4 q = VMarker) \/ (w4 q = r4 q /\ val2 (w4 q) (t4 q)) \/ dtt (w4 q) (r4 q) (t4 q)).
Definition cq2_ok (c : cq) : Prop := colname (fst c) /\ Forall mq2_ok (snd c) /\ NoDup (map k4 (snd c)).

Lemma mq2_meq q : mq2_ok q -> meq q.
Proof.
  destruct q as [[[k w] r] t]. unfold mq2_ok, meq, pw, pr, k4, w4, r4, t4. cbn [fst snd].
  intros [_ [[Ew Er]|[[E _]|[y [m [d [h [mi [s [us [off [zn [sg [hh [mm [_ [_ [_ [Ew [Er _]]]]]]]]]]]]]]]]]]]]; subst; reflexivity.
Qed.
Lemma mq2_dump f q : mq2_ok q -> mitem_dump2 (S f) (pw q).
Proof.
  destruct q as [[[k w] r] t]. unfold mq2_ok, pw, k4, w4, r4, t4. cbn [fst snd].
  intros [_ [[Ew _]|[[_ V]|[y [m [d [h [mi [s [us [off [zn [sg [hh [mm [_ [_ [_ [Ew [_ Et]]]]]]]]]]]]]]]]]]]].
  - left. exact Ew.
  - right. exact (proj1 (proj2 V) f).
  - right. subst w t. reflexivity.
Qed.
Lemma mq2_read g q : mq2_ok q -> mitem_ok2 g (pr q).
Proof.
  destruct q as [[[k w] r] t]. unfold mq2_ok, pr, k4, w4, r4, t4. cbn [fst snd].
  intros [Hk [[_ Er]|[[E V]|[y [m [d [h [mi [s [us [off [zn [sg [hh [mm [Eo [Hok [Hz [Ew [Er Et]]]]]]]]]]]]]]]]]]]]; (split; [exact Hk|]).
  - left. exact Er.
  - right. subst r. exact (proj2 (proj2 V) g).
  - right. subst w r t. intros rest Hd.
    apply (datetime_written_read 0 g false y m d h mi s us off zn sg hh mm _ rest Eo Hok Hz Hd). reflexivity.
Qed.
Lemma mq2_free l : Forall mq2_ok l -> mfree (map pr l).
Proof.
  intro H. unfold mfree. induction H as [|q l Hq _ IH]; cbn [map]; constructor; [|exact IH].
  destruct q as [[[k w] r] t]. unfold mq2_ok, pr, k4, w4, r4, t4 in *. cbn [fst snd pkv] in *.
  destruct Hq as [_ [[_ Er]|[[E V]|[y [m [d [h [mi [s [us [off [zn [sg [hh [mm [_ [_ [_ [_ [Er _]]]]]]]]]]]]]]]]]]]].
  - subst r. reflexivity.
  - subst r. exact (proj1 V).
  - subst r. reflexivity.
Qed.

Lemma meta_text2_eq mq cs rts : Forall meq mq -> Forall (fun c : cq => Forall meq (snd c)) cs ->
  meta_text2 (map pw mq) (map colw cs) rts = meta_text2 (map pr mq) (map colr cs) rts.
Proof. intros Hm Hc. unfold meta_text2, htext2. rewrite (mpart_eq mq Hm), (ctext_eq cs Hc). reflexivity. Qed.

Theorem grid2_two_sided_meta (mq : list q4) (cs : list cq) (rows : list (list (hval * hval))) rts :
  Forall mq2_ok mq -> NoDup (map k4 mq) -> ~ In VERK (map k4 mq) ->
  cs <> [] -> Forall cq2_ok cs -> NoDup (map fst cs) ->
  Forall2 (fun cells ts => length cells = length (map fst cs) /\ Forall2 cellwr20 cells ts) rows rts ->
  (forall f, zdump_grid (S (S f)) V20 (map pkv (map pw mq)) (map (fun c => (fst c, map pkv (snd c))) (map colw cs))
                        (map (fun cells => combine (map fst cs) (map fst cells)) rows) = Ok (meta_text2 (map pw mq) (map colw cs) rts)) /\
  zparse_grid (meta_text2 (map pw mq) (map colw cs) rts) = Ok (meta_grid2 (map pr mq) (map colr cs) (map (map snd) rows)).
Proof.
  intros Hm Hmn Hmv Hne Hc Hcn Hrows.
  assert (NW : map fst (map colw cs) = map fst cs) by (rewrite map_map; reflexivity).
  assert (NR : map fst (map colr cs) = map fst cs) by (rewrite map_map; reflexivity).
  assert (TE : meta_text2 (map pw mq) (map colw cs) rts = meta_text2 (map pr mq) (map colr cs) rts).
  { apply meta_text2_eq.
    - eapply Forall_impl; [|exact Hm]. intros q Hq. exact (mq2_meq q Hq).
    - eapply Forall_impl; [|exact Hc]. intros c [_ [B _]]. eapply Forall_impl; [|exact B]. intros q Hq. exact (mq2_meq q Hq). }
  split.
  - intro f.
    replace (map (fun cells : list (hval * hval) => combine (map fst cs) (map fst cells)) rows)
      with (map (fun cells => combine (map fst (map colw cs)) cells) (map (map fst) rows)) by (rewrite NW, map_map; reflexivity).
    apply grid_meta_dumps2.
    + clear -Hm. induction Hm as [|q l Hq _ IH]; cbn [map]; constructor; [apply mq2_dump; exact Hq|exact IH].
    + destruct cs; [contradiction|discriminate].
    + clear -Hc. induction Hc as [|c l [_ [Hq _]] _ IH]; cbn [map]; constructor; [|exact IH].
      unfold col_dump_ok2, colw. cbn [snd]. clear -Hq. induction Hq as [|q l0 Hq0 _ IH0]; cbn [map]; constructor; [apply mq2_dump; exact Hq0|exact IH0].
    + rewrite NW. exact Hcn.
    + rewrite NW. clear -Hrows. induction Hrows as [|cells ts rows rts [Hl Hcs] _ IH]; cbn [map]; constructor; [|exact IH]. split; [rewrite map_length; exact Hl|].
      clear -Hcs. induction Hcs as [|v t vs ts [_ [D _]] _ IH]; cbn [map]; constructor; [apply D|exact IH].
  - rewrite TE. unfold zparse_grid.
    assert (SV : sniff_version (meta_text2 (map pr mq) (map colr cs) rts) = Some V20) by reflexivity. rewrite SV.
    assert (P3 : pre3_of V20 = Ok true) by (vm_compute; reflexivity). rewrite P3. cbn [negb].
    unfold meta_text2 at 2.
    rewrite (grid_meta_reads2 (length (meta_text2 (map pr mq) (map colr cs) rts)) (map pr mq) (map colr cs) (map (map snd) rows) rts); [reflexivity| | | | | | |].
    + clear -Hm. induction Hm as [|q l Hq _ IH]; cbn [map]; constructor; [apply mq2_read; exact Hq|exact IH].
    + rewrite mkeys_pr. exact Hmn.
    + rewrite mkeys_pr. exact Hmv.
    + split; [destruct cs; [contradiction|discriminate]|]. split; [|split; [rewrite NR; exact Hcn|]].
      * clear -Hc. induction Hc as [|c l [Hk [Hq _]] _ IH]; cbn [map]; constructor; [|exact IH].
        split; [exact Hk|]. unfold colr. cbn [snd]. clear -Hq. induction Hq as [|q l0 Hq0 _ IH0]; cbn [map]; constructor; [apply mq2_read; exact Hq0|exact IH0].
      * clear -Hc. induction Hc as [|c l [_ [_ Hnd]] _ IH]; cbn [map]; constructor; [|exact IH]. unfold colr. cbn [snd]. rewrite mkeys_pr. exact Hnd.
    + apply mq2_free. exact Hm.
    + clear -Hc. induction Hc as [|c l [_ [Hq _]] _ IH]; cbn [map]; constructor; [|exact IH]. unfold colr. cbn [snd]. apply mq2_free. exact Hq.
    + rewrite NR. clear -Hrows. induction Hrows as [|cells ts rows rts [Hl Hcs] _ IH]; cbn [map]; constructor; [|exact IH]. split; [rewrite map_length; exact Hl|]. split.
      * clear -Hcs. induction Hcs as [|v t vs ts [_ [_ R]] _ IH]; cbn [map]; constructor; [apply R|exact IH].
      * clear -Hcs. induction Hcs as [|v t vs ts [V _] _ IH]; cbn [map]; constructor; [exact V|exact IH].
Qed.
Print Assumptions grid2_two_sided_meta.
