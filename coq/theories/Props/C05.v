(* C05 - the JSON reader decodes every well-formed Haystack-JSON value.
   Statements only; proofs in Proofs/JsonP.v.  Beside the writer's own spelling
   (Props/C02.v, the same reader) these are the other legal spellings the
   property names.
   The grid-level clauses (rows missing / null, whole objects) are C05_rows_null,
   C05_rows_missing and C05_whole_object.
   PARTIAL: what a date-time text denotes (iso8601 / pytz) is the oracle of the tie,
   the model hands the matched text and zone name on; "the caller's object is never
   modified" cannot be stated about a functional model and is checked on the
   implementation only. *)
From Coq Require Import String.
From HS Require Import Base.Prelude Gen.JsonData Model.Value Model.Json Proofs.JsonP Proofs.JsonGridP Proofs.JsonReadP Proofs.JsonDateTimeP Proofs.JsonNumP Proofs.JsonTimeP.
Open Scope N_scope.

(* both Remove spellings, under either version *)
Theorem C05_remove : forall pre3,
  jparse_str pre3 remove2_str = Ok VRemove /\ jparse_str pre3 remove3_str = Ok VRemove.
Proof. exact rt_remove. Qed.

(* raw JSON numbers and booleans *)
Theorem C05_raw : forall pre3 tok b,
  jparse_scalar pre3 (JNum tok) = Ok (VNum NkFin tok tok None) /\
  jparse_scalar pre3 (JBool b) = Ok (VBool b) /\ jparse_scalar pre3 JNull = Ok VNull.
Proof. intros. repeat split; reflexivity. Qed.

(* strings without the s: prefix *)
Theorem C05_bare_string : forall pre3 s, bare s -> jparse_str pre3 s = Ok (VStr s).
Proof. exact rt_bare. Qed.

(* times without seconds *)
Theorem C05_time_hm : forall pre3 h mi, h <= 23 -> mi <= 59 ->
  jparse_str pre3 (104 :: 58 :: d2 h ++ 58 :: d2 mi) = Ok (VTime h mi 0 0).
Proof. exact rt_time_hm. Qed.

(* n:INF / n:-INF / n:NaN *)
Theorem C05_nonfinite : forall pre3,
  jparse_str pre3 (s_ "n:INF") = Ok (VNum NkInf [] [] None) /\
  jparse_str pre3 (s_ "n:-INF") = Ok (VNum NkNegInf [] [] None) /\
  jparse_str pre3 (s_ "n:NaN") = Ok (VNum NkNaN [] [] None).
Proof. exact rt_nonfinite. Qed.

(* numbers with and without unit (fixed-point spelling) *)
Theorem C05_num : forall pre3 tok u, f6_shape tok ->
  jparse_str pre3 (110 :: 58 :: tok ++ match u with Some x => 32 :: x | None => [] end)
  = Ok (VNum NkFin tok tok u).
Proof. exact rt_num. Qed.

(* concrete instances of the remaining clauses, evaluated on the model *)
Example C05_examples :
  (* exponent form with unit *)
  jparse_str false (s_ "n:1.5e+3 kW") = Ok (VNum NkFin (s_ "1.5e+3") (s_ "1.5e+3") (Some (s_ "kW"))) /\
  (* a fraction of three digits *)
  jparse_str false (s_ "h:07:08:09.250") = Ok (VTime 7 8 9 250000) /\
  (* date-time without zone name, and with Z *)
  jparse_str false (s_ "t:2020-01-02T03:04:05+01:00") = Ok (VDateTimeRaw (s_ "2020-01-02T03:04:05+01:00") None) /\
  jparse_str false (s_ "t:2020-01-02T03:04:05Z UTC") = Ok (VDateTimeRaw (s_ "2020-01-02T03:04:05Z") (Some (s_ "UTC"))).
Proof. vm_compute. repeat split. Qed.

(* a grid object whose `rows` is null, or which has no `rows` key at all, denotes the grid with no rows *)
Theorem C05_rows_null : forall f m,
  jparse_grid (S f) ((s_ "rows", JNull) :: m) = jparse_grid (S f) ((s_ "rows", JArr nil) :: m).
Proof. exact rows_null_is_empty. Qed.
Theorem C05_rows_missing : forall f m, assoc (s_ "rows") m = None ->
  jparse_grid (S f) (m ++ cons (s_ "rows", JArr nil) nil) = jparse_grid (S f) m.
Proof. exact rows_missing_is_empty. Qed.

(* the prefixed text kinds: the whole remainder of the string is the payload *)
Theorem C05_text_kinds : forall pre3 s,
  jparse_str pre3 (115 :: 58 :: s) = Ok (VStr s) /\ jparse_str pre3 (117 :: 58 :: s) = Ok (VUri s) /\ jparse_str pre3 (98 :: 58 :: s) = Ok (VBin s).
Proof. intros. split; [apply rt_str|split; [apply rt_uri|apply rt_bin]]. Qed.

(* references with or without a display name *)
Theorem C05_refs : forall pre3 n, n <> nil -> forallb is_ref_char n = true ->
  jparse_str pre3 (114 :: 58 :: n) = Ok (VRef n None) /\
  (forall d, jparse_str pre3 (114 :: 58 :: n ++ 32 :: d) = Ok (VRef n (Some d))).
Proof. intros pre3 n H1 H2. split; [apply rt_ref_plain|intro d; apply rt_ref_dis]; assumption. Qed.

(* dates; times with seconds and an optional six-digit fraction *)
Theorem C05_date : forall pre3 y m d, valid_date y m d = true -> jparse_str pre3 (100 :: 58 :: iso_date y m d) = Ok (VDate y m d).
Proof. exact rt_date. Qed.
Theorem C05_time : forall pre3 h mi s us, h <= 23 -> mi <= 59 -> s <= 59 -> us < 1000000 ->
  jparse_str pre3 (104 :: 58 :: iso_time h mi s us) = Ok (VTime h mi s us).
Proof. exact rt_time. Qed.

(* coordinates and (3.0) extended strings *)
Theorem C05_coord : forall pre3 la lo, f6_shape la -> f6_shape lo -> jparse_str pre3 (99 :: 58 :: la ++ 44 :: lo) = Ok (VCoord la lo).
Proof. exact rt_coord. Qed.
Theorem C05_xstr : forall en tx, mem_colon en = false -> jparse_str false (120 :: 58 :: en ++ 58 :: tx) = Ok (VXStr en tx).
Proof. exact rt_xstr. Qed.

(* date-times: Z or a numeric offset, with or without a zone name, with or without a fraction of seconds of any length *)
Theorem C05_datetime_spellings : forall pre3 y m d h mi s fr o zn,
  y < 10000 -> m < 100 -> d < 100 -> h < 100 -> mi < 100 -> s < 100 -> frac_ok fr -> jo_ok o -> jzone_ok zn ->
  jparse_str pre3 (116 :: 58 :: jdt_body y m d h mi s fr o ++ jzone_text zn) = Ok (VDateTimeRaw (jdt_body y m d h mi s fr o) zn).
Proof. exact rt_datetime_spelled. Qed.

(* numbers in any spelling: sign, digits, optional fraction of any length, optional exponent (e or E, optional sign),
   optional unit after one blank *)
Theorem C05_number_spellings : forall pre3 tok u, gnum_shape tok ->
  jparse_str pre3 (110 :: 58 :: tok ++ match u with Some x => 32 :: x | None => nil end) = Ok (VNum NkFin tok tok u).
Proof. exact rt_num_spelled. Qed.

(* times with a fraction of seconds of any length: the first six digits count, as microseconds *)
Theorem C05_time_fraction : forall pre3 h mi s fr,
  h <= 23 -> mi <= 59 -> s <= 59 -> fr <> nil -> forallb ascii_digit fr = true ->
  jparse_str pre3 (104 :: 58 :: d2 h ++ 58 :: d2 mi ++ 58 :: d2 s ++ 46 :: fr) = Ok (VTime h mi s (usec_of fr)).
Proof. exact rt_time_frac. Qed.

(* WHOLE OBJECTS: a grid object {meta, cols, rows} - meta with a string "ver" member anywhere among its members, column
   objects with a string "name" member anywhere, row objects with ANY members (a row may leave columns out), rows possibly
   missing or null - parses to the grid it denotes: the version, the metadata tags in order with the values their members
   denote, the columns in order, the rows.  "Denotes" for a member is: the scalar / nested reader returns that value (the
   per-spelling theorems above and C02_values give it for every spelling and every nesting). *)
Theorem C05_whole_object : forall g ver p3 meta_j meta cs cols rows_j rows,
  ver_any ver p3 -> assoc VER meta_j = Some (JStr ver) -> denotes_items g p3 (remove_key VER meta_j) meta ->
  Forall2 (denotes_col g p3) cs cols ->
  (exists rs, rows_j = Some (JArr rs) /\ Forall2 (denotes_row g p3) rs rows) \/ ((rows_j = None \/ rows_j = Some JNull) /\ rows = nil) ->
  jparse_grid (S g) (cons (s_ "meta", JObj meta_j) (cons (s_ "cols", JArr cs)
                     match rows_j with Some r => cons (s_ "rows", r) nil | None => nil end))
  = Ok (VGrid ver (dict_of meta) (dict_of cols) rows).
Proof. exact json_object_denotes. Qed.
Print Assumptions C05_whole_object.
Print Assumptions C05_text_kinds.
Print Assumptions C05_refs.
Print Assumptions C05_date.
Print Assumptions C05_time.
Print Assumptions C05_coord.
Print Assumptions C05_xstr.
Print Assumptions C05_datetime_spellings.
Print Assumptions C05_number_spellings.
Print Assumptions C05_time_fraction.
