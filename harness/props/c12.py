"""C12 - filter literals are data, never code.

Theorems: coq/theories/Props/C12.v (the source handed to exec() depends on the shape
and the tag names only, tag names are identifiers, the source is written over a fixed
alphabet).
Tie: the model's source vs the text the implementation really compiles (taken from
the `compile` audit event) for every payload filter inside the modelled literal
subset; the alphabet of the theorem checked on every compiled source.
Search on the implementation, in a child process under sys.addaudithook: canary
payloads in every literal and identifier position x enclosing shapes; no event other
than the implementation's own compile / exec of its template (and id()), no import, no
file, no process, no socket; canary object and directory untouched; sys.modules,
builtins, hszinc and grid_filter namespaces unchanged; grid unchanged; anything that
is not a filter is rejected with a parse error."""
import json
import os
import random
import re
import shutil
import subprocess
import sys
import tempfile

import codec
from common import Sym

COMPONENTS = ['filter', 'escape', 'version', 'json']

ALLOWED_EVENTS = {'compile', 'exec', 'builtins.id'}


def benign(ev, arg):
    """the implementation's own mechanics: binding the literal tuple to the generated function, pyparsing looking at tracebacks / frames"""
    if ev in ALLOWED_EVENTS:
        return True
    if ev == 'object.__setattr__' and arg.startswith('(<function _gen_hsfilter_') and "'__defaults__'" in arg:
        return True
    if ev == 'object.__getattr__' and (arg.startswith('(<traceback object') or arg.startswith('(<frame at')):
        return True
    if ev in ('sys._getframe', 'object.__delattr__') :
        return ev == 'sys._getframe'
    return False
SAFE_SOURCE = re.compile(r"def _gen_hsfilter_[0-9]+\(_grid, _entity, _c=\(\)\):\n  return [A-Za-z0-9_'\[\]\(\), !=<>]*\Z")


def zinc_escape(s):
    out = []
    for ch in s:
        if ch == '"':
            out.append('\\"')
        elif ch == '\\':
            out.append('\\\\')
        elif ch == '\n':
            out.append('\\n')
        elif ch == '$':
            out.append('\\$')
        elif ord(ch) < 32:
            out.append('\\u%04x' % ord(ch))
        else:
            out.append(ch)
    return ''.join(out)


def payloads(cdir):
    return ["__import__('os').system('touch %s/pwn')" % cdir, "CANARY.append(1)", "\"+str(CANARY.append(2))+\"", "'+str(CANARY.append(3))+'",
            "\\\"); CANARY.append(4); (\\\"", "\"); CANARY.append(5); (\"", "')]); CANARY.append(6); ([('", "\nCANARY.append(7)\n", "{CANARY.append(9)}", "%s%(CANARY)s",
            "\\N{BULLET}", "\\x41", "\\", "exec", "eval", "__class__", "__builtins__", "open('%s/f','w')" % cdir, "lambda: CANARY.append(10)", "CANARY", "id", "NOT_FOUND", "_c",
            "Cuba", "Zulu", "EST5EDT", "W-SU", "Japan", "posix/Cuba", "../UTC",
            "_get_path", "_grid.append({})", "_entity.clear()", "a'] or CANARY.append(11) or ['", "x\"\"\"+CANARY.append(12)+\"\"\"", "1);CANARY.append(13);(", "`", "$", "'", '"']


POSITIONS = [('str-raw', 'a == "%s"'), ('uri-raw', 'a == `%s`'), ('ref-name', 'a == @%s'), ('ref-dis', 'a == @r "%s"'), ('xstr-enc', 'a == %s("x")'), ('xstr-data', 'a == Foo("%s")'),
             ('unit', 'a == 5%s'), ('zone', 'a == 2020-01-01T00:00:00Z %s'), ('tag', '%s'), ('tag-cmp', '%s == 1'), ('tag-step', 'siteRef->%s'), ('tag-not', 'not %s'),
             ('bin', 'a == Bin(%s)'), ('list', 'a == ["%s"]'), ('dict', 'a == {x:"%s"}'), ('number', 'a == %s'), ('op', 'a %s 1'), ('whole', '%s')]
ESCAPED = [('str', 'a == "%s"'), ('ref-dis-esc', 'a == @r "%s"'), ('xstr-data-esc', 'a == Foo("%s")'), ('list-esc', 'a == ["%s"]'), ('dict-esc', 'a == {x:"%s"}')]
SHAPES = ['%s', '(%s) and b', 'b or not c and %s', '((( %s )))', '%s or %s', 'not b and (c or (%s))']


def run(ctx):
    h = codec.H()
    rng = random.Random(ctx.seed + 12)
    thorough = ctx.tier == 'thorough' or ctx.escalate
    cdir = tempfile.mkdtemp(prefix='c12-canary-')
    try:
        pls = payloads(cdir)
        filters = []
        meta = {}
        for p in pls:
            for pos, tpl in POSITIONS:
                atom = tpl % p
                for shape in (SHAPES if thorough else rng.sample(SHAPES, 2) + ['%s']):
                    t = shape.replace('%s', atom)
                    filters.append(t)
                    meta[t] = (pos, 'raw')
            for pos, tpl in ESCAPED:
                atom = tpl % zinc_escape(p)
                for shape in (SHAPES if thorough else rng.sample(SHAPES, 2) + ['%s']):
                    t = shape.replace('%s', atom)
                    filters.append(t)
                    meta[t] = (pos, 'escaped')
        # filters that keep only the EARLIER of two rows sharing an id, or a row whose id was edited in place (the grid's look-ups by key
        # are compared before / after every evaluation in the child)
        for t in ('a == 77', 'b == "first"', 'a > 76 and a < 78', 'a == 79', 'id == @dup and a == 77', 'not siteRef and a == 77'):
            filters.append(t)
            meta[t] = ('whole', 'raw')
        filters = list(dict.fromkeys(filters))
        ctx.coverage['rule'] = ('%d canary payloads (Python expressions / statements with an observable effect, builtin and dunder names, names of the generated code\'s own helpers, quotes, backslashes, newlines, format directives) '
                                'x %d raw positions (string, URI, reference name / display, extended-string encoding / payload, unit, zone, tag name in 4 roles, Bin, list, dict, number, operator, whole filter) + %d escaped literal positions '
                                'x %d enclosing shapes; distinct by filter text' % (len(pls), len(POSITIONS), len(ESCAPED), len(SHAPES) if thorough else 3))
        env = dict(os.environ, PYTHONPATH='/repo:' + os.path.dirname(os.path.dirname(os.path.abspath(__file__))), PYTHONHASHSEED='0')
        child = os.path.join(os.path.dirname(os.path.dirname(os.path.abspath(__file__))), 'c12_child.py')
        reports = []
        chunk = 1500
        procs = []
        for i in range(0, len(filters), chunk):
            p = subprocess.Popen(['/venv/bin/python', '-W', 'ignore', child], stdin=subprocess.PIPE, stdout=subprocess.PIPE, stderr=subprocess.PIPE, env=env, text=True)
            procs.append((p, json.dumps({'filters': filters[i:i + chunk], 'canary_dir': cdir})))
        for p, inp in procs:
            out, err = p.communicate(inp, timeout=1200)
            if p.returncode != 0:
                ctx.violation('harness-error', 'the audit child failed: %s' % err[-400:], {'stderr': err[-2000:]})
                return
            reports += json.loads(out)['reports']
        compiled = []
        for r in reports:
            ctx.coverage['evaluations'] += 1
            text = r['filter']
            pos = meta.get(text, ('?', '?'))
            ctx.count('position:%s' % pos[0])
            ctx.count('outcome:%s' % r['outcome'])
            rep = {'filter': text, 'position': pos[0]}
            if r['problems']:
                ctx.violation('impl-counterexample', 'evaluating the filter %r (payload in position %s): %s' % (text[:120], pos[0], '; '.join(r['problems'])), rep)
                continue
            bad = [e for e in r['events'] if not benign(e[0], e[1])]
            if bad:
                ctx.violation('impl-counterexample', 'evaluating the filter %r (payload in position %s) caused the event %s %s' % (text[:120], pos[0], bad[0][0], bad[0][1][:120]), rep)
                continue
            for ev, src in r['events']:
                if ev == 'compile':
                    if not SAFE_SOURCE.match(src):
                        ctx.violation('impl-counterexample', 'the filter %r (payload in position %s) made hszinc compile %r, which is not written over the alphabet of C12_source_alphabet'
                                      % (text[:120], pos[0], src[:200]), rep)
                    else:
                        compiled.append((text, src.split('return ', 1)[1]))
            if r['outcome'] not in ('ok', 'parse-error', 'ValueError'):
                ctx.violation('impl-counterexample', 'the filter %r (payload in position %s) %s: neither evaluated nor rejected with a parse error' % (text[:120], pos[0], r['outcome']), rep)
        ctx.coverage['distinct_nontrivial'] = len(filters)
        if ctx.violations:
            return
        # tie: the model's source vs what was really compiled
        by_text = dict(compiled)
        outcome = {r['filter']: r['outcome'] for r in reports}
        tie = [t for t in filters if meta[t][0] in ('str-raw', 'uri-raw', 'ref-name', 'ref-dis', 'unit', 'tag', 'tag-cmp', 'tag-step', 'tag-not', 'number', 'op', 'whole', 'str', 'ref-dis-esc')]
        tie = [t for t in tie if all(ord(c) < 0x10000 for c in t)][:(6000 if thorough else 1500)]
        outside = re.compile(r'[\[\{\*]|Bin\(|C\(|[A-Za-z0-9_]+\(|\d\d\d\d-\d\d|\d\d:\d\d')
        for t, a in zip(tie, ctx.model.ask_parallel([[Sym('fparse'), t] for t in tie])):
            if outside.search(t) or outcome[t] == 'ValueError':
                continue         # float() / strptime refused the token: those are oracles of the model
            if False:
                continue         # a literal kind the parser model does not cover
            ctx.coverage['traces_validated_against_impl'] += 1
            m_ok = isinstance(a, list) and str(a[0]) == 'ok'
            i_ok = outcome[t] == 'ok'
            if m_ok != i_ok or (m_ok and t in by_text and a[2] != by_text[t]):
                ctx.coverage['disagreements_checked'] += 1
                ctx.violation('correspondence-broken', 'payload filter %r: model %s, implementation %s / compiled %r'
                              % (t[:120], (a[2] if m_ok else 'error'), outcome[t], by_text.get(t, '')[:200]), {'filter': t, 'component': 'fparse'})
                break
        ctx.sample({'filter': 'a == "__import__(\'os\').system(...)"', 'compiled': by_text.get('a == "%s"' % zinc_escape(pls[0]), '(cached)')})
    finally:
        shutil.rmtree(cdir, ignore_errors=True)


def replay(ctx, data):
    print('replay:', data)
    run(ctx)
