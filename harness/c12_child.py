"""Child process of the C12 check: evaluates filters under an audit hook and reports what happened.
stdin: JSON {"filters": [...], "canary_dir": path};  stdout: one JSON report."""
import builtins
import json
import os
import sys

events = []
armed = [False]


def hook(ev, args):
    if armed[0]:
        if ev in ('compile', 'exec'):
            src = args[0] if ev == 'compile' else getattr(args[0], 'co_name', '?')
            if isinstance(src, bytes):
                src = src.decode('utf-8', 'replace')
            events.append((ev, src if isinstance(src, str) else repr(src)[:200]))
        else:
            events.append((ev, repr(args)[:200]))


def main():
    req = json.load(sys.stdin)
    import warnings
    warnings.simplefilter('ignore')
    import hszinc
    from hszinc import grid_filter
    import pyparsing
    import codec
    builtins.CANARY = []
    g = hszinc.Grid(version='3.0')
    for c in ('id', 'a', 'b', 'c', 'siteRef'):
        g.column[c] = {}
    g.append({'id': hszinc.Ref('r0'), 'a': 1.0, 'b': 'x', 'siteRef': hszinc.Ref('r1')})
    g.append({'id': hszinc.Ref('r1'), 'a': hszinc.Quantity(5.0, 'kg'), 'b': hszinc.Uri('u'), 'c': hszinc.MARKER})
    g.append({'id': 'r2', 'a': 'CANARY', 'b': None, 'c': hszinc.XStr('hex', '00')})
    # a row whose id carries a display name (found by the scan of _follow_ref only) and rows that point to it
    g.append({'id': hszinc.Ref('s1', 'Site 1'), 'a': 2.0, 'b': 'site'})
    g.append({'id': hszinc.Ref('r4'), 'a': 3.0, 'siteRef': hszinc.Ref('s1')})
    g.append({'id': hszinc.Ref('r5'), 'a': 4.0, 'siteRef': hszinc.Ref('s1', 'other label')})
    # two rows carrying the same id (look-ups answer the later one): a filter that keeps only the earlier row must not change that,
    # and a row whose id was edited in place after the index was built
    g.append({'id': hszinc.Ref('dup'), 'a': 77.0, 'b': 'first'})
    g.append({'id': hszinc.Ref('dup'), 'a': 78.0, 'b': 'second'})
    g.append({'id': hszinc.Ref('e0'), 'a': 79.0})
    g.get('@e0')
    g[-1]['id'] = hszinc.Ref('e1')
    PROBES = ['r0', '@r0', 'r1', '@r1', 'r2', '@r2', 's1', '@s1', '@s1 "Site 1"', 'Site 1', 'r4', '@r4', 'r5', 'zz', '', 'None', 'dup', '@dup', '@e0', '@e1']

    def lookups():
        """what the grid answers to look-ups by key: the position of the row handed back (the lazily built index itself is not state,
        what it answers is)"""
        rows = list(g)
        out = []
        for k in PROBES:
            r = g.get(k)
            try:
                r2 = g[k]
            except KeyError:
                r2 = None
            out.append((k, None if r is None else [i for i, x in enumerate(rows) if x is r], None if r2 is None else [i for i, x in enumerate(rows) if x is r2]))
        return out, [id(x) for x in rows]
    # warm up every lazily imported module before arming
    for w in ('a', 'a == 1 and not b or c->d', 'a == "x"', 'a == `u`', 'a == @r "d"', 'a == 2020-01-01', 'a == 12:00:00', 'a == 2020-01-01T00:00:00Z UTC',
              'a == C(1,2)', 'a == Bin(x)', 'a == hex("00")', 'a == [1]', 'a == {x:1}', 'a == 5kg', 'a == NA', 'a =='):
        try:
            g.filter(w)
        except Exception:  # noqa
            pass
    sys.addaudithook(hook)
    snap_grid = codec.canon(g)
    snap_look = lookups()
    from hszinc import zoneinfo as _zi
    snap_tz = (sorted(_zi.get_tz_map().items()), sorted(_zi.get_tz_rmap().items()))
    reports = []
    for text in req['filters']:
        mods = set(sys.modules)
        gl = {k: id(v) for k, v in vars(grid_filter).items() if not k.startswith('_gen_hsfilter_')}
        bl = {k: id(v) for k, v in vars(builtins).items()}
        hz = {k: id(v) for k, v in vars(hszinc).items()}
        del events[:]
        outcome = 'ok'
        armed[0] = True
        try:
            res = g.filter(text)
            n = len(res)
        except pyparsing.ParseBaseException:
            outcome = 'parse-error'
        except ValueError as e:
            outcome = 'ValueError'
        except BaseException as e:  # noqa
            outcome = 'raises ' + type(e).__name__
        armed[0] = False
        problems = []
        if builtins.CANARY:
            problems.append('the canary was touched: %r' % (builtins.CANARY,))
            del builtins.CANARY[:]
        if os.listdir(req['canary_dir']):
            problems.append('a file appeared in the canary directory')
        if set(sys.modules) != mods:
            problems.append('modules were imported: %r' % sorted(set(sys.modules) - mods)[:5])
        if {k: id(v) for k, v in vars(grid_filter).items() if not k.startswith('_gen_hsfilter_')} != gl:
            problems.append('globals of hszinc.grid_filter changed')
        if {k: id(v) for k, v in vars(builtins).items()} != bl:
            problems.append('builtins changed')
        if {k: id(v) for k, v in vars(hszinc).items()} != hz:
            problems.append('the hszinc namespace changed')
        if codec.canon(g) != snap_grid:
            problems.append('the grid was modified')
        now_tz = (sorted(_zi.get_tz_map().items()), sorted(_zi.get_tz_rmap().items()))
        if now_tz != snap_tz:
            problems.append('the time-zone tables of hszinc.zoneinfo changed: %r' % (sorted(set(now_tz[0]) ^ set(snap_tz[0]))[:3],))
            snap_tz = now_tz
        now = lookups()
        if now != snap_look:
            problems.append('the grid answers look-ups by key differently after the evaluation: %r' % ([(a, b) for a, b in zip(snap_look[0], now[0]) if a != b][:3],))
            snap_look = now
        reports.append({'filter': text, 'outcome': outcome, 'events': events[:40], 'problems': problems})
    json.dump({'reports': reports}, sys.stdout)


main()
