"""C15 - lookup by id always reflects the rows currently in the grid.

Theorems: coq/theories/Props/C15.v (Model/Grid.v: the lazily built, then
incrementally maintained id index; `scan_lookup` is the scan-based reference).
Tie: the lock-step triple of gridsim with ids of kinds str / int / Ref (with and
without display name), ids whose string forms collide (5 vs '5', Ref('x') vs '@x'),
duplicate ids, derived grids (slices, filtered grids)."""
import random

import gridsim

COMPONENTS = []

ROWS = {
    'x': (1, ('str', 'x'), 10, False),
    'i5': (2, ('int', 5), 20, False),
    'rx': (3, ('ref', 'x'), 30, False),
    's5': (4, ('str', '5'), 40, False),          # same string form as the int id 5
    'rxd': (5, ('refdis', 'x', 'Dis'), 50, False),
    'sat': (6, ('str', '@x'), 60, False),         # same string form as Ref('x')
    'noid': (7, None, 70, False),
    'i0': (8, ('int', 0), 80, False),             # falsy ids: 0 and the empty string
    'sempty': (11, ('str', ''), 110, False),
}
ND = ('notdict', 9)
KEYS = ['x', '5', '@x', "@x 'Dis'", 'zz', '0', '']


def run(ctx):
    rng = random.Random(ctx.seed + 15)
    thorough = ctx.tier == 'thorough' or ctx.escalate
    ctx.coverage['rule'] = ('as C14, with row ids of kinds str, int, Ref, Ref with display name, ids whose str() collide '
                            '(5 / "5", Ref("x") / "@x"), falsy ids (0, the empty string), rows without id; after every mutator get()/[] of every key in play, '
                            'on the grid, on slices of it and on filtered grids, with and without intermediate lookups '
                            '(index built / not yet built); a lookup is right when it returns a row that is currently in the grid '
                            'and whose id has that string form, and KeyError/default exactly when there is none; plus aliasing probes: a slice / filtered copy and its parent, one of them mutated afterwards, looked up on both')
    if gridsim.explore(ctx, ROWS, ND, KEYS, rng, thorough):
        gridsim.alias_probe(ctx, ROWS, KEYS, thorough)


def replay(ctx, data):
    gridsim.replay_case(ctx, data)
