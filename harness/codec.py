"""Value codec between Python/hszinc objects, the wire form of the Coq model's
`hval` / `json`, and a canonical comparable form; generators of Haystack-valid
values and grids.  Shared by the codec properties (C01-C10, C17)."""
import datetime
import math
import struct

from common import Sym

_H = {}


def H():
    if 'h' not in _H:
        import hszinc
        _H['h'] = hszinc
    return _H['h']


# ------------------------------------------------------------------ numbers
def fbits(x):
    x = float(x)
    if math.isnan(x):
        return 'nan'
    return struct.pack('>d', x).hex()


def numkind(x):
    if isinstance(x, float):
        if math.isnan(x):
            return 'nan'
        if math.isinf(x):
            return 'inf' if x > 0 else 'ninf'
    return 'fin'


def opt(s):
    return Sym('none') if s is None else [s]


# ------------------------------------------------- python value -> wire (hval)
def zone_of(dt):
    """what timezone_name(dt) answers (the oracle for the zone)"""
    from hszinc.zoneinfo import timezone_name
    try:
        return [timezone_name(dt)]
    except Exception as e:  # noqa
        return Sym(type(e).__name__)


def enc_value(v):
    h = H()
    if v is None:
        return Sym('null')
    if v is h.MARKER:
        return Sym('marker')
    if v is h.NA:
        return Sym('na')
    if v is h.REMOVE:
        return Sym('remove')
    if isinstance(v, bool):
        return [Sym('bool'), v]
    if isinstance(v, (int, float)):
        return [Sym('num'), Sym(numkind(v)), str(v), '%f' % v, Sym('none')]
    if isinstance(v, h.Quantity):
        x = v.value
        return [Sym('num'), Sym(numkind(x)), str(x), '%f' % x, opt(v.unit)]
    if isinstance(v, h.Uri):
        return [Sym('uri'), str(v)]
    if isinstance(v, h.Bin):
        return [Sym('bin'), str(v)]
    if isinstance(v, str):
        return [Sym('str'), v]
    if isinstance(v, h.Ref):
        return [Sym('ref'), v.name, opt(v.value if v.has_value else None)]
    if isinstance(v, h.XStr):
        return [Sym('xstr'), v.encoding, v.data_to_string()]
    if isinstance(v, h.Coordinate):
        return [Sym('coord'), '%f' % v.latitude, '%f' % v.longitude]
    if isinstance(v, datetime.datetime):
        off = v.utcoffset()
        return [Sym('dt'), v.year, v.month, v.day, v.hour, v.minute, v.second, v.microsecond,
                int(off.total_seconds()) if off is not None else 0, zone_of(v)]
    if isinstance(v, datetime.date):
        return [Sym('date'), v.year, v.month, v.day]
    if isinstance(v, datetime.time):
        return [Sym('time'), v.hour, v.minute, v.second, v.microsecond]
    if isinstance(v, list):
        return [Sym('list')] + [enc_value(x) for x in v]
    if isinstance(v, h.Grid):
        return enc_grid(v)
    if isinstance(v, dict) or hasattr(v, 'items'):
        return [Sym('dict')] + [[k, enc_value(x)] for k, x in v.items()]
    raise TypeError('cannot encode %r' % (v,))


def enc_grid(g):
    return [Sym('grid'), str(g.version),
            [[k, enc_value(x)] for k, x in g.metadata.items()],
            [[c, [[k, enc_value(x)] for k, x in m.items()]] for c, m in g.column.items()],
            [[[k, enc_value(x)] for k, x in row.items()] for row in g]]


# --------------------------------------------------------- canonical forms
def canon(v):
    """hszinc / python value -> comparable, kind-aware canonical form"""
    h = H()
    if v is None:
        return ('null',)
    if v is h.MARKER:
        return ('marker',)
    if v is h.NA:
        return ('na',)
    if v is h.REMOVE:
        return ('remove',)
    if isinstance(v, bool):
        return ('bool', v)
    if isinstance(v, (int, float)):
        return ('num', fbits(v), None)
    if isinstance(v, h.Quantity):
        return ('num', fbits(v.value), v.unit)
    if isinstance(v, h.Uri):
        return ('uri', str(v))
    if isinstance(v, h.Bin):
        return ('bin', str(v))
    if isinstance(v, str):
        return ('str', v)
    if isinstance(v, h.Ref):
        return ('ref', v.name, v.value if v.has_value else None)
    if isinstance(v, h.XStr):
        d = v.data
        return ('xstr', v.encoding, bytes(d).hex() if isinstance(d, (bytes, bytearray)) else ('text', d))
    if isinstance(v, h.Coordinate):
        return ('coord', fbits(v.latitude), fbits(v.longitude))
    if isinstance(v, datetime.datetime):
        off = v.utcoffset()
        zone = getattr(v.tzinfo, 'zone', None)
        if off is None:
            return ('dt-naive', v.isoformat())
        utc = v.astimezone(datetime.timezone.utc)
        return ('dt', utc.isoformat(), int(off.total_seconds()), zone)
    if isinstance(v, datetime.date):
        return ('date', v.year, v.month, v.day)
    if isinstance(v, datetime.time):
        return ('time', v.hour, v.minute, v.second, v.microsecond, v.tzinfo is not None)
    if isinstance(v, list):
        return ('list',) + tuple(canon(x) for x in v)
    if isinstance(v, h.Grid):
        return ('grid', str(v.version), tuple((k, canon(x)) for k, x in v.metadata.items()),
                tuple((c, tuple((k, canon(x)) for k, x in m.items())) for c, m in v.column.items()),
                tuple(tuple((k, canon(x)) for k, x in row.items()) for row in v))
    if isinstance(v, dict) or hasattr(v, 'items'):
        return ('dict',) + tuple((k, canon(x)) for k, x in v.items())
    return ('other', repr(v))


class ModelRaise(Exception):
    def __init__(self, name):
        self.name = name


def unopt(e):
    return None if e == 'none' else e[0]


def canon_model(m):
    """wire form of a model `hval` (reader result) -> the same canonical form.
    Builtin conversions the model leaves to CPython are applied here: float(),
    XStr's decoding, iso8601 + pytz for date-times.  ModelRaise when they raise."""
    h = H()
    if m == 'null':
        return ('null',)
    if m == 'marker':
        return ('marker',)
    if m == 'na':
        return ('na',)
    if m == 'remove':
        return ('remove',)
    k = m[0]
    if k == 'bool':
        return ('bool', m[1] == 'true')
    if k == 'num':
        kind, ztok = m[1], m[2]
        unit = unopt(m[4])
        if kind == 'inf':
            x = float('inf')
        elif kind == 'ninf':
            x = float('-inf')
        elif kind == 'nan':
            x = float('nan')
        else:
            try:
                x = float(ztok)
            except ValueError:
                raise ModelRaise('ValueError')
        return ('num', fbits(x), unit)
    if k in ('str', 'uri', 'bin'):
        return (k, m[1])
    if k == 'ref':
        return ('ref', m[1], unopt(m[2]))
    if k == 'xstr':
        try:
            x = h.XStr(m[1], m[2])
        except Exception as e:  # noqa
            raise ModelRaise(type(e).__name__ if not isinstance(e, ValueError) else 'ValueError')
        return canon(x)
    if k == 'date':
        return ('date', m[1], m[2], m[3])
    if k == 'time':
        return ('time', m[1], m[2], m[3], m[4], False)
    if k == 'dtraw':
        import iso8601
        from hszinc.zoneinfo import timezone
        try:
            dt = iso8601.parse_date(m[1])
        except ValueError:
            raise ModelRaise('ValueError')
        zn = unopt(m[2])
        if zn:
            try:
                dt = dt.astimezone(timezone(zn))
            except Exception:  # noqa  (the readers' bare except)
                pass
        return canon(dt)
    if k == 'coord':
        try:
            return ('coord', fbits(float(m[1])), fbits(float(m[2])))
        except ValueError:
            raise ModelRaise('ValueError')
    if k == 'list':
        return ('list',) + tuple(canon_model(x) for x in m[1:])
    if k == 'dict':
        return ('dict',) + tuple((kv[0], canon_model(kv[1])) for kv in m[1:])
    if k == 'grid':
        return ('grid', m[1], tuple((kv[0], canon_model(kv[1])) for kv in m[2]),
                tuple((c[0], tuple((kv[0], canon_model(kv[1])) for kv in c[1])) for c in m[3]),
                tuple(tuple((kv[0], canon_model(kv[1])) for kv in r) for r in m[4]))
    raise AssertionError(m)


def model_result(m):
    """(ok canonical) / (raise name) from a model `res hval` on the wire"""
    if m[0] == 'raise':
        return ('raise', m[1])
    try:
        return ('ok', canon_model(m[1]))
    except ModelRaise as e:
        return ('raise', e.name)


def impl_result(f, *a, **kw):
    try:
        return ('ok', canon(f(*a, **kw)))
    except Exception as e:  # noqa
        return ('raise', exc_class(e))


def exc_class(e):
    """exception -> the class name the model uses (ValueError family collapsed where CPython's
    builtins raise subclasses of it)"""
    h = H()
    from hszinc.zincparser import ZincParseException
    if isinstance(e, ZincParseException):
        return 'ZincParseException'
    for cls in (KeyError, IndexError, TypeError, AttributeError, NotImplementedError, OverflowError, RecursionError):
        if isinstance(e, cls):
            return cls.__name__
    if isinstance(e, ValueError):
        return 'ValueError'
    return type(e).__name__


# ------------------------------------------------------------- JSON trees
def json_to_wire(j):
    if j is None:
        return Sym('null')
    if isinstance(j, bool):
        return Sym('true') if j else Sym('false')
    if isinstance(j, (int, float)):
        return [Sym('num'), repr(j)]
    if isinstance(j, str):
        return [Sym('str'), j]
    if isinstance(j, list):
        return [Sym('arr')] + [json_to_wire(x) for x in j]
    if isinstance(j, dict):
        return [Sym('obj')] + [[k, json_to_wire(x)] for k, x in j.items()]
    raise TypeError(j)


def wire_to_json_canon(m):
    """model json on the wire -> comparable (ordered) form"""
    if m == 'null':
        return None
    if m == 'true':
        return True
    if m == 'false':
        return False
    k = m[0]
    if k == 'num':
        return ('num', m[1])
    if k == 'str':
        return m[1]
    if k == 'arr':
        return [wire_to_json_canon(x) for x in m[1:]]
    if k == 'obj':
        return ('obj', [(kv[0], wire_to_json_canon(kv[1])) for kv in m[1:]])
    raise AssertionError(m)


def json_canon(j):
    if isinstance(j, dict):
        return ('obj', [(k, json_canon(v)) for k, v in j.items()])
    if isinstance(j, list):
        return [json_canon(x) for x in j]
    if isinstance(j, (int, float)) and not isinstance(j, bool):
        return ('num', repr(j))
    return j


# --------------------------------------------------------------- generators
TEXT_ALPHABET = ['"', '\\', '$', '`', ',', '\n', '\r', '\t', '\x00', '\x1f', '>', '<', '[', ']', '{', '}', '(', ')',
                 ':', ' ', '\x85', ' ', '￿', '\U00010000', 'n', 's', 'é', '\x7f', '\x0b', 'x', '-', '@']

UNITS = ['kg', 'm', '%', '$', '°C', 'kW/h', 'm_s', 'µg', 'h', 'Ω', 'ft/min']
ZONES = None


def zones():
    global ZONES
    if ZONES is None:
        from hszinc.zoneinfo import get_tz_map
        ZONES = sorted(get_tz_map().keys())
    return ZONES


def gen_text(rng, maxlen=8):
    n = rng.choice([0, 1, 1, 2, 3, maxlen])
    out = []
    for _ in range(n):
        r = rng.random()
        if r < 0.5:
            out.append(rng.choice(TEXT_ALPHABET))
        elif r < 0.8:
            out.append(chr(rng.randint(32, 126)))
        else:
            c = rng.choice([rng.randint(0, 0x1f), rng.randint(0x80, 0x7ff), rng.randint(0x800, 0xd7ff),
                            rng.randint(0xe000, 0xffff), rng.randint(0x10000, 0x10ffff)])
            out.append(chr(c))
    return ''.join(out)


def gen_name(rng):
    first = rng.choice('abcdefghijklmnopqrstuvwxyz')
    rest = ''.join(rng.choice('abcXYZ019_') for _ in range(rng.choice([0, 1, 3, 6])))
    return first + rest


BOUNDARY_FLOATS = [0.0, -0.0, 1.0, -1.0, 0.5, 1e-7, 123456.789, 1e16, 1e22, 1.7976931348623157e308, 5e-324,
                   2.2250738585072014e-308, 9007199254740993.0, 0.1, 1 / 3.0, -2.5e-5, 1e100, 4.35, 0.000001, 1e-5, 100.0]


def gen_number(rng, allow_nonfinite=True):
    r = rng.random()
    if r < 0.25:
        return rng.choice([0, 1, -1, 7, 42, 255, 65536, 2 ** 31, 2 ** 53, -(2 ** 53)])
    if r < 0.6:
        return rng.choice(BOUNDARY_FLOATS)
    if r < 0.7 and allow_nonfinite:
        return rng.choice([float('inf'), float('-inf'), float('nan')])
    if r < 0.85:
        return struct.unpack('>d', struct.pack('>Q', rng.getrandbits(64) & 0x7fefffffffffffff | (rng.getrandbits(1) << 63)))[0]
    return round(rng.uniform(-1e6, 1e6), rng.choice([0, 2, 6, 10]))


_SPECIAL = {}


def special_datetimes(h):
    """(haystack zone, naive UTC instant) for every (zone, offset) pair whose offset is not a whole hour, lies strictly between
    -1 h and 0, or exceeds 12 h in magnitude"""
    if 'l' not in _SPECIAL:
        out = []
        for zn in zones():
            tz = h.zoneinfo.timezone(zn)
            seen = set()
            for t, info in zip(getattr(tz, '_utc_transition_times', []), getattr(tz, '_transition_info', [])):
                sec = int(info[0].total_seconds())
                if 1 < t.year < 9990 and sec not in seen and (sec % 3600 or -3600 < sec < 0 or abs(sec) > 43200):
                    seen.add(sec)
                    out.append((zn, t + datetime.timedelta(hours=2)))
        _SPECIAL['l'] = out
    return _SPECIAL['l']


def gen_scalar(rng, pre3, kinds=None):
    """a Haystack-valid scalar (no list/dict/grid); 3.0-only kinds only when not pre3"""
    h = H()
    import pytz
    kinds = kinds or ['null', 'marker', 'remove', 'bool', 'num', 'qty', 'str', 'uri', 'bin', 'ref', 'refdis', 'date', 'time',
                      'datetime', 'coord'] + ([] if pre3 else ['na', 'xstr', 'xhex', 'xb64'])
    k = rng.choice(kinds)
    if k == 'null':
        return None
    if k == 'marker':
        return h.MARKER
    if k == 'remove':
        return h.REMOVE
    if k == 'na':
        return h.NA
    if k == 'bool':
        return rng.random() < 0.5
    if k == 'num':
        return gen_number(rng)
    if k == 'qty':
        return h.Quantity(gen_number(rng, allow_nonfinite=False), rng.choice(UNITS))
    if k == 'str':
        return gen_text(rng)
    if k == 'uri':
        return h.Uri(gen_text(rng))
    if k == 'bin':
        return h.Bin(rng.choice(['text/plain', 'image/png', 'a b; c="d"', '', 'x' * 5, '~!#$%&\'*+,-./:;<=>?@[\\]^_`{|}']))
    if k == 'ref':
        return h.Ref(rng.choice(['a', 'site-1', 'p:demo:r:1e85e02f-5f1e0afa', 'A.b~c_d', '0']))
    if k == 'refdis':
        return h.Ref(rng.choice(['a', 'site-1', 'x:y']), gen_text(rng))
    if k == 'date':
        return datetime.date(rng.choice([1, 1900, 2020, 9999, rng.randint(1, 9999)]), rng.randint(1, 12), rng.randint(1, 28))
    if k == 'time':
        return datetime.time(rng.randint(0, 23), rng.randint(0, 59), rng.randint(0, 59),
                             rng.choice([0, 0, 1, 500000, 999999, 12345, rng.randint(0, 999999)]))
    if k == 'datetime':
        if rng.random() < 0.12:
            # one of the unusual offsets a zone ever had: sub-hour, negative sub-hour (Monrovia before 1972, LMT-era zones), > 12 h
            sp = special_datetimes(h)
            if sp:
                zn, t = rng.choice(sp)
                return pytz.utc.localize(t + datetime.timedelta(seconds=rng.choice([0, 1, 86399]), microseconds=rng.choice([0, 1, 999999]))).astimezone(h.zoneinfo.timezone(zn))
        zname = rng.choice(zones())
        tz = h.zoneinfo.timezone(zname)
        trans = getattr(tz, '_utc_transition_times', None)
        if trans and len(trans) > 2 and rng.random() < 0.5:
            # an instant at / around a DST or offset transition: ambiguous and skipped local times included
            t = rng.choice(trans[1:])
            if t.year > 1:
                t = t + datetime.timedelta(seconds=rng.choice([0, -1, 1, -1800, 1800, -3600, 3599, 5400]),
                                           microseconds=rng.choice([0, 0, 1, 999999]))
                if 1 < t.year < 9999:
                    return pytz.utc.localize(t).astimezone(tz)
        naive = datetime.datetime(rng.choice([1970, 2000, 2020, 2021, 1950, 2037]), rng.randint(1, 12), rng.randint(1, 28),
                                  rng.randint(0, 23), rng.randint(0, 59), rng.randint(0, 59),
                                  rng.choice([0, 0, 1, 999999, rng.randint(0, 999999)]))
        # (a local time inside a DST gap does not exist: normalize() moves it to the valid spelling of the same instant,
        #  otherwise the value would carry an offset its zone does not have at that instant)
        return tz.normalize(tz.localize(naive))
    if k == 'coord':
        return h.Coordinate(rng.choice([0.0, -27.4725, 90.0, -90.0, round(rng.uniform(-90, 90), rng.choice([0, 3, 6, 9]))]),
                            rng.choice([0.0, 153.003, 180.0, -180.0, round(rng.uniform(-180, 180), rng.choice([0, 3, 6, 9]))]))
    if k == 'xstr':
        return h.XStr(rng.choice(['Foo', 'text', 'a1', 'Color']), gen_text(rng))
    if k == 'xhex':
        return h.XStr('hex', ''.join(rng.choice('0123456789abcdef') for _ in range(2 * rng.randint(0, 6))))
    if k == 'xb64':
        import base64
        return h.XStr('b64', base64.b64encode(bytes(rng.getrandbits(8) for _ in range(rng.randint(0, 7)))).decode())
    raise AssertionError(k)


def gen_value(rng, pre3, depth=2):
    h = H()
    if not pre3 and depth > 0 and rng.random() < 0.3:
        r = rng.random()
        if r < 0.45:
            return [gen_value(rng, pre3, depth - 1) for _ in range(rng.choice([0, 1, 2, 3]))]
        if r < 0.85:
            d = {}
            for _ in range(rng.choice([0, 1, 2, 3])):
                # now and then a tag name that the JSON encoding of grids also uses (a dict is data unless it has ALL of meta, cols, rows)
                d[rng.choice(RESERVED_TAGS) if rng.random() < 0.12 else gen_name(rng)] = gen_value(rng, pre3, depth - 1)
            if {'meta', 'cols', 'rows'} <= set(d):
                del d['rows']
            return d
        return gen_grid(rng, '3.0', depth - 1, small=True)
    return gen_scalar(rng, pre3)


def gen_grid(rng, ver=None, depth=2, small=False):
    h = H()
    ver = ver or rng.choice(['2.0', '3.0'])
    pre3 = ver == '2.0'
    ncols = rng.choice([1, 2, 3] if small else [1, 2, 3, 5])
    names = []
    while len(names) < ncols:
        n = gen_name(rng)
        if n not in names and n not in ('ver', 'name', 'meta', 'cols', 'rows'):
            names.append(n)
    g = h.Grid(version=ver)
    for _ in range(rng.choice([0, 0, 1, 3])):
        n = gen_name(rng)
        if n not in ('ver', 'name'):
            g.metadata[n] = gen_value(rng, pre3, depth)
    for n in names:
        cm = {}
        for _ in range(rng.choice([0, 0, 1, 2])):
            k = gen_name(rng)
            if k not in ('ver', 'name'):
                cm[k] = gen_value(rng, pre3, depth)
        g.column[n] = cm
    for _ in range(rng.choice([0, 1, 2] if small else [0, 1, 2, 4])):
        row = {}
        for n in names:
            if rng.random() < 0.85:
                row[n] = gen_value(rng, pre3, depth)
        g.append(row)
    return g


def shuffled_rows_twin(rng, g):
    """the same grid, each row dict built with its keys in another order (rows are dicts: their key order is not content)"""
    h = H()
    g2 = h.Grid(version=str(g.version))
    for k, v in g.metadata.items():
        g2.metadata[k] = v
    for n, cm in g.column.items():
        g2.column[n] = dict(cm.items())
    changed = False
    for row in g:
        items = list(row.items())
        if len(items) > 1:
            alt = items[::-1] if rng.random() < 0.5 else rng.sample(items, len(items))
            changed = changed or [k for k, _ in alt] != [k for k, _ in items]
            items = alt
        g2.append(dict(items))
    return g2 if changed else None


RESERVED_TAGS = ['meta', 'cols', 'rows', 'ver', 'name', 'id', 'dis']


def reserved_tag_grids(flat=False):
    """(flat: scalar values only and no further nesting - pyparsing needs tens of seconds per grid for the nested form)
    3.0 grids whose dict values use the tag names of the JSON grid encoding (every subset of meta / cols / rows but the full
    one, with values shaped like the real thing or not) in cells, list items, nested dicts, grid and column metadata"""
    h = H()
    import itertools
    shapes = {'meta': [{'ver': '3.0'}, 'x', {}], 'cols': [[{'name': 'a'}], [], 1.0], 'rows': [[], [{'a': 1.0}], 'r']}
    if flat:
        shapes = {'meta': ['3.0', 'x', h.MARKER], 'cols': ['a', 2.0, 1.0], 'rows': [h.NA, 1.0, 'r']}
    dicts = []
    for n in (1, 2):
        for keys in itertools.combinations(['meta', 'cols', 'rows'], n):
            for variant in range(3):
                d = {k: shapes[k][variant] for k in keys}
                dicts.append(d)
                dicts.append(dict(d, other=h.MARKER))
    out = []
    for i in range(0, len(dicts), 6):
        chunk = dicts[i:i + 6]
        g = h.Grid(version='3.0')
        g.metadata['m'] = chunk[0]
        g.column['a'] = {'cm': chunk[1 % len(chunk)]}
        g.column['b'] = {}
        for d in chunk:
            g.append({'a': d, 'b': 1.0 if flat else [d, {'inner': d}]})
        out.append(g)
    return out


def zone_sweep_grids(rng, per_grid=64):
    """grids that together hold one date-time in EVERY mapped zone (cells and metadata), at an ordinary instant each -
    so that a fault that touches only a few zone names cannot hide behind the luck of the seed"""
    import datetime
    import pytz
    h = H()
    zs = list(zones())
    out = []
    for i in range(0, len(zs), per_grid):
        g = h.Grid(version=rng.choice(['2.0', '3.0']))
        g.column['zone'] = {}
        g.column['ts'] = {}
        for zn in zs[i:i + per_grid]:
            tz = h.zoneinfo.timezone(zn)
            naive = datetime.datetime(rng.choice([1995, 2008, 2021, 2033]), rng.randint(1, 12), rng.randint(1, 28), rng.randint(3, 22), rng.randint(0, 59), rng.randint(0, 59),
                                      rng.choice([0, 1, 999999]))
            g.append({'zone': zn, 'ts': pytz.utc.localize(naive).astimezone(tz)})
        first = h.zoneinfo.timezone(zs[i])
        g.metadata['since'] = pytz.utc.localize(datetime.datetime(2020, 2, 29, 12, 0, 0)).astimezone(first)
        out.append(g)
    return out
