(* C10 - version gating: a pre-3.0 grid never carries 3.0-only data.
   Statements about Model/Gate.v (Grid's validators as a state machine over real values, with the kind tests
   of Grid._detect_or_validate and the if/elif ladders of both dumpers REGENERATED from the source into
   Gen/GateData.v), Model/ZincDump.v, Model/Json.v. *)
From Coq Require Import String.
From Coq Require Import List NArith ZArith Bool.
From HS Require Import Base.Prelude Gen.GateData Gen.JsonData Model.Value Model.Version Model.PyList Model.Json Model.ZincDump Model.Gate.
From HS Require Import Proofs.JsonP Proofs.GateP.
Import ListNotations.
Open Scope N_scope.

(* the kinds Grid treats as 3.0-only are exactly the property's: NA, list, dict, nested grid, extended string *)
Theorem C10_grid_kinds : forall v, grid_detects v = is_v3_only v.
Proof. intro v. destruct v as [| | | |b|k z j [[|c u]|]|s|s|s|n d|e t|y m d|h mi s us|y m d h mi s us off z|iso zn|la lo|l|d|ver meta cols rows]; reflexivity. Qed.

Definition kind_v3 (k : kind) : bool := match k with KNA | KList | KDict | KXStr | KGrid => true | _ => false end.
(* under a pre-3.0 version both writers refuse exactly those kinds (ladders of the source, by computation) *)
Theorem C10_writer_kinds : forall k,
  ladder_refuses zdump_ladder zdump_gated k = kind_v3 k /\ ladder_refuses jdump_ladder jdump_gated k = kind_v3 k.
Proof. intro k. destruct k; split; reflexivity. Qed.
(* ... and the writer models do: never emitted, ValueError *)
Theorem C10_writers_refuse : forall f v, is_v3_only v = true ->
  zdump (S f) true v = Raise ValueError /\ jdump (S f) true v = Raise ValueError.
Proof. intros f v H. destruct v; try discriminate; split; reflexivity. Qed.
(* the JSON reader gates list, dict, NA and XStr *)
Theorem C10_json_reader_gates :
  jparse_gated = ["isinstance(scalar, dict)"; "isinstance(scalar, list)"; "scalar == NA_STR"; "scalar.startswith('x:')"]%string.
Proof. reflexivity. Qed.
Theorem C10_json_reader_refuses : forall f l m,
  jparse (S f) true (JArr l) = Raise ValueError /\ jparse (S f) true (JObj m) = Raise ValueError /\
  jparse_str true na_str = Raise ValueError.
Proof. intros. split; [reflexivity|]. split; [reflexivity|]. exact (proj2 rt_na). Qed.

(* each kind of value takes its own branch of the writers' isinstance ladders (bool before number,
   Ref / Bin / XStr / Uri before str, datetime before date) *)
Definition own_test (k : kind) : string :=
  match k with
  | KNull => "scalar is None" | KNA => "scalar is NA" | KMarker => "scalar is MARKER" | KRemove => "scalar is REMOVE"
  | KList => "isinstance(scalar, list)" | KDict => "isinstance(scalar, dict)" | KBool => "isinstance(scalar, bool)"
  | KRef => "isinstance(scalar, Ref)" | KBin => "isinstance(scalar, Bin)" | KXStr => "isinstance(scalar, XStr)"
  | KUri => "isinstance(scalar, Uri)" | KStr => "isinstance(scalar, six.string_types)"
  | KDateTime => "isinstance(scalar, datetime.datetime)" | KTime => "isinstance(scalar, datetime.time)"
  | KDate => "isinstance(scalar, datetime.date)" | KCoord => "isinstance(scalar, Coordinate)"
  | KQty => "isinstance(scalar, Quantity)"
  | KNum => "isinstance(scalar, float) or isinstance(scalar, int) or isinstance(scalar, int)"
  | KGrid => "isinstance(scalar, Grid)"
  end%string.
Theorem C10_ladder_dispatch : forall k,
  first_branch zdump_ladder k = Some (own_test k) /\ first_branch jdump_ladder k = Some (own_test k).
Proof. intro k. destruct k; split; reflexivity. Qed.

(* IN MEMORY: after ANY history of stores, a grid whose version is judged pre-3.0 holds no 3.0-only value -
   in its metadata, in any column's metadata, in any row *)
Theorem C10_invariant : forall ver g ops, gate_new ver = Ok g ->
  let s := gate_run g ops in
  pre3_of (gver s) = Ok true -> forall v, In v (gate_values s) -> is_v3_only v = false.
Proof.
  intros ver g ops Hnew s Hp v Hin.
  destruct (gate_run_inv ops g (gate_new_inv ver g Hnew) Hp) as [D1 [D2 D3]].
  rewrite <- C10_grid_kinds. unfold gate_values in Hin. fold s in D1, D2, D3.
  apply in_app_or in Hin. destruct Hin as [Hin|Hin].
  - rewrite Forall_forall in D1. exact (D1 v Hin).
  - apply in_app_or in Hin. destruct Hin as [Hin|Hin]; apply in_flat_map in Hin; destruct Hin as [x [Hx Hv]].
    + rewrite Forall_forall in D2. pose proof (D2 x Hx) as D. rewrite Forall_forall in D. exact (D v Hv).
    + rewrite Forall_forall in D3. pose proof (D3 x Hx) as D. rewrite Forall_forall in D. exact (D v Hv).
Qed.

(* a grid created without a version reports 3.0 as soon as a 3.0-only value is stored *)
Theorem C10_upgrade : forall g k v, ggiven g = false -> pre3_of (gver g) = Ok true -> is_v3_only v = true ->
  exists g', gate_step g (OMetaSet k v) = (g', Ok tt) /\ gver g' = s_ "3.0" /\
  (forall r, exists g2, gate_step g (OAppend ((k, v) :: r)) = (g2, Ok tt) /\ gver g2 = s_ "3.0").
Proof.
  intros g k v Hg Hp Hv. rewrite <- C10_grid_kinds in Hv. eexists. split; [|split].
  - cbn [gate_step]. rewrite (detect_upgrades g v Hg Hp Hv). cbn [bind with_state gver ggiven gmeta gcols grows]. reflexivity.
  - reflexivity.
  - intro r. cbn [gate_step append_all map snd detect_all]. rewrite (detect_upgrades g v Hg Hp Hv). cbn [bind].
    assert (Hrest : forall vs g0, pre3_of (gver g0) = Ok false -> detect_all g0 vs = Ok g0).
    { induction vs as [|x vs IH]; intros g0 H0; cbn [detect_all]; [reflexivity|]. rewrite detect_nonpre3 by exact H0. cbn [bind]. apply IH. exact H0. }
    rewrite Hrest by exact pre3_V30. eexists. split; reflexivity.
Qed.

(* a grid with an explicit pre-3.0 version refuses it with ValueError and is unchanged *)
Definition stored_values (o : gate_op) : list hval :=
  match o with
  | OMetaSet _ v => [v]
  | OColSet _ m | OColAdd _ m => map snd m
  | OAppend r | OInsert _ r | OSetItem _ r => map snd r
  | OColMetaSet _ _ _ | OExtend _ => []
  end.
Theorem C10_refuse : forall g o, ggiven g = true -> pre3_of (gver g) = Ok true ->
  existsb is_v3_only (stored_values o) = true -> gate_step g o = (g, Raise ValueError).
Proof.
  intros g o Hg Hp Hv.
  assert (Hv' : existsb grid_detects (stored_values o) = true).
  { rewrite <- Hv. apply existsb_ext_in || (clear; induction (stored_values o) as [|x l IH]; cbn [existsb]; [reflexivity|rewrite C10_grid_kinds, IH; reflexivity]). }
  destruct o as [k v|c k v|c m|c m|row|i row|i row|rs]; cbn [stored_values] in Hv'; try discriminate; cbn [gate_step append_all].
  - cbn [existsb] in Hv'. rewrite orb_false_r in Hv'. rewrite (detect_refuses g v Hg Hp Hv'). reflexivity.
  - rewrite (detect_all_refuses _ g Hg Hp Hv'). reflexivity.
  - rewrite (detect_all_refuses _ g Hg Hp Hv'). reflexivity.
  - rewrite (detect_all_refuses _ g Hg Hp Hv'). reflexivity.
  - rewrite (detect_all_refuses _ g Hg Hp Hv'). reflexivity.
  - rewrite (detect_all_refuses _ g Hg Hp Hv'). reflexivity.
Qed.

(* non-vacuity: 2.5 is judged like 3.0 (nearest), 1.0 like 2.0; a given 2.0 grid refuses a list, an unversioned one upgrades *)
Example C10_examples :
  pre3_of (s_ "2.5") = Ok false /\ pre3_of (s_ "1.0") = Ok true /\ pre3_of (s_ "3.0.0") = Ok false /\ pre3_of (s_ "4.0") = Ok false /\
  (let g := mkGate (s_ "2.0") true [] [] [] in
   gate_new (Some (s_ "2.0")) = Ok g /\ gate_step g (OAppend [(s_ "a", VList [])]) = (g, Raise ValueError)) /\
  (let g := mkGate (s_ "2.0") false [] [] [] in
   gate_new None = Ok g /\ gver (fst (gate_step g (OAppend [(s_ "a", VList [])]))) = s_ "3.0").
Proof. vm_compute. repeat split. Qed.

Print Assumptions C10_grid_kinds.
Print Assumptions C10_writer_kinds.
Print Assumptions C10_writers_refuse.
Print Assumptions C10_json_reader_gates.
Print Assumptions C10_json_reader_refuses.
Print Assumptions C10_ladder_dispatch.
Print Assumptions C10_invariant.
Print Assumptions C10_upgrade.
Print Assumptions C10_refuse.
