(* Model of the compiled-filter cache of hszinc/grid_filter.py (C13):
     @lru_cache(maxsize=FILTER_CACHE_LRU_SIZE) _filter_function, the name counter (itertools.count),
     _FnWrapper (exec of the template defines a module global, __del__ removes it, get() reads it back),
     filter_function.
   A filter is abstracted to its key (the text); `the code compiled for key k` is k itself: what matters is
   WHICH filter's code a call hands back.
   Two semantics: sequential histories with eviction, and a small-step interleaving of several threads.
   Executable definitions only; proofs in Proofs/FilterCacheP.v. *)
From Coq Require Import List NArith Arith Bool.
From HS Require Import Base.Prelude.
Import ListNotations.

Definition key := N.
Definition name := nat.              (* the N of _gen_hsfilter_N *)

Fixpoint glookup (n : name) (g : list (name * key)) : option key :=
  match g with [] => None | (m, k) :: g' => if Nat.eqb m n then Some k else glookup n g' end.
Fixpoint gdel (n : name) (g : list (name * key)) : list (name * key) :=
  match g with [] => [] | (m, k) :: g' => if Nat.eqb m n then gdel n g' else (m, k) :: gdel n g' end.
Fixpoint cfind (k : key) (c : list (key * name)) : option name :=
  match c with [] => None | (k', n) :: c' => if N.eqb k' k then Some n else cfind k c' end.
Fixpoint cdel (k : key) (c : list (key * name)) : list (key * name) :=
  match c with [] => [] | (k', n) :: c' => if N.eqb k' k then c' else (k', n) :: cdel k c' end.

(* ------------------------------------------------------------------ sequential histories *)
Record cstate := mkC { ctr : name ; globals : list (name * key) ; cache : list (key * name) (* most recent first *) }.
Definition cinit : cstate := mkC 0%nat [] [].

(* filter_function(k): the code of the function handed back (None: the global is gone) *)
Definition call (cap : nat) (s : cstate) (k : key) : cstate * option key :=
  match cfind k (cache s) with
  | Some n =>                                        (* hit: move to the front, get() *)
      (mkC (ctr s) (globals s) ((k, n) :: cdel k (cache s)), glookup n (globals s))
  | None =>
      let n := ctr s in                              (* next(_id_function) *)
      let g1 := (n, k) :: globals s in               (* exec(def _gen_hsfilter_n ...) *)
      let c1 := (k, n) :: cache s in
      if Nat.ltb cap (length c1) then                (* full: the least recently used wrapper is finalised *)
        match rev c1 with
        | (k', n') :: _ => let g2 := gdel n' g1 in
                           (mkC (S n) g2 (removelast c1), glookup n g1)   (* the caller still holds its wrapper *)
        | [] => (mkC (S n) g1 c1, glookup n g1)
        end
      else (mkC (S n) g1 c1, glookup n g1)
  end.

Fixpoint run_calls (cap : nat) (s : cstate) (ks : list key) : cstate * list (option key) :=
  match ks with
  | [] => (s, [])
  | k :: ks' => let '(s1, r) := call cap s k in let '(s2, rs) := run_calls cap s1 ks' in (s2, r :: rs)
  end.

(* ------------------------------------------------------------------ interleaved threads *)
Inductive tstate :=
| TStart (k : key)                 (* about to ask the cache *)
| TAlloc (k : key)                 (* miss: parsed and generated, about to take a name *)
| TNamed (k : key) (n : name)      (* has its name, about to exec the definition *)
| TDefined (k : key) (n : name)    (* defined, about to be stored in the cache *)
| THolding (k : key) (n : name)    (* holds the wrapper, about to get() the function *)
| TDone (r : option key).

Record pstate := mkP { pctr : name ; pglobals : list (name * key) ; pcache : list (key * name) ; threads : list tstate }.

Fixpoint upd {A} (i : nat) (x : A) (l : list A) : list A :=
  match i, l with
  | _, [] => []
  | O, _ :: l' => x :: l'
  | S i', y :: l' => y :: upd i' x l'
  end.

(* one step of thread i (no eviction: the theorem is about runs during which the cache has room) *)
Definition pstep (s : pstate) (i : nat) : pstate :=
  match nth_error (threads s) i with
  | None => s
  | Some t =>
      match t with
      | TStart k =>
          match cfind k (pcache s) with
          | Some n => mkP (pctr s) (pglobals s) (pcache s) (upd i (THolding k n) (threads s))
          | None => mkP (pctr s) (pglobals s) (pcache s) (upd i (TAlloc k) (threads s))
          end
      | TAlloc k => mkP (S (pctr s)) (pglobals s) (pcache s) (upd i (TNamed k (pctr s)) (threads s))
      | TNamed k n => mkP (pctr s) ((n, k) :: pglobals s) (pcache s) (upd i (TDefined k n) (threads s))
      | TDefined k n => mkP (pctr s) (pglobals s) ((k, n) :: pcache s) (upd i (THolding k n) (threads s))
      | THolding k n => mkP (pctr s) (pglobals s) (pcache s) (upd i (TDone (glookup n (pglobals s))) (threads s))
      | TDone _ => s
      end
  end.
Fixpoint prun (s : pstate) (sched : list nat) : pstate :=
  match sched with [] => s | i :: sched' => prun (pstep s i) sched' end.

(* ---- the same with eviction while the threads run ---- *)
Definition holds (n : name) (t : tstate) : bool :=
  match t with TDefined _ m | THolding _ m => Nat.eqb m n | _ => false end.
Definition held (n : name) (ts : list tstate) : bool := existsb (holds n) ts.
Definition cnames (c : list (key * name)) : list name := map snd c.

(* store in the cache; when over capacity the least recently used wrapper is dropped, and finalised
   (its global deleted) unless a thread still holds it *)
Definition cache_insert (cap : nat) (k : key) (n : name) (c : list (key * name)) (g : list (name * key)) (ts : list tstate)
  : list (key * name) * list (name * key) :=
  let c1 := (k, n) :: c in
  if Nat.ltb cap (length c1) then
    match rev c1 with
    | (k', n') :: _ => (removelast c1, if held n' ts then g else gdel n' g)
    | [] => (c1, g)
    end
  else (c1, g).

Definition pstep2 (cap : nat) (s : pstate) (i : nat) : pstate :=
  match nth_error (threads s) i with
  | None => s
  | Some t =>
      match t with
      | TStart k =>
          match cfind k (pcache s) with
          | Some n => mkP (pctr s) (pglobals s) ((k, n) :: cdel k (pcache s)) (upd i (THolding k n) (threads s))
          | None => mkP (pctr s) (pglobals s) (pcache s) (upd i (TAlloc k) (threads s))
          end
      | TAlloc k => mkP (S (pctr s)) (pglobals s) (pcache s) (upd i (TNamed k (pctr s)) (threads s))
      | TNamed k n => mkP (pctr s) ((n, k) :: pglobals s) (pcache s) (upd i (TDefined k n) (threads s))
      | TDefined k n =>
          let ts' := upd i (THolding k n) (threads s) in
          let '(c', g') := cache_insert cap k n (pcache s) (pglobals s) ts' in
          mkP (pctr s) g' c' ts'
      | THolding k n =>
          let r := glookup n (pglobals s) in
          let ts' := upd i (TDone r) (threads s) in
          (* the wrapper is released: if the cache dropped it meanwhile and nobody else holds it, it is finalised now *)
          let g' := if existsb (Nat.eqb n) (cnames (pcache s)) || held n ts' then pglobals s else gdel n (pglobals s) in
          mkP (pctr s) g' (pcache s) ts'
      | TDone _ => s
      end
  end.
Fixpoint prun2 (cap : nat) (s : pstate) (sched : list nat) : pstate :=
  match sched with [] => s | i :: sched' => prun2 cap (pstep2 cap s i) sched' end.


(* the filter a thread is working on *)
Definition key_of (t : tstate) : option key :=
  match t with TStart k | TAlloc k | TNamed k _ | TDefined k _ | THolding k _ => Some k | TDone _ => None end.

(* ------------------------------------------------------------------ wire *)
From Coq Require Import String ZArith.
Local Open Scope string_scope.
(* (cache-run cap k1 k2 ...): per call the code handed back, then the names left in the globals *)
Definition cmd_cache_run (args : list sexp) : sexp :=
  match args with
  | SInt cap :: ks =>
      let keys := flat_map (fun e => match e with SInt z => [Z.to_N z] | _ => [] end) ks in
      let '(s, rs) := run_calls (Z.to_nat cap) cinit keys in
      SList [SList (List.map (fun r => match r with Some k => SInt (Z.of_N k) | None => sym "none" end) rs);
             SList (List.map (fun nk => SInt (Z.of_nat (fst nk))) (globals s));
             SInt (Z.of_nat (ctr s))]
  | _ => bad_request
  end.
