(* C05 - the JSON reader decodes every well-formed Haystack-JSON value.
   Statements only; proofs in Proofs/JsonP.v.  Beside the writer's own spelling
   (Props/C02.v, the same reader) these are the other legal spellings the
   property names.
   PARTIAL: exponent forms of numbers, fractions of other lengths than six
   digits, Z-suffixed date-times and the grid-level clauses (rows missing / null /
   omitting columns) are not proved; they are exercised by the independent writer
   of the correspondence check.  "The caller's object is never modified" cannot be
   stated about a functional model; it is checked on the implementation only. *)
From Coq Require Import String.
From HS Require Import Base.Prelude Gen.JsonData Model.Value Model.Json Proofs.JsonP Proofs.JsonGridP Proofs.JsonReadP.
Open Scope N_scope.

(* both Remove spellings, under either version *)
Theorem C05_remove : forall pre3,
  jparse_str pre3 remove2_str = Ok VRemove /\ jparse_str pre3 remove3_str = Ok VRemove.
Proof. exact rt_remove. Qed.

(* raw JSON numbers and booleans *)
Theorem C05_raw : forall pre3 tok b,
  jparse_scalar pre3 (JNum tok) = Ok (VNum NkFin tok tok None) /\
  jparse_scalar pre3 (JBool b) = Ok (VBool b) /\ jparse_scalar pre3 JNull = Ok VNull.
Proof. intros. repeat split; reflexivity. Qed.

(* strings without the s: prefix *)
Theorem C05_bare_string : forall pre3 s, bare s -> jparse_str pre3 s = Ok (VStr s).
Proof. exact rt_bare. Qed.

(* times without seconds *)
Theorem C05_time_hm : forall pre3 h mi, h <= 23 -> mi <= 59 ->
  jparse_str pre3 (104 :: 58 :: d2 h ++ 58 :: d2 mi) = Ok (VTime h mi 0 0).
Proof. exact rt_time_hm. Qed.

(* n:INF / n:-INF / n:NaN *)
Theorem C05_nonfinite : forall pre3,
  jparse_str pre3 (s_ "n:INF") = Ok (VNum NkInf [] [] None) /\
  jparse_str pre3 (s_ "n:-INF") = Ok (VNum NkNegInf [] [] None) /\
  jparse_str pre3 (s_ "n:NaN") = Ok (VNum NkNaN [] [] None).
Proof. exact rt_nonfinite. Qed.

(* numbers with and without unit (fixed-point spelling) *)
Theorem C05_num : forall pre3 tok u, f6_shape tok ->
  jparse_str pre3 (110 :: 58 :: tok ++ match u with Some x => 32 :: x | None => [] end)
  = Ok (VNum NkFin tok tok u).
Proof. exact rt_num. Qed.

(* concrete instances of the remaining clauses, evaluated on the model *)
Example C05_examples :
  (* exponent form with unit *)
  jparse_str false (s_ "n:1.5e+3 kW") = Ok (VNum NkFin (s_ "1.5e+3") (s_ "1.5e+3") (Some (s_ "kW"))) /\
  (* a fraction of three digits *)
  jparse_str false (s_ "h:07:08:09.250") = Ok (VTime 7 8 9 250000) /\
  (* date-time without zone name, and with Z *)
  jparse_str false (s_ "t:2020-01-02T03:04:05+01:00") = Ok (VDateTimeRaw (s_ "2020-01-02T03:04:05+01:00") None) /\
  jparse_str false (s_ "t:2020-01-02T03:04:05Z UTC") = Ok (VDateTimeRaw (s_ "2020-01-02T03:04:05Z") (Some (s_ "UTC"))).
Proof. vm_compute. repeat split. Qed.

(* a grid object whose `rows` is null, or which has no `rows` key at all, denotes the grid with no rows *)
Theorem C05_rows_null : forall f m,
  jparse_grid (S f) ((s_ "rows", JNull) :: m) = jparse_grid (S f) ((s_ "rows", JArr nil) :: m).
Proof. exact rows_null_is_empty. Qed.
Theorem C05_rows_missing : forall f m, assoc (s_ "rows") m = None ->
  jparse_grid (S f) (m ++ cons (s_ "rows", JArr nil) nil) = jparse_grid (S f) m.
Proof. exact rows_missing_is_empty. Qed.

(* WHOLE OBJECTS: a grid object {meta, cols, rows} - meta with a string "ver" member anywhere among its members, column
   objects with a string "name" member anywhere, row objects with ANY members (a row may leave columns out), rows possibly
   missing or null - parses to the grid it denotes: the version, the metadata tags in order with the values their members
   denote, the columns in order, the rows.  "Denotes" for a member is: the scalar / nested reader returns that value (the
   per-spelling theorems above and C02_values give it for every spelling and every nesting). *)
Theorem C05_whole_object : forall g ver p3 meta_j meta cs cols rows_j rows,
  ver_any ver p3 -> assoc VER meta_j = Some (JStr ver) -> denotes_items g p3 (remove_key VER meta_j) meta ->
  Forall2 (denotes_col g p3) cs cols ->
  (exists rs, rows_j = Some (JArr rs) /\ Forall2 (denotes_row g p3) rs rows) \/ ((rows_j = None \/ rows_j = Some JNull) /\ rows = nil) ->
  jparse_grid (S g) (cons (s_ "meta", JObj meta_j) (cons (s_ "cols", JArr cs)
                     match rows_j with Some r => cons (s_ "rows", r) nil | None => nil end))
  = Ok (VGrid ver (dict_of meta) (dict_of cols) rows).
Proof. exact json_object_denotes. Qed.
Print Assumptions C05_whole_object.
