(* Whole grids through the JSON writer and reader models *)
From Coq Require Import String.
From Coq Require Import List NArith Bool Lia Arith.
From HS Require Import Base.Prelude Model.Value Model.Escape Model.Version Model.Json.
From HS Require Import Proofs.PreludeP Proofs.VersionP Proofs.JsonP.
Import ListNotations.
Open Scope N_scope.

(* ---------- the local loops of _dump_grid_to_json / parse_grid, named ---------- *)
Definition dump_items (f : nat) (p3 : bool) : list (str * hval) -> res (list (str * json)) :=
  fix go (l : list (str * hval)) : res (list (str * json)) :=
    match l with
    | [] => Ok []
    | (k, x) :: l' => do j <- jdump f p3 x; do r <- go l'; Ok ((k, j) :: r)
    end.
Definition dump_cols (f : nat) (p3 : bool) : list (str * list (str * hval)) -> res (list json) :=
  fix go (l : list (str * list (str * hval))) : res (list json) :=
    match l with
    | [] => Ok []
    | (c, cm) :: l' =>
        do cmj <- dump_items f p3 cm;
        do r <- go l';
        Ok (JObj (dict_set (s_ "name"%string) (JStr c) (dict_of cmj)) :: r)
    end.
Definition dump_rows (f : nat) (p3 : bool) (cols : list (str * list (str * hval))) : list (list (str * hval)) -> res (list json) :=
  fix go (l : list (list (str * hval))) : res (list json) :=
    match l with
    | [] => Ok []
    | row :: l' =>
        do cells <- dump_items f p3 (map (fun c => (fst c, match assoc (fst c) row with Some x => x | None => VNull end)) cols);
        do r <- go l';
        Ok (JObj (dict_of cells) :: r)
    end.

Lemma jdump_grid_unfold f ver meta cols rows : jdump_grid (S f) ver meta cols rows =
  do p3 <- pre3_of ver;
  do m <- dump_items f p3 meta;
  match cols with
  | [] => Raise TypeError
  | _ => do cs <- dump_cols f p3 cols;
         do rs <- dump_rows f p3 cols rows;
         Ok (JObj [(s_ "meta"%string, JObj (dict_set (s_ "ver"%string) (JStr ver) (dict_of m)));
                   (s_ "cols"%string, JArr cs); (s_ "rows"%string, JArr rs)])
  end.
Proof. reflexivity. Qed.

Definition parse_items (g : nat) (p3 : bool) : list (str * json) -> res (list (str * hval)) :=
  fix go (l : list (str * json)) : res (list (str * hval)) :=
    match l with
    | [] => Ok []
    | (k, x) :: l' => do v <- jparse g p3 x; do r <- go l'; Ok ((k, v) :: r)
    end.
Definition parse_cols (g : nat) (p3 : bool) : list json -> res (list (str * list (str * hval))) :=
  fix go (l : list json) : res (list (str * list (str * hval))) :=
    match l with
    | [] => Ok []
    | JObj c :: l' =>
        match assoc (s_ "name"%string) c with
        | Some (JStr nm) =>
            do cm <- parse_items g p3 (remove_key (s_ "name"%string) c);
            do r <- go l';
            Ok ((nm, dict_of cm) :: r)
        | Some _ => Raise TypeError
        | None => Raise KeyError
        end
    | _ :: _ => Raise AttributeError
    end.
Definition parse_rows (g : nat) (p3 : bool) : list json -> res (list (list (str * hval))) :=
  fix go (l : list json) : res (list (list (str * hval))) :=
    match l with
    | [] => Ok []
    | JObj r :: l' => do cells <- parse_items g p3 r; do rest <- go l'; Ok (dict_of cells :: rest)
    | _ :: _ => Raise AttributeError
    end.

Lemma jparse_grid_unfold g m : jparse_grid (S g) m =
  match assoc (s_ "meta"%string) m with
  | Some (JObj meta) =>
      match assoc (s_ "ver"%string) meta with
      | Some (JStr ver) =>
          do pv <- parse_ver ver;
          do p3 <- pre3_of ver;
          do md <- parse_items g p3 (remove_key (s_ "ver"%string) meta);
          match assoc (s_ "cols"%string) m with
          | Some (JArr cols) =>
              do cs <- parse_cols g p3 cols;
              do rs <- match assoc (s_ "rows"%string) m with
                       | Some (JArr rows) => parse_rows g p3 rows
                       | Some JNull | None => Ok []
                       | Some _ => Raise TypeError
                       end;
              Ok (VGrid (vstr pv) (dict_of md) (dict_of cs) rs)
          | Some _ => Raise TypeError
          | None => Raise KeyError
          end
      | Some _ => Raise TypeError
      | None => Raise KeyError
      end
  | Some _ => Raise AttributeError
  | None => Raise KeyError
  end.
Proof. reflexivity. Qed.

(* ---------- items ---------- *)
Definition item_rt (f g : nat) (p3 : bool) (x : hval) : Prop := forall j, jdump f p3 x = Ok j -> jparse g p3 j = Ok x.

Lemma dump_items_cons f p3 k x l : dump_items f p3 ((k, x) :: l) = do j <- jdump f p3 x; do r <- dump_items f p3 l; Ok ((k, j) :: r).
Proof. reflexivity. Qed.
Lemma parse_items_cons g p3 k x l : parse_items g p3 ((k, x) :: l) = do v <- jparse g p3 x; do r <- parse_items g p3 l; Ok ((k, v) :: r).
Proof. reflexivity. Qed.

Lemma items_rt f g p3 : forall l lj, Forall (fun kv => item_rt f g p3 (snd kv)) l -> dump_items f p3 l = Ok lj ->
  parse_items g p3 lj = Ok l /\ map fst lj = map fst l.
Proof.
  induction l as [|[k x] l IH]; intros lj Hall H.
  - inversion H; subst. split; reflexivity.
  - rewrite dump_items_cons in H. inversion Hall as [|? ? Hx Hl]; subst. cbn [snd] in Hx.
    destruct (jdump f p3 x) as [j|] eqn:Ej; [|discriminate]. cbn [bind] in H.
    destruct (dump_items f p3 l) as [r|] eqn:Er; [|discriminate]. cbn [bind] in H. inversion H; subst.
    destruct (IH r Hl eq_refl) as [P M]. rewrite parse_items_cons, (Hx j Ej). cbn [bind]. rewrite P. cbn [bind map fst].
    rewrite M. split; reflexivity.
Qed.

Lemma assoc_none_notin {A} k (m : list (str * A)) : ~ In k (map fst m) -> assoc k m = None.
Proof.
  induction m as [|[y v] m IH]; intro H; [reflexivity|]. cbn [assoc]. cbn [map fst In] in H.
  destruct (str_eqb_spec y k) as [E|_]; [subst; exfalso; apply H; left; reflexivity|]. apply IH. intro Hi. apply H. right. exact Hi.
Qed.
Lemma assoc_last {A} k (v : A) m : ~ In k (map fst m) -> assoc k (m ++ [(k, v)]) = Some v.
Proof. intro H. rewrite assoc_app_none, (assoc_none_notin k m H). cbn [assoc]. rewrite str_eqb_refl. reflexivity. Qed.
Lemma remove_key_last {A} k (v : A) m : ~ In k (map fst m) -> remove_key k (m ++ [(k, v)]) = m.
Proof.
  induction m as [|[y w] m IH]; intro H; cbn [List.app remove_key].
  - rewrite str_eqb_refl. reflexivity.
  - cbn [map fst In] in H. destruct (str_eqb_spec y k) as [E|_]; [subst; exfalso; apply H; left; reflexivity|].
    rewrite IH; [reflexivity|]. intro Hi. apply H. right. exact Hi.
Qed.

(* ---------- columns ---------- *)
Definition NAME : str := s_ "name"%string.
Definition VER : str := s_ "ver"%string.
Definition col_ok (f g : nat) (p3 : bool) (c : str * list (str * hval)) : Prop :=
  NoDup (map fst (snd c)) /\ ~ In NAME (map fst (snd c)) /\ Forall (fun kv => item_rt f g p3 (snd kv)) (snd c).

Lemma dump_cols_cons f p3 c cm l : dump_cols f p3 ((c, cm) :: l) =
  do cmj <- dump_items f p3 cm; do r <- dump_cols f p3 l; Ok (JObj (dict_set NAME (JStr c) (dict_of cmj)) :: r).
Proof. reflexivity. Qed.
Lemma parse_cols_cons g p3 c l : parse_cols g p3 (JObj c :: l) =
  match assoc NAME c with
  | Some (JStr nm) => do cm <- parse_items g p3 (remove_key NAME c); do r <- parse_cols g p3 l; Ok ((nm, dict_of cm) :: r)
  | Some _ => Raise TypeError
  | None => Raise KeyError
  end.
Proof. reflexivity. Qed.

Lemma cols_rt f g p3 : forall cols cs, Forall (col_ok f g p3) cols -> dump_cols f p3 cols = Ok cs -> parse_cols g p3 cs = Ok cols.
Proof.
  induction cols as [|[c cm] cols IH]; intros cs Hall H.
  - inversion H; subst. reflexivity.
  - rewrite dump_cols_cons in H. inversion Hall as [|? ? [Hnd [Hnn Hit]] Hl]; subst. cbn [snd] in *.
    destruct (dump_items f p3 cm) as [cmj|] eqn:Ec; [|discriminate]. cbn [bind] in H.
    destruct (dump_cols f p3 cols) as [r|] eqn:Er; [|discriminate]. cbn [bind] in H. inversion H; subst.
    destruct (items_rt f g p3 cm cmj Hit Ec) as [P M].
    assert (D : dict_of cmj = cmj) by (apply dict_of_nodup; rewrite M; exact Hnd).
    assert (Fr : ~ In NAME (map fst cmj)) by (rewrite M; exact Hnn).
    rewrite D, (dict_set_fresh NAME (JStr c) cmj Fr). rewrite parse_cols_cons, (assoc_last NAME (JStr c) cmj Fr), (remove_key_last NAME (JStr c) cmj Fr), P.
    cbn [bind]. rewrite (IH r Hl eq_refl). cbn [bind]. rewrite (dict_of_nodup cm Hnd). reflexivity.
Qed.

(* ---------- rows: every row holds one cell per column, in column order ---------- *)
Definition canon_row (cols : list (str * list (str * hval))) (row : list (str * hval)) : Prop :=
  map (fun c => (fst c, match assoc (fst c) row with Some x => x | None => VNull end)) cols = row.
Definition row_ok (f g : nat) (p3 : bool) cols (row : list (str * hval)) : Prop :=
  canon_row cols row /\ Forall (fun kv => item_rt f g p3 (snd kv)) row.

Lemma dump_rows_cons f p3 cols row l : dump_rows f p3 cols (row :: l) =
  do cells <- dump_items f p3 (map (fun c => (fst c, match assoc (fst c) row with Some x => x | None => VNull end)) cols);
  do r <- dump_rows f p3 cols l; Ok (JObj (dict_of cells) :: r).
Proof. reflexivity. Qed.
Lemma parse_rows_cons g p3 r l : parse_rows g p3 (JObj r :: l) = do cells <- parse_items g p3 r; do rest <- parse_rows g p3 l; Ok (dict_of cells :: rest).
Proof. reflexivity. Qed.

Lemma rows_rt f g p3 cols : NoDup (map fst cols) -> forall rows rs, Forall (row_ok f g p3 cols) rows -> dump_rows f p3 cols rows = Ok rs ->
  parse_rows g p3 rs = Ok rows.
Proof.
  intro Hnd. induction rows as [|row rows IH]; intros rs Hall H.
  - inversion H; subst. reflexivity.
  - rewrite dump_rows_cons in H. inversion Hall as [|? ? [Hc Hit] Hl]; subst. unfold canon_row in Hc. rewrite Hc in H.
    destruct (dump_items f p3 row) as [cj|] eqn:Ec; [|discriminate]. cbn [bind] in H.
    destruct (dump_rows f p3 cols rows) as [r|] eqn:Er; [|discriminate]. cbn [bind] in H. inversion H; subst.
    destruct (items_rt f g p3 row cj Hit Ec) as [P M].
    assert (Kr : map fst row = map fst cols) by (rewrite <- Hc at 1; rewrite map_map; cbn [fst]; reflexivity).
    assert (D : dict_of cj = cj) by (apply dict_of_nodup; rewrite M, Kr; exact Hnd).
    rewrite D, parse_rows_cons, P. cbn [bind]. rewrite (IH r Hl eq_refl). cbn [bind].
    rewrite (dict_of_nodup row) by (rewrite Kr; exact Hnd). reflexivity.
Qed.

(* ---------- the grid ---------- *)
Definition ver_ok (ver : str) : Prop := exists pv, parse_ver ver = Ok pv /\ pre3_of ver = Ok false /\ vstr pv = ver.

Lemma match_ne {A B} (l : list A) (a b : B) : l <> [] -> match l with [] => a | _ :: _ => b end = b.
Proof. destruct l; [contradiction|reflexivity]. Qed.

Theorem json_grid_roundtrip f g ver meta cols rows j :
  ver_ok ver -> cols <> [] ->
  NoDup (map fst meta) -> ~ In VER (map fst meta) -> Forall (fun kv => item_rt f g false (snd kv)) meta ->
  NoDup (map fst cols) -> Forall (col_ok f g false) cols -> Forall (row_ok f g false cols) rows ->
  jdump_grid (S f) ver meta cols rows = Ok j ->
  exists m, j = JObj m /\ jparse_grid (S g) m = Ok (VGrid ver meta cols rows).
Proof.
  intros [pv [PV [P3 VS]]] Hne Hmn Hmv Hmi Hcn Hci Hri H.
  rewrite jdump_grid_unfold, P3 in H. cbn [bind] in H.
  destruct (dump_items f false meta) as [mj|] eqn:Em; [|discriminate]. cbn [bind] in H.
  rewrite (match_ne cols _ _ Hne) in H.
  destruct (dump_cols f false cols) as [cs|] eqn:Ec; [|discriminate]. cbn [bind] in H.
  destruct (dump_rows f false cols rows) as [rs|] eqn:Er; [|discriminate]. cbn [bind] in H.
  pose proof H as H'.
  inversion H'; subst j. clear H H'. eexists. split; [reflexivity|].
  destruct (items_rt f g false meta mj Hmi Em) as [P M].
  assert (D : dict_of mj = mj) by (apply dict_of_nodup; rewrite M; exact Hmn).
  assert (Fr : ~ In VER (map fst mj)) by (rewrite M; exact Hmv).
  rewrite jparse_grid_unfold. fold VER. rewrite D, (dict_set_fresh VER (JStr ver) mj Fr).
  assert (A1 : assoc (s_ "meta"%string) [(s_ "meta"%string, JObj (mj ++ [(VER, JStr ver)])); (s_ "cols"%string, JArr cs); (s_ "rows"%string, JArr rs)] = Some (JObj (mj ++ [(VER, JStr ver)]))) by reflexivity.
  rewrite A1. rewrite (assoc_last VER (JStr ver) mj Fr), PV, P3. cbn [bind].
  rewrite (remove_key_last VER (JStr ver) mj Fr), P. cbn [bind].
  assert (A2 : assoc (s_ "cols"%string) [(s_ "meta"%string, JObj (mj ++ [(VER, JStr ver)])); (s_ "cols"%string, JArr cs); (s_ "rows"%string, JArr rs)] = Some (JArr cs)) by reflexivity.
  assert (A3 : assoc (s_ "rows"%string) [(s_ "meta"%string, JObj (mj ++ [(VER, JStr ver)])); (s_ "cols"%string, JArr cs); (s_ "rows"%string, JArr rs)] = Some (JArr rs)) by reflexivity.
  rewrite A2, A3, (cols_rt f g false cols cs Hci Ec). cbn [bind]. rewrite (rows_rt f g false cols Hcn rows rs Hri Er). cbn [bind].
  rewrite VS, (dict_of_nodup meta Hmn), (dict_of_nodup cols Hcn). reflexivity.
Qed.

(* ---------- grids over plain values (strings, URIs, Bin, marker, null, booleans, NA, Remove, lists and dicts of those) ---------- *)
Lemma plain_item n f x : plain n x -> item_rt f f false x.
Proof. intros H j Hj. exact (plain_roundtrip n x f j H Hj). Qed.

Definition plain_items (n : nat) (l : list (str * hval)) : Prop := Forall (fun kv => plain n (snd kv)) l.
Definition plain_col (n : nat) (c : str * list (str * hval)) : Prop :=
  NoDup (map fst (snd c)) /\ ~ In NAME (map fst (snd c)) /\ plain_items n (snd c).
Definition plain_row (n : nat) (cols : list (str * list (str * hval))) (row : list (str * hval)) : Prop :=
  canon_row cols row /\ plain_items n row.

Theorem json_plain_grid_roundtrip n f ver meta cols rows j :
  ver_ok ver -> cols <> [] ->
  NoDup (map fst meta) -> ~ In VER (map fst meta) -> plain_items n meta ->
  NoDup (map fst cols) -> Forall (plain_col n) cols -> Forall (plain_row n cols) rows ->
  jdump_grid (S f) ver meta cols rows = Ok j ->
  exists m, j = JObj m /\ jparse_grid (S f) m = Ok (VGrid ver meta cols rows).
Proof.
  intros Hv Hne Hmn Hmv Hmi Hcn Hci Hri H.
  assert (I : forall l, plain_items n l -> Forall (fun kv => item_rt f f false (snd kv)) l).
  { intros l Hl. eapply Forall_impl; [|exact Hl]. cbn beta. intros kv Hk. apply (plain_item n). exact Hk. }
  apply (json_grid_roundtrip f f ver meta cols rows j Hv Hne Hmn Hmv (I _ Hmi) Hcn); [| |exact H].
  - eapply Forall_impl; [|exact Hci]. intros c [A [B C]]. split; [exact A|]. split; [exact B|]. apply I. exact C.
  - eapply Forall_impl; [|exact Hri]. intros r [A B]. split; [exact A|]. apply I. exact B.
Qed.

(* a row given as one value per column, in column order, is canonical *)
Lemma canon_combine (cols : list (str * list (str * hval))) cells :
  NoDup (map fst cols) -> length cells = length cols -> canon_row cols (combine (map fst cols) cells).
Proof.
  unfold canon_row. revert cells. induction cols as [|[c cm] cols IH]; intros [|x cells] Hnd Hl; cbn in Hl; try discriminate; [reflexivity|].
  cbn [map fst combine]. inversion Hnd as [|? ? Hnotin Hnd']; subst. cbn [assoc]. rewrite str_eqb_refl. f_equal.
  transitivity (map (fun c0 : str * list (str * hval) => (fst c0, match assoc (fst c0) (combine (map fst cols) cells) with Some x0 => x0 | None => VNull end)) cols); [|apply IH; [exact Hnd'|lia]].
  apply map_ext_in. intros [c2 cm2] Hin. cbn [fst].
  destruct (str_eqb_spec c c2) as [E|_]; [|reflexivity]. subst. exfalso. apply Hnotin. apply in_map_iff. exists (c2, cm2). split; [reflexivity|exact Hin].
Qed.
