(* Model of hszinc/zincdumper.py: the isinstance ladder of dump_scalar, the
   string/URI escaping of Model/Escape.v, isoformat, grid layout, and the
   framing of dumper.dump for several grids.
   Executable definitions only; proofs in Proofs/ZincDumpP.v. *)
From Coq Require Import String.
From HS Require Import Base.Prelude Model.Value Model.Escape Model.Version Model.Json.
Open Scope N_scope.

Definition NL1 : str := [10].

Definition znum_text (k : numkind) (ztok : str) : str :=
  match k with
  | NkNaN => s_ "NaN"%string | NkInf => s_ "INF"%string | NkNegInf => s_ "-INF"%string
  | NkFin => ztok
  end.

Fixpoint res_map {A B} (f : A -> res B) (l : list A) : res (list B) :=
  match l with
  | [] => Ok []
  | x :: l' => do y <- f x; do r <- res_map f l'; Ok (y :: r)
  end.

Fixpoint zdump (fuel : nat) (pre3 : bool) (v : hval) {struct fuel} : res str :=
  match fuel with
  | O => Raise OutOfFuel
  | S f =>
      match v with
      | VNull => Ok [78]
      | VNA => if pre3 then Raise ValueError else Ok [78; 65]
      | VMarker => Ok [77]
      | VRemove => Ok [82]
      | VList l =>
          if pre3 then Raise ValueError else
          do items <- res_map (zdump f pre3) l;
          Ok (91 :: join [44] items ++ [93])
      | VDict d =>
          if pre3 then Raise ValueError else
          do items <- res_map (fun kv => do t <- zdump f pre3 (snd kv); Ok (fst kv ++ 58 :: t)) (dict_of d);
          Ok (123 :: join [32] items ++ [125])
      | VBool b => Ok [if b then 84 else 70]
      | VRef n dis =>
          match dis with
          | Some d => do t <- zdump_str d; Ok (64 :: n ++ 32 :: t)
          | None => Ok (64 :: n)
          end
      | VBin s => Ok (s_ "Bin("%string ++ s ++ [41])
      | VXStr en tx => if pre3 then Raise ValueError else do t <- zdump_str tx; Ok (en ++ 40 :: t ++ [41])
      | VUri s => zdump_uri s
      | VStr s => zdump_str s
      | VDateTime y m d h mi s us off z =>
          match z with
          | ZError e => Raise e
          | ZName n => Ok (iso_datetime y m d h mi s us off ++ 32 :: n)
          end
      | VDateTimeRaw _ _ => Raise NotImplementedError
      | VTime h mi s us => Ok (iso_time h mi s us)
      | VDate y m d => Ok (iso_date y m d)
      | VCoord la lo => Ok (s_ "C("%string ++ la ++ 44 :: lo ++ [41])
      | VNum k ztok _ u =>
          match u with
          | Some (c :: u') => Ok (znum_text k ztok ++ c :: u')
          | _ => Ok (znum_text k ztok)
          end
      | VGrid ver meta cols rows =>
          if pre3 then Raise ValueError else
          do t <- zdump_grid f ver meta cols rows; Ok (60 :: 60 :: t ++ [62; 62])
      end
  end

with zdump_grid (fuel : nat) (ver : str) (meta : list (str * hval))
                (cols : list (str * list (str * hval))) (rows : list (list (str * hval)))
                {struct fuel} : res str :=
  match fuel with
  | O => Raise OutOfFuel
  | S f =>
      do p3 <- pre3_of ver;
      let dump_meta := fun (m : list (str * hval)) =>
        do items <- res_map (fun kv => match snd kv with
                                       | VMarker => Ok (fst kv)
                                       | x => do t <- zdump f p3 x; Ok (fst kv ++ 58 :: t)
                                       end) m;
        Ok (join [32] items) in
      do vtxt <- zdump_str ver;
      do header <- match meta with
                   | [] => Ok (s_ "ver:"%string ++ vtxt)
                   | _ => do mt <- dump_meta meta; Ok (s_ "ver:"%string ++ vtxt ++ 32 :: mt)
                   end;
      match cols with
      | [] => Raise TypeError
      | _ =>
          do cs <- res_map (fun c => match snd c with
                                     | [] => Ok (fst c)
                                     | cm => do mt <- dump_meta cm; Ok (fst c ++ 32 :: mt)
                                     end) cols;
          do rs <- res_map (fun row =>
                      do cells <- res_map (fun c => zdump f p3 (match assoc (fst c) row with Some x => x | None => VNull end)) cols;
                      Ok (join [44] cells)) rows;
          Ok (join NL1 ([header; join [44] cs] ++ rs ++ [[]]))
      end
  end.

Definition zdump_scalar (pre3 : bool) (v : hval) : res str := zdump (S (S (vdepth v))) pre3 v.
Definition zdump_top (v : hval) : res str :=
  match v with
  | VGrid ver m cs rs => zdump_grid (S (S (vdepth v))) ver m cs rs
  | _ => Raise TypeError
  end.
(* dumper.dump(list of grids) *)
Definition zdump_doc (gs : list hval) : res str := do ts <- res_map zdump_top gs; Ok (join NL1 ts).

(* ---- wire ---- *)
Local Open Scope string_scope.
Definition cmd_zdump (args : list sexp) : sexp :=
  match args with
  | [p; e] => match dec_hval 12 e with
              | Some v => sres SStr (zdump_scalar (is_sym "true" p) v)
              | None => bad_request
              end
  | [e] => match dec_hval 12 e with
           | Some v => sres SStr (zdump_top v)
           | None => bad_request
           end
  | _ => bad_request
  end.
